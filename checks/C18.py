"""C18 -- nsqadmin's cluster view equals the sum of its parts (spec: AdminView, AdminViewTrace)."""
import json
import os

from vlib import Inconclusive, log

META = {
    "technique": "TLC exhaustive check of AdminView.tla (views as union/sum operators over enumerated clusters x failing "
                 "subsets x failure classes, laws of the views, and the clusterinfo fan-out machine checked against them for "
                 "every arrival order); every enumerated cluster served by stub nsqd/nsqlookupd to a real nsqadmin child "
                 "process, every /api view compared field by field with the operators' predictions, a crash of the child "
                 "is an observation; seeded random clusters whose observed views TLC re-computes in AdminViewTrace.tla, once more "
                 "against an nsqadmin built with the race detector (same verdict rule)",
    "design_ref": "5/C18",
}


def run(ctx):
    quick = ctx.quick
    # 1. the model: view operators, their laws, the fan-out machine; the same run prints every case with its predicted views
    cfg = "AdminView_mc.cfg" if quick else "AdminView_thorough.cfg"
    r = ctx.model_check("AdminView", cfg, timeout=2400, workers=8)
    tlc_out = os.path.join(ctx.scratch, "adminview-tlc.out")
    with open(tlc_out, "w") as f:
        f.write(r.out)
    ncases = r.out.count('\n<<"CASE", ')
    if ncases < 100:
        raise Inconclusive("only %d cases printed by TLC" % ncases)
    del r
    nsqadmin = ctx.repo_bin("nsqadmin")

    # 2. binding A: every enumerated cluster against a real nsqadmin child process
    rep_path = os.path.join(ctx.scratch, "view-report.json")
    args = ["view-run", "--nsqadmin", nsqadmin, "--report", rep_path, "--cells", 12]
    if ctx.replay and ctx.replay.endswith(".json"):
        args += ["--only", ctx.replay]
    else:
        args += ["--tlc-out", tlc_out]
    rc, out, err = ctx.run_harness(args, timeout=7200, name="admin")
    if rc == 2 or not os.path.exists(rep_path):
        raise Inconclusive("view-run: " + out[-2000:] + err[-4000:])
    R = json.load(open(rep_path))
    if R.get("error"):
        raise Inconclusive("view-run: " + R["error"])
    hard = [f for f in (R["findings"] or []) if f["kind"] in ("crash", "view")]
    if R["run"] != R["cases"] and not hard:
        raise Inconclusive("view-run ran %d of %d cases" % (R["run"], R["cases"]))
    ctx.cov["evaluations"] += R["views"]
    ctx.cov["distinct_nontrivial"] += R["views_compared_in_full"]
    ctx.notes["enumerated_clusters"] = {
        "cases": R["cases"], "views_fetched": R["views"], "views_compared_field_by_field": R["views_compared_in_full"],
        "views_checked_for_liveness_only": R["views_liveness_only"], "nsqadmin_crashes": R["crashes"],
        "nsqadmin_child_starts": R["child_starts"], "answers": R["by_status"],
        "cases_by_failure_class": R["cases_by_failure_class"],
        "mismatches_not_reproduced_on_rerun": R["mismatches_not_reproduced"]}
    for s in (R["samples"] or [])[:4]:
        ctx.sample({"enumerated_case": s})
    soft = []
    for f in R["findings"] or []:
        if f["kind"] in ("crash", "view"):
            ctx.violation("%s (seen %d times); GET %s" % (f["what"], f["count"], f["path"]),
                          ctx.save_replay(f["key"], f), key=f["key"])
        else:   # depends on a deadline, or the child went away without a Go panic: never a violation by itself
            soft.append(f["key"] + ": " + f["what"][:300])

    # 3. binding B: seeded random clusters (more topics, arbitrary counters), observed views re-computed by TLC
    trace = os.path.join(ctx.scratch, "adminview.ndjson")
    trep = os.path.join(ctx.scratch, "view-trace.json")
    rc, out, err = ctx.run_harness(["view-trace", "--nsqadmin", nsqadmin, "--seed", ctx.seed, "--n", 150 if quick else 1500,
                                    "--out", trace, "--report", trep, "--cells", 12], timeout=3600, name="admin")
    if rc == 2 or not os.path.exists(trep):
        raise Inconclusive("view-trace: " + out[-2000:] + err[-4000:])
    T = json.load(open(trep))
    if T.get("error"):
        raise Inconclusive("view-trace: " + T["error"])
    ctx.cov["evaluations"] += T["views"]
    ctx.notes["random_clusters"] = {"clusters": T["clusters"], "views": T["views"], "crashes": T["crashes"]}
    for s in (T["samples"] or [])[:2]:
        ctx.sample({"random_cluster": s})
    for f in T.get("findings") or []:
        if f["kind"] == "crash":
            ctx.violation("%s (random cluster, seen %d times); GET %s" % (f["what"], f["count"], f["path"]),
                          ctx.save_replay("random-" + f["key"], f), key=f["key"])
        else:
            soft.append(f["key"] + ": " + f["what"][:300])
    if T["clusters"] > 0:
        ctx.validate_trace("AdminViewTrace", "AdminViewTrace.cfg", trace, T["clusters"], "admin-views", timeout=3000,
                           key="view-trace")

    # 3b. the same random clusters against an nsqadmin built with Go's race detector: the instrumentation slows the fan-out
    #     goroutines down unevenly, which widens whatever windows there are between them; the views are judged as above
    #     (what the detector itself reports is printed as a lead, never a verdict)
    import subprocess
    import glob
    racebin = os.path.join(ctx.scratch, "nsqadmin-race")
    import vlib
    p = subprocess.run(["go", "build", "-race", "-o", racebin, "./apps/nsqadmin"], cwd=vlib.REPO, env=ctx.goenv(),
                       capture_output=True, text=True)
    if p.returncode == 0:
        trace2 = os.path.join(ctx.scratch, "adminview-race.ndjson")
        trep2 = os.path.join(ctx.scratch, "view-trace-race.json")
        rc, out, err = ctx.run_harness(["view-trace", "--nsqadmin", racebin, "--seed", ctx.seed + 7, "--n", 120 if quick else 1000,
                                        "--out", trace2, "--report", trep2, "--cells", 8], timeout=3600, name="admin",
                                       env={"GORACE": "log_path=%s" % os.path.join(ctx.scratch, "race")})
        if rc != 2 and os.path.exists(trep2):
            T2 = json.load(open(trep2))
            if not T2.get("error") and T2["clusters"] > 0:
                ctx.cov["evaluations"] += T2["views"]
                ctx.notes["random_clusters_race_build"] = {"clusters": T2["clusters"], "views": T2["views"]}
                for f in T2.get("findings") or []:
                    if f["kind"] == "crash":
                        ctx.violation("%s (random cluster, race-instrumented nsqadmin, seen %d times); GET %s" % (f["what"], f["count"], f["path"]),
                                      ctx.save_replay("random-race-" + f["key"], f), key=f["key"])
                ctx.validate_trace("AdminViewTrace", "AdminViewTrace.cfg", trace2, T2["clusters"], "admin-views-race-build",
                                   timeout=3000, key="view-trace")
        reports = glob.glob(os.path.join(ctx.scratch, "race.*"))
        if reports:
            head = open(reports[0]).read()[:600].replace("\n", " | ")
            print("RACE-LEAD property=C18 the race detector reported %d data race(s) in nsqadmin, e.g. %s" % (len(reports), head), flush=True)
            ctx.notes["race_detector_reports"] = len(reports)
    else:
        ctx.notes["race_build"] = "not available: " + (p.stdout + p.stderr)[-300:]

    if soft and not ctx.violations:
        raise Inconclusive("observations that depend on a deadline or on the child process being killed: " + "; ".join(soft[:5]))
    if soft:
        ctx.notes["deadline_dependent_observations"] = soft[:10]

    ctx.cov["rule"] = ("evaluations = /api views fetched from a real nsqadmin process (every TLC-enumerated cluster x every "
                       "view, plus seeded random clusters); distinct_nontrivial = distinct (cluster, view) pairs whose whole "
                       "content was compared with the prediction (views for which only liveness is decided are not counted)")
    ctx.assumptions += [
        "stub upstreams answer like nsqd / nsqlookupd do for the enumerated contents (derived from nsqd/stats.go and "
        "nsqlookupd/http.go); a lookupd or directly configured nsqd that is 'refused' is played as accept-and-close",
        "wrong-shape answers (null elements, tombstones shorter than topics, missing e2e_processing_latency) decide only "
        "'nsqadmin does not crash'; plain failures (reset, 500, garbage, wrong JSON type, no answer in time) decide the whole view",
        "the per-node topic list of /api/nodes may be that of any answering lookupd (nsqadmin keeps the first answer)",
        "the node list nested in each channel of /api/topics/:t is not compared; /api/topics/:t/:c for a channel no answering "
        "nsqd reports decides liveness only",
        "counters are hi*10^12+lo pairs in the spec; sums never carry",
    ]
