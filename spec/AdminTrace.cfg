SPECIFICATION TraceSpec
CONSTANTS
  AdminLists = {{}}
  Headers = {"X-Forwarded-User"}
  Vals = {""}
  Cidrs = {""}
  Srcs = {"127.0.0.1"}
  Deep = FALSE
INVARIANT TraceProperty
CONSTRAINT HW
POSTCONDITION TraceAccepted
CHECK_DEADLOCK FALSE
