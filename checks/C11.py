"""C11 -- TLS-required and AUTH policies cannot be bypassed (spec: NsqdPolicy, NsqdPolicyMC, NsqdPolicyTrace)."""
import json
import os
import re
from concurrent.futures import ThreadPoolExecutor

from vlib import Inconclusive, log

META = {
    "technique": "TLC exhaustive check of NsqdPolicy.tla (one connection's policy FSM under every TLS / client-certificate / "
                 "auth configuration, the auth server as an adversarial environment over a domain of grant sets, TTLs and "
                 "errors); every maximal behaviour of the bounded replay configurations is replayed against a real "
                 "in-process nsqd with that policy, the repository's certificates and a stub auth server giving exactly "
                 "TLC's answers (responses, closure, stub queries and their times, GET /stats, HTTP status compared); "
                 "every replayed step and seeded random longer sequences are validated as traces by TLC against "
                 "NsqdPolicyTrace.tla (property level and implementation level)",
    "design_ref": "5/C11",
}

QUICK_FAMILIES = ["http", "tls", "grants", "auth", "refetch", "tlsauth"]
THOROUGH_FAMILIES = ["http", "tls", "grants", "auth", "auth4", "refetch", "tlsauth"]

BEH = re.compile(r'^<<"BEH", "(.*)">>\s*$')


def enumerate_family(ctx, fam, quick):
    cfg = "NsqdPolicy_%s_%s.cfg" % ("r" if quick else "rt", fam)
    r = ctx.tlc("NsqdPolicyMC", cfg, workers=1, timeout=1800, label="behaviours:" + fam)
    if not r.ok:
        raise Inconclusive("TLC on %s: %s\n%s" % (cfg, r.violated or "failed", r.out[-3000:]))
    path = os.path.join(ctx.scratch, "beh-%s.ndjson" % fam)
    n = 0
    with open(path, "w") as f:
        for line in r.out.splitlines():
            m = BEH.match(line)
            if m:
                # TLC prints the JSON as a TLA+ string: undo the escaping, keep one behaviour per line
                f.write(json.loads('"' + m.group(1) + '"') + "\n")
                n += 1
    if n == 0:
        raise Inconclusive("no behaviour extracted from %s" % cfg)
    return fam, path, n, r


def run_harness(ctx, mode, args, what, timeout):
    rep = os.path.join(ctx.scratch, "report-%s.json" % what)
    trace = os.path.join(ctx.scratch, "trace-%s.ndjson" % what)
    full = [mode, "--seed", ctx.seed, "--scratch", ctx.scratch, "--report", rep, "--trace", trace,
            "--certs", os.path.join(os.environ.get("VERIF_REPO", "/repo"), "nsqd/test/certs")] + args
    rc, out, err = ctx.run_harness(full, timeout=timeout, name="api11")
    if not os.path.exists(rep):
        raise Inconclusive("api11 %s (%s) produced no report: rc=%s %s %s" % (mode, what, rc, out[-1500:], err[-1500:]))
    R = json.load(open(rep))
    if err.strip():
        ctx.notes.setdefault("harness_stderr", []).append(err[-500:])
    return R, trace


def absorb(ctx, R, what, cases):
    ctx.cov["evaluations"] += R["steps"]
    for k in R["case_counts"]:
        cases.add(k)
    n = ctx.notes.setdefault("runs", {})
    n[what] = {k: R.get(k) for k in ("behaviours", "steps", "daemons", "policies", "retries", "auth_queries", "refetches",
                                      "denials", "tls_upgrades", "traces", "trace_events", "drift_count", "wall_s")}
    n[what]["unreplayable"] = R.get("unreplayable_count", 0)
    for s in (R.get("samples") or [])[:3]:
        ctx.sample({what: s})
    for v in R.get("violations") or []:
        path = ctx.save_replay("%s-%s" % (what, v["key"]), v)
        ctx.violation("%s: real nsqd broke %s: %s" % (what, v["key"], v["what"]), path, key=v["key"])
    if R.get("foreign_queries"):
        ctx.notes.setdefault("foreign_auth_queries", []).extend(R["foreign_queries"][:5])
    for d in (R.get("drift") or [])[:10]:
        ctx.drift("%s: real nsqd and NsqdPolicy!Out disagree: %s" % (what, d))
    if R.get("inconclusive") and not ctx.violations:
        raise Inconclusive("%s: %s; e.g. %s" % (what, R["inconclusive"], (R.get("unreplayable") or [""])[0]))


def selftest(ctx, trace):
    """The trace validation must be able to say no: turn one recorded denial into an execution."""
    lines = []
    hit = None
    pubgrant = False
    with open(trace) as f:
        for line in f:
            e = json.loads(line)
            if e.get("ev") == "Reset":
                pubgrant = False
            elif any("publish" in z.get("perms", []) for z in ((e.get("a") or {}).get("auths") or [])):
                pubgrant = True     # some answer on this connection granted publish on something
            # a denial that the PROPERTY demands (not one the code adds on top, such as wanting a channel pattern
            # for a publish): never authorised, or no answer so far granted publish at all
            if hit is None and e.get("ev") == "Cmd" and e["c"]["op"] in ("PUB", "DPUB") \
                    and (e["code"] == "E_AUTH_FIRST" or (e["code"] == "E_UNAUTHORIZED" and not pubgrant)):
                e.update(frame="response", code="OK", closed=False, topics=[e["c"]["t"]],
                         enq=dict(e["enq"], **{e["c"]["t"]: e["enq"][e["c"]["t"]] + 1}))
                hit = len(lines)
            lines.append(json.dumps(e))
            if hit is not None and len(lines) > hit + 3:
                break
            if hit is None and len(lines) > 60000:
                break
    if hit is None:
        ctx.notes["selftest"] = "no denial among the first recorded steps to corrupt"
        return
    start = max(i for i in range(hit + 1) if '"Reset"' in lines[i])
    bad = os.path.join(ctx.scratch, "corrupt.ndjson")
    with open(bad, "w") as f:
        f.write("\n".join(lines[start:]) + "\n")
    r = ctx.tlc("NsqdPolicyTrace", "NsqdPolicyTrace.cfg", workers=1, timeout=600, jvm=["-Xss512m"],
                files={bad: "trace.ndjson"}, record=False, label="selftest")
    if r.ok or not (r.violated or "TRACE_REJECTED" in r.out):
        raise Inconclusive("self-test: a trace in which a denied publish was executed is accepted by NsqdPolicyTrace")
    ctx.notes["selftest"] = "corrupted trace (denied publish turned into an execution) rejected: %s" % (r.violated or "postcondition")


def run(ctx):
    quick = ctx.quick
    cases = set()

    if ctx.replay:
        # re-run one saved behaviour (a violation's replay file) against the current tree
        v = json.load(open(ctx.replay))
        b = v["behaviour"]
        path = os.path.join(ctx.scratch, "one.ndjson")
        with open(path, "w") as f:
            f.write(json.dumps(b) + "\n")
        R, _ = run_harness(ctx, "replay", ["--behaviours", path], "replay-one", 600)
        absorb(ctx, R, "replay-one", cases)
        log("replayed %s: %d violations, %d drift" % (ctx.replay, len(R.get("violations") or []), R.get("drift_count", 0)))
        return

    # 1. the design: every policy x command sequence x adversary answer of the bounded model
    ctx.model_check("NsqdPolicyMC", "NsqdPolicy_mc.cfg" if quick else "NsqdPolicy_thorough.cfg", timeout=3000)

    # 2. binding A: enumerate the maximal behaviours of the replay configurations (these runs also check
    #    every invariant, including the history-based QueryCountLaw) ...
    fams = QUICK_FAMILIES if quick else THOROUGH_FAMILIES
    with ThreadPoolExecutor(max_workers=3) as ex:
        res = list(ex.map(lambda f: enumerate_family(ctx, f, quick), fams))
    total = 0
    paths = []
    for fam, path, n, r in res:
        ctx.cov["states"] += r.distinct
        ctx.cov["transitions"] += r.generated
        ctx.notes.setdefault("behaviours_per_family", {})[fam] = n
        total += n
        paths.append(path)
    log("TLC printed %d behaviours in %d families" % (total, len(fams)))
    # ... and replay each against a real nsqd with that policy
    allp = os.path.join(ctx.scratch, "beh-all.ndjson")
    with open(allp, "w") as out:
        for p in paths:
            with open(p) as f:
                for line in f:
                    out.write(line)
            os.unlink(p)
    R, trace_a = run_harness(ctx, "replay", ["--behaviours", allp, "--daemons", 24 if quick else 20,
                                             "--max-trace", 120000 if quick else 400000], "replay",
                             1500 if quick else 5400)
    os.unlink(allp)
    absorb(ctx, R, "replay", cases)
    if R["behaviours"] + R["unreplayable_count"] < total and not ctx.violations:
        raise Inconclusive("only %d of %d behaviours were replayed" % (R["behaviours"], total))
    ntr = R["traces"]

    # 3. binding B: seeded random longer sequences with answers from the full domain (1-3 authorizations each)
    R2, trace_b = run_harness(ctx, "random", ["--n", 3000 if quick else 30000, "--len", 6 if quick else 7,
                                              "--daemons", 24 if quick else 20, "--max-trace", 400000], "random",
                              900 if quick else 3600)
    absorb(ctx, R2, "random", cases)
    ntr += R2["traces"]

    # every executed step, as a trace, against the spec: property level (violation) and implementation level (drift)
    trace = os.path.join(ctx.scratch, "trace-all.ndjson")
    with open(trace, "w") as out:
        for p in (trace_a, trace_b):
            with open(p) as f:
                for line in f:
                    out.write(line)
    ctx.validate_trace("NsqdPolicyTrace", "NsqdPolicyTrace.cfg", trace, ntr, "policy", timeout=3000,
                       key="trace:PropertyLevel")
    ctx.validate_trace("NsqdPolicyTrace", "NsqdPolicyTraceExact.cfg", trace, ntr, "policy-exact", timeout=3000,
                       level="shape")

    selftest(ctx, trace)

    ctx.cov["distinct_nontrivial"] = len(cases)
    ctx.cov["rule"] = ("evaluations = commands / HTTP requests executed against real nsqd daemons (replayed TLC behaviours + "
                       "random sequences); a case is distinct by (policy, command, answer frame and code, HTTP status, "
                       "measured freshness of the cached auth answer)")
    ctx.assumptions += [
        "time: model clock in quarter seconds, client acts on a 0.75 s lattice, TTLs are whole seconds; a step is only "
        "used when the harness measured (stub receive time, client send/receive times) that the cached answer was on the "
        "intended side of its expiry, otherwise the behaviour is retried",
        "topic/channel patterns are concretised as regular expressions over per-connection unique names (anchored and "
        "unanchored spellings that are equivalent on those names; internal/auth matches with regexp search semantics)",
        "'grants' for a publish means permission + topic pattern; the code additionally wants a channel pattern matching "
        "the empty string -- stricter than the statement, modelled in CodeAllows, not flagged",
        "IDENTIFY is exempt from the TLS gate whether or not it asks for tls_v1 (it only sets connection attributes); "
        "the HTTP API never consults the auth server (the statement's auth clause is about PUB/MPUB/DPUB/SUB)",
        "MPUB checks auth, then creates the topic, then reads the body: a DENIED MPUB creates nothing; an AUTHORIZED MPUB "
        "with a malformed body leaves the (empty) topic behind (modelled; C09's subject, not a denial)",
        "one connection at a time per policy state machine; connections of concurrent behaviours share a daemon but use "
        "disjoint topics and secrets",
    ]
