package main

import (
	"fmt"
	"sync/atomic"
	"time"

	"github.com/nsqio/nsq/internal/verif"
	"github.com/nsqio/nsq/verifharness/hlib"
)

// timingLedger: C04 from the client's side. All comparisons are implied by the property: the clock reading
// of the command that starts a delay is taken BEFORE the command is written, the reading of the redelivery
// AFTER the frame was read, so (redelivery - command) >= delay must hold whatever the buffering.
func (r *Run) timingLedger(evs []verif.Event) (checked int) {
	kOf := map[string]int64{}
	chanOfK := map[int64]string{}
	for _, e := range evs {
		switch e.Ev {
		case "KIdent":
			kOf[hlib.KVStr(e, "cid")] = hlib.KVInt(e, "k")
		case "KSub":
			chanOfK[hlib.KVInt(e, "k")] = hlib.KVStr(e, "c")
		}
	}
	type pend struct {
		id    string
		ts    int64
		delay int64 // ns
		ch    string
		what  string
		seq   int64
	}
	// REQ: i-th HCmd REQ of a connection <-> i-th KCmd REQ of its server-side client
	type reqCmd struct {
		id  string
		ts  int64
		arg string
	}
	reqms := map[string]int64{} // "k|id" -> requested ms of the REQ being executed (as the server parsed it)
	sends := map[string][]verif.Event{}
	sent := map[int64][]reqCmd{}
	clamp := map[string]int64{} // "k|id" -> clamped delay of the REQ being executed
	var waits []pend
	idOfKey := map[string]string{}    // key -> id
	topicOfKey := map[string]string{} // key -> topic instance (ids are unique per topic only)
	whereOf := map[string]string{}    // topic instance + id -> mem | disk
	chansOfTopic := map[string][]string{}
	deferOfKey := map[string][2]int64{} // key -> (ts, defer ms)
	for _, e := range evs {
		switch e.Ev {
		case "HCmd":
			if hlib.KVStr(e, "cmd") == "REQ" {
				k, ok := kOf[hlib.KVStr(e, "conn")]
				if ok {
					sent[k] = append(sent[k], reqCmd{hlib.KVStr(e, "id"), hlib.KVInt(e, "now"), hlib.KVStr(e, "arg")})
				}
			}
		case "ReqClamp":
			clamp[fmt.Sprintf("%d|%s", hlib.KVInt(e, "k"), hlib.KVStr(e, "id"))] = hlib.KVInt(e, "delay")
			reqms[fmt.Sprintf("%d|%s", hlib.KVInt(e, "k"), hlib.KVStr(e, "id"))] = hlib.KVInt(e, "reqms")
		case "Send":
			sk := hlib.KVStr(e, "c") + "|" + hlib.KVStr(e, "id")
			sends[sk] = append(sends[sk], e)
		case "KCmd":
			if hlib.KVStr(e, "cmd") != "REQ" {
				continue
			}
			k := hlib.KVInt(e, "k")
			// pair this executed REQ with the client-side command it came from: same id and same number as the
			// server parsed it (commands written to a connection that was already dead never reach the server)
			key := fmt.Sprintf("%d|%s", k, hlib.KVStr(e, "arg"))
			want, okm := reqms[key]
			idx := -1
			for i, c := range sent[k] {
				if c.id == hlib.KVStr(e, "arg") && okm && c.arg == fmt.Sprint(want) {
					idx = i
					break
				}
			}
			if idx < 0 {
				continue
			}
			rc := sent[k][idx]
			sent[k] = sent[k][idx+1:]
			delete(reqms, key)
			if hlib.KVStr(e, "err") != "" {
				continue
			}
			d, ok := clamp[key]
			if !ok {
				continue
			}
			waits = append(waits, pend{id: rc.id, ts: rc.ts, delay: d, ch: chanOfK[k], what: "REQ", seq: e.Seq})
		case "HPub":
			if d := hlib.KVInt(e, "defer"); d > 0 {
				deferOfKey[hlib.KVStr(e, "key")] = [2]int64{hlib.KVInt(e, "now"), d}
			}
		case "TPutBegin":
			dg, _ := hlib.KVGet(e, "body").(verif.BodyDigest)
			idOfKey[keyOf([]byte(dg.Pre))] = hlib.KVStr(e, "id")
			topicOfKey[keyOf([]byte(dg.Pre))] = hlib.KVStr(e, "t")
		case "TPutEnd":
			whereOf[hlib.KVStr(e, "t")+"|"+hlib.KVStr(e, "id")] = hlib.KVStr(e, "where")
		case "CMapAdd":
			chansOfTopic[hlib.KVStr(e, "t")] = append(chansOfTopic[hlib.KVStr(e, "t")], hlib.KVStr(e, "c"))
		}
	}
	// receipts per (channel instance, id), in order
	type rk struct{ ch, id string }
	recv := map[rk][]verif.Event{}
	kName := map[int64]string{}
	for n, k := range kOf {
		kName[k] = n
	}
	for _, e := range evs {
		if e.Ev == "HRecv" {
			k, ok := kOf[hlib.KVStr(e, "conn")]
			if !ok {
				continue
			}
			x := rk{chanOfK[k], hlib.KVStr(e, "id")}
			recv[x] = append(recv[x], e)
		}
	}
	for _, w := range waits {
		// the redelivery this REQ leads to: the first frame written for (channel, id) after the REQ was executed,
		// identified by its attempts number; then the client-side receipt of exactly that frame
		att := int64(-1)
		for _, se := range sends[w.ch+"|"+w.id] {
			if se.Seq > w.seq {
				att = hlib.KVInt(se, "att")
				break
			}
		}
		if att < 0 {
			continue
		}
		for _, e := range recv[rk{w.ch, w.id}] {
			if e.Seq < w.seq || hlib.KVInt(e, "att") != att {
				continue
			}
			checked++
			if got := hlib.KVInt(e, "now") - w.ts; got < w.delay {
				r.failf("[C04] message %s requeued with delay %s was redelivered on %s only %s after the REQ was sent", w.id,
					time.Duration(w.delay), w.ch, time.Duration(got))
			}
			break
		}
	}
	for key, td := range deferOfKey {
		id := idOfKey[key]
		if id == "" || whereOf[topicOfKey[key]+"|"+id] != "mem" {
			continue // rejected, or spilled to the topic's disk queue (where the deferral is documented to be lost)
		}
		for _, ch := range chansOfTopic[topicOfKey[key]] {
			rs := recv[rk{ch, id}]
			if len(rs) == 0 {
				continue
			}
			checked++
			if got := hlib.KVInt(rs[0], "now") - td[0]; got < td[1]*int64(time.Millisecond) {
				r.failf("[C04] message %s published with defer %dms was delivered on %s only %s after the publish was sent", key, td[1], ch, time.Duration(got))
			}
		}
	}
	// boundedly late: how long after its deadline did the scan pick a message up (scan interval 10 ms)
	var worst int64
	worstBy := map[string]int64{}  // per channel instance: worst lateness of an in-flight timeout ...
	worstDef := map[string]int64{} // ... and of a deferred message
	for _, e := range evs {
		if e.Ev == "ScanIF" || e.Ev == "ScanDef" {
			late := hlib.KVInt(e, "t") - hlib.KVInt(e, "pri")
			if late > worst {
				worst = late
			}
			m := worstBy
			if e.Ev == "ScanDef" {
				m = worstDef
			}
			if c := hlib.KVStr(e, "c"); late > m[c] {
				m[c] = late
			}
		}
	}
	// the two queues of a channel are served by the same scan tick: whatever the machine load does to the ticks it
	// does to both. Deferred messages that are an order of magnitude later than the in-flight timeouts of the SAME
	// channel in the SAME run were not held up by the machine (and the other way round)
	for c, d := range worstDef {
		f, ok := worstBy[c]
		if !ok {
			continue
		}
		lo, hi, what := f, d, "deferred messages of %s were picked up as late as %s after their time while its in-flight timeouts in the same run were never more than %s late"
		if f > d {
			lo, hi, what = d, f, "in-flight timeouts of %s were picked up as late as %s after their deadline while its deferred messages in the same run were never more than %s late"
		}
		if lo < int64(50*time.Millisecond) {
			lo = int64(50 * time.Millisecond)
		}
		if hi > int64(500*time.Millisecond) && hi > 8*lo {
			r.failf("[C04] "+what+" (both queues are served by the same scan tick)", c, time.Duration(hi), time.Duration(lo))
		}
	}
	// "soon after": with a 10 ms scan interval a message is normally picked up within a few tens of ms. The bound
	// is 1 s, raised to 25x the worst oversleep a plain 5 ms sleeper saw in this process during the run (machine load)
	bound := int64(time.Second)
	if l0 := 25 * atomic.LoadInt64(&maxOversleep); l0 > bound {
		bound = l0
	}
	if worst > bound {
		r.failf("[C04] a message was picked up %s after its deadline although the queue scan wakes up every 10-50 ms (bound %s)", time.Duration(worst), time.Duration(bound))
	}
	r.worstLate = worst
	return checked
}

// maxOversleep: the worst overshoot of a 5 ms sleeper goroutine in this process (a measure of machine load)
var maxOversleep int64

func init() {
	go func() {
		for {
			t0 := time.Now()
			time.Sleep(5 * time.Millisecond)
			if over := int64(time.Since(t0) - 5*time.Millisecond); over > atomic.LoadInt64(&maxOversleep) {
				atomic.StoreInt64(&maxOversleep, over)
			}
		}
	}()
}
