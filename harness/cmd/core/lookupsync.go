package main

import (
	"bytes"
	"encoding/binary"
	"encoding/json"
	"flag"
	"fmt"
	"io"
	"math/rand"
	"net"
	"net/http"
	"os"
	"sort"
	"strings"
	"sync"
	"sync/atomic"
	"time"

	"github.com/nsqio/nsq/internal/verif"
	"github.com/nsqio/nsq/nsqd"
	"github.com/nsqio/nsq/nsqlookupd"
	"github.com/nsqio/nsq/verifharness/hlib"
)

// C16: a real nsqd (heartbeat override) registering with real nsqlookupd instances through fault proxies.

const heartbeat = 150 * time.Millisecond

// ---- fault proxy ---------------------------------------------------------
type faultProxy struct {
	ln       net.Listener
	mu       sync.Mutex
	upstream string
	mode     string // pass | close | stall | garbage | negsize | oversize | badident (next connection only)
	conns    map[net.Conn]bool
	frozen   int32                  // established connections stop carrying data in either direction (a black hole)
	late     map[net.Conn]chan bool // upstream halves of frozen connections, closed when told to
	httpPort int                    // when set: the IDENTIFY answer names this HTTP port instead of the nsqlookupd's own
}

func newFaultProxy(upstream string) (*faultProxy, error) {
	ln, err := net.Listen("tcp", "127.0.0.1:0")
	if err != nil {
		return nil, err
	}
	p := &faultProxy{ln: ln, upstream: upstream, mode: "pass", conns: map[net.Conn]bool{}, late: map[net.Conn]chan bool{}}
	go p.serve()
	return p, nil
}

func (p *faultProxy) addr() string { return p.ln.Addr().String() }

func (p *faultProxy) set(mode, upstream string, cut bool) {
	p.mu.Lock()
	p.mode = mode
	if upstream != "" {
		p.upstream = upstream
	}
	var cs []net.Conn
	if cut {
		for c := range p.conns {
			cs = append(cs, c)
		}
		p.conns = map[net.Conn]bool{}
	}
	p.mu.Unlock()
	for _, c := range cs {
		c.Close()
	}
}

// freeze: every connection established so far goes half-open -- the client side is black-holed and, when the client
// gives up and closes, the upstream side STAYS OPEN until reap() (the far end has not noticed). New connections pass.
func (p *faultProxy) freeze() {
	p.mu.Lock()
	for u := range p.late {
		select {
		case p.late[u] <- true: // freeze this pair
		default:
		}
	}
	p.mu.Unlock()
}

// reap: the far end finally sees the old connections die
func (p *faultProxy) reap() {
	p.mu.Lock()
	for u, ch := range p.late {
		close(ch)
		delete(p.late, u)
	}
	p.mu.Unlock()
}

func (p *faultProxy) serve() {
	for {
		c, err := p.ln.Accept()
		if err != nil {
			return
		}
		p.mu.Lock()
		mode, up := p.mode, p.upstream
		if mode == "badident" {
			p.mode = "pass" // only this connection gets the corrupted handshake answer
		}
		p.conns[c] = true
		p.mu.Unlock()
		go p.handle(c, mode, up)
	}
}

func (p *faultProxy) handle(c net.Conn, mode, up string) {
	defer func() {
		c.Close()
		p.mu.Lock()
		delete(p.conns, c)
		p.mu.Unlock()
	}()
	switch mode {
	case "close":
		return
	case "stall":
		io.Copy(io.Discard, c)
		return
	case "garbage", "negsize", "oversize", "page":
		buf := make([]byte, 4096)
		for {
			n, err := c.Read(buf)
			if err != nil {
				return
			}
			if n <= 4 {
				continue // the magic
			}
			var reply []byte
			switch mode {
			case "garbage":
				reply = []byte{0, 0, 0, 7, 'x', '{', 0xff, 0, '"', '}', 'z'}
			case "negsize":
				reply = []byte{0xff, 0xff, 0xff, 0xf0, 'O', 'K'}
			case "oversize":
				reply = []byte{0x7f, 0xff, 0xff, 0xff, 'O', 'K'}
			case "page":
				// something that does not speak the protocol at all answers in the nsqlookupd's place (a front end's error
				// page): far more bytes than nsqd will read of it
				body := "<html><head><title>503 Service Temporarily Unavailable</title></head><body><center><h1>503 Service Temporarily Unavailable</h1></center><hr><center>front-end</center>" + strings.Repeat("<!-- padding to make the page longer than any frame header -->", 12) + "</body></html>\r\n"
				reply = []byte(fmt.Sprintf("HTTP/1.1 503 Service Unavailable\r\nServer: front-end\r\nContent-Type: text/html\r\nContent-Length: %d\r\nConnection: close\r\n\r\n%s", len(body), body))
			}
			c.Write(reply)
			if mode == "page" {
				time.Sleep(20 * time.Millisecond)
				return
			}
		}
	}
	u, err := net.DialTimeout("tcp", up, time.Second)
	if err != nil {
		return
	}
	p.mu.Lock()
	p.conns[u] = true
	p.mu.Unlock()
	defer func() {
		u.Close()
		p.mu.Lock()
		delete(p.conns, u)
		p.mu.Unlock()
	}()
	done := make(chan struct{}, 2)
	ctl := make(chan bool, 1)
	p.mu.Lock()
	p.late[u] = ctl
	p.mu.Unlock()
	var frozen int32
	go func() {
		buf := make([]byte, 32*1024)
		for {
			n, err := c.Read(buf)
			if n > 0 && atomic.LoadInt32(&frozen) == 0 {
				if _, werr := u.Write(buf[:n]); werr != nil {
					break
				}
			}
			if err != nil {
				break
			}
		}
		if atomic.LoadInt32(&frozen) != 0 {
			// the client gave up; the far end does not learn of it until reap()
			for range ctl {
			}
		}
		done <- struct{}{}
	}()
	go func() {
		if v, ok := <-ctl; ok && v {
			atomic.StoreInt32(&frozen, 1)
		}
	}()
	go func() {
		p.mu.Lock()
		hp := p.httpPort
		p.mu.Unlock()
		if hp != 0 && mode != "badident" {
			// the first reply (to IDENTIFY) is passed on with http_port pointing at the HTTP fault listener
			var hdr [4]byte
			if _, err := io.ReadFull(u, hdr[:]); err == nil {
				n := binary.BigEndian.Uint32(hdr[:])
				if n < 1<<20 {
					body := make([]byte, n)
					if _, err := io.ReadFull(u, body); err == nil {
						var m map[string]interface{}
						if json.Unmarshal(body, &m) == nil && m["http_port"] != nil {
							m["http_port"] = hp
							m["broadcast_address"] = "127.0.0.1"
							body, _ = json.Marshal(m)
						}
						binary.BigEndian.PutUint32(hdr[:], uint32(len(body)))
						c.Write(hdr[:])
						c.Write(body)
					}
				}
			}
		}
		if mode == "badident" {
			// the first reply (to IDENTIFY) keeps its framing but is not JSON; everything else passes through
			var hdr [4]byte
			if _, err := io.ReadFull(u, hdr[:]); err == nil {
				n := binary.BigEndian.Uint32(hdr[:])
				if n < 1<<20 {
					body := make([]byte, n)
					if _, err := io.ReadFull(u, body); err == nil {
						for i := range body {
							body[i] = 'x'
						}
						c.Write(hdr[:])
						c.Write(body)
					}
				}
			}
		}
		buf := make([]byte, 32*1024)
		for {
			n, err := u.Read(buf)
			if n > 0 && atomic.LoadInt32(&frozen) == 0 {
				if _, werr := c.Write(buf[:n]); werr != nil {
					break
				}
			}
			if err != nil {
				break
			}
		}
		if atomic.LoadInt32(&frozen) == 0 {
			done <- struct{}{}
		}
	}()
	<-done
	p.mu.Lock()
	if ch, ok := p.late[u]; ok && atomic.LoadInt32(&frozen) == 0 {
		close(ch)
		delete(p.late, u)
	}
	p.mu.Unlock()
}

// ---- HTTP fault listener ---------------------------------------------------
// Stands where nsqd believes an nsqlookupd's HTTP port to be (see faultProxy.httpPort).
type httpFault struct {
	ln       net.Listener
	mu       sync.Mutex
	mode     string // pass | silent | headstall | bodystall | drip | garbage | reset | status500
	upstream string
	conns    map[net.Conn]bool
	hits     int32
}

func newHTTPFault(upstream string) (*httpFault, error) {
	ln, err := net.Listen("tcp", "127.0.0.1:0")
	if err != nil {
		return nil, err
	}
	h := &httpFault{ln: ln, mode: "pass", upstream: upstream, conns: map[net.Conn]bool{}}
	go func() {
		for {
			c, err := ln.Accept()
			if err != nil {
				return
			}
			h.mu.Lock()
			h.conns[c] = true
			mode := h.mode
			h.mu.Unlock()
			go h.handle(c, mode)
		}
	}()
	return h, nil
}

func (h *httpFault) port() int { return h.ln.Addr().(*net.TCPAddr).Port }
func (h *httpFault) set(mode string) {
	h.mu.Lock()
	h.mode = mode
	// kept-alive connections were accepted under the old mode: the next request opens a new one
	for c := range h.conns {
		c.Close()
	}
	h.mu.Unlock()
}
func (h *httpFault) close() {
	h.ln.Close()
	h.mu.Lock()
	for c := range h.conns {
		c.Close()
	}
	h.mu.Unlock()
}

func (h *httpFault) handle(c net.Conn, mode string) {
	defer func() {
		c.Close()
		h.mu.Lock()
		delete(h.conns, c)
		h.mu.Unlock()
	}()
	if mode == "pass" {
		u, err := net.DialTimeout("tcp", h.upstream, time.Second)
		if err != nil {
			return
		}
		defer u.Close()
		go io.Copy(u, c)
		io.Copy(c, u)
		return
	}
	// read the request head
	buf := make([]byte, 0, 4096)
	tmp := make([]byte, 1024)
	for !strings.Contains(string(buf), "\r\n\r\n") {
		n, err := c.Read(tmp)
		if err != nil {
			return
		}
		buf = append(buf, tmp[:n]...)
	}
	atomic.AddInt32(&h.hits, 1)
	hold := func() { io.Copy(io.Discard, c) } // until the client hangs up
	switch mode {
	case "silent":
		hold()
	case "headstall":
		c.Write([]byte("HTTP/1.1 200 OK\r\nContent-Type: application/json\r\n"))
		hold()
	case "bodystall":
		// status line and headers in time, then the body never completes
		c.Write([]byte("HTTP/1.1 200 OK\r\nContent-Type: application/json; charset=utf-8\r\nContent-Length: 4096\r\n\r\n{\"channels\":["))
		hold()
	case "drip":
		// a reply that keeps coming, a byte at a time, and never ends
		c.Write([]byte("HTTP/1.1 200 OK\r\nContent-Type: application/json; charset=utf-8\r\nTransfer-Encoding: chunked\r\n\r\n"))
		for {
			if _, err := c.Write([]byte("1\r\n \r\n")); err != nil {
				return
			}
			time.Sleep(100 * time.Millisecond)
		}
	case "garbage":
		c.Write([]byte("HTTP/1.1 200 OK\r\nContent-Type: application/json\r\nContent-Length: 9\r\nConnection: close\r\n\r\n{\"chan<ht"))
	case "status500":
		c.Write([]byte("HTTP/1.1 500 Internal Server Error\r\nContent-Length: 2\r\nConnection: close\r\n\r\n{}"))
	case "reset":
		if tc, ok := c.(*net.TCPConn); ok {
			tc.SetLinger(0)
		}
	}
}

// ---- lookupd instances ---------------------------------------------------
type lookupdInst struct {
	l    *nsqlookupd.NSQLookupd
	tcp  string
	http string
}

func startLookupd() (*lookupdInst, error) { return startLookupdWith(nil) }

func startLookupdWith(tweak func(*nsqlookupd.Options)) (*lookupdInst, error) {
	o := nsqlookupd.NewOptions()
	o.Logger = nullLogger{}
	o.TCPAddress = "127.0.0.1:0"
	o.HTTPAddress = "127.0.0.1:0"
	o.BroadcastAddress = "127.0.0.1"
	if tweak != nil {
		tweak(o)
	}
	l, err := nsqlookupd.New(o)
	if err != nil {
		return nil, err
	}
	go l.Main()
	return &lookupdInst{l: l, tcp: l.RealTCPAddr().String(), http: l.RealHTTPAddr().String()}, nil
}

var lhc = &http.Client{Timeout: 5 * time.Second}

func httpJSON(url string, v interface{}) (int, error) {
	resp, err := lhc.Get(url)
	if err != nil {
		return 0, err
	}
	defer resp.Body.Close()
	b, _ := io.ReadAll(resp.Body)
	if v != nil && resp.StatusCode == 200 {
		if err := json.Unmarshal(b, v); err != nil {
			return resp.StatusCode, err
		}
	}
	return resp.StatusCode, nil
}

// registrations of the producer with the given tcp port, from /debug: "topic:t:" and "channel:t:c" keys
func (li *lookupdInst) regsOf(tcpPort int) ([]string, error) {
	var dbg map[string][]map[string]interface{}
	st, err := httpJSON("http://"+li.http+"/debug", &dbg)
	if err != nil || st != 200 {
		return nil, fmt.Errorf("lookupd /debug: %v %d", err, st)
	}
	var out []string
	for key, prods := range dbg {
		if strings.HasPrefix(key, "client:") {
			continue
		}
		for _, p := range prods {
			if int(p["tcp_port"].(float64)) == tcpPort {
				parts := strings.SplitN(key, ":", 3)
				if parts[0] == "topic" {
					out = append(out, parts[1])
				} else {
					out = append(out, parts[1]+"/"+parts[2])
				}
			}
		}
	}
	sort.Strings(out)
	// a SET of names: while a previous connection of the same nsqd has not been reaped yet the same name is held twice
	uniq := out[:0]
	for i, x := range out {
		if i == 0 || x != out[i-1] {
			uniq = append(uniq, x)
		}
	}
	return uniq, nil
}

func nsqdTopology(nd *Node) ([]string, error) {
	st, _, err := nd.stats("")
	if err != nil {
		return nil, err
	}
	var out []string
	for _, t := range st.Topics {
		out = append(out, t.Name)
		for _, c := range t.Channels {
			out = append(out, t.Name+"/"+c.Name)
		}
	}
	sort.Strings(out)
	return out, nil
}

type lsCase struct {
	Kind     string   `json:"kind"` // random | reorder | precreate
	Seed     int64    `json:"seed"`
	NLookupd int      `json:"nlookupd"`
	Fails    []string `json:"fails"`
	Incon    string   `json:"inconclusive,omitempty"`
	Ops      int      `json:"ops"`
	Faults   []string `json:"faults"`
	Final    []string `json:"final_topology"`
	SyncMs   int64    `json:"converged_after_ms"`
	Pubs     int      `json:"published_during_faults"`
}

func (c *lsCase) failf(f string, a ...interface{}) { c.Fails = append(c.Fails, fmt.Sprintf(f, a...)) }

func lookupsyncMain(args []string) int {
	fs := flag.NewFlagSet("lookupsync", flag.ExitOnError)
	in := fs.String("cases", "cases.json", "cases")
	out := fs.String("out", "ls-obs.ndjson", "observations")
	progress := fs.String("progress", "progress.txt", "case in progress")
	from := fs.Int("from", 0, "first case")
	dir := fs.String("dir", "", "scratch dir")
	fs.Parse(args)
	data, err := os.ReadFile(*in)
	if err != nil {
		return 2
	}
	var cases []*lsCase
	if err := json.Unmarshal(data, &cases); err != nil {
		return 2
	}
	f, err := os.OpenFile(*out, os.O_WRONLY|os.O_CREATE|os.O_APPEND, 0644)
	if err != nil {
		return 2
	}
	defer f.Close()
	verif.SetLookupHeartbeat(heartbeat)
	for i := *from; i < len(cases); i++ {
		os.WriteFile(*progress, []byte(fmt.Sprint(i)), 0644)
		d := fmt.Sprintf("%s/ls%d", *dir, i)
		os.MkdirAll(d, 0755)
		runLookupSync(cases[i], d)
		os.RemoveAll(d)
		b, _ := json.Marshal(cases[i])
		f.Write(append(b, '\n'))
		f.Sync()
	}
	os.WriteFile(*progress, []byte(fmt.Sprint(len(cases))), 0644)
	return 0
}

func runLookupSync(lc *lsCase, dir string) {
	rng := rand.New(rand.NewSource(lc.Seed))
	var lds []*lookupdInst
	var proxies []*faultProxy
	var hfault *httpFault
	for i := 0; i < lc.NLookupd; i++ {
		li, err := startLookupdWith(func(o *nsqlookupd.Options) {
			if lc.Kind == "churnping" {
				o.InactiveProducerTimeout = 12 * heartbeat // instead of 300 s: 20 heartbeats of nsqd's 15 s
			}
		})
		if err != nil {
			lc.Incon = err.Error()
			return
		}
		lds = append(lds, li)
		p, err := newFaultProxy(li.tcp)
		if err != nil {
			lc.Incon = err.Error()
			return
		}
		if lc.Kind == "httpfault" && i == 0 {
			hfault, err = newHTTPFault(li.http)
			if err != nil {
				lc.Incon = err.Error()
				return
			}
			p.httpPort = hfault.port()
		}
		proxies = append(proxies, p)
	}
	defer func() {
		if hfault != nil {
			hfault.close()
		}
		for _, li := range lds {
			li.l.Exit()
		}
		for _, p := range proxies {
			p.ln.Close()
			p.set("close", "", true)
		}
	}()
	var gmu sync.Mutex
	holdNext := false
	var held chan struct{}
	arrived := make(chan struct{}, 4)
	verif.SetGate(func(point string, key interface{}) {
		if point != "notify.beforeSend" {
			return
		}
		gmu.Lock()
		if !holdNext {
			gmu.Unlock()
			return
		}
		holdNext = false
		held = make(chan struct{})
		ch := held
		gmu.Unlock()
		arrived <- struct{}{}
		<-ch
	})
	defer verif.SetGate(nil)
	nd, err := startNode(dir, func(o *nsqd.Options) {
		for _, p := range proxies {
			o.NSQLookupdTCPAddresses = append(o.NSQLookupdTCPAddresses, p.addr())
		}
		o.HTTPClientConnectTimeout = 300 * time.Millisecond
		o.HTTPClientRequestTimeout = 600 * time.Millisecond
	})
	if err != nil {
		lc.Incon = err.Error()
		return
	}
	defer nd.stop(20 * time.Second)
	tcpPort := nd.N.RealTCPAddr().(*net.TCPAddr).Port

	// wait for convergence: every lookupd lists exactly nsqd's topology for this producer
	converge := func(limit time.Duration) (bool, string) {
		start := time.Now()
		last := ""
		for time.Since(start) < limit {
			want, err := nsqdTopology(nd)
			if err != nil {
				return false, "nsqd /stats: " + err.Error()
			}
			ok := true
			for i, li := range lds {
				got, err := li.regsOf(tcpPort)
				if err != nil {
					return false, err.Error()
				}
				if strings.Join(got, ",") != strings.Join(want, ",") {
					ok = false
					last = fmt.Sprintf("lookupd %d lists %v for this nsqd, which has %v", i, got, want)
				}
			}
			if ok {
				lc.SyncMs = time.Since(start).Milliseconds()
				lc.Final = want
				return true, ""
			}
			time.Sleep(50 * time.Millisecond)
		}
		return false, last
	}
	admin := func(path string) {
		st, _, err := nd.post(path, nil)
		lc.Ops++
		if err != nil {
			lc.failf("nsqd stopped answering HTTP during lookupd faults: %s: %v", path, err)
		} else if st == 500 {
			lc.failf("[C10] %s answered 500", path)
		}
	}
	if ok, why := converge(8 * time.Second); !ok {
		lc.Incon = "initial convergence: " + why
		return
	}

	switch lc.Kind {
	case "reconfig":
		// the list of nsqlookupds is changed at run time (PUT /config/nsqlookupd_tcp_addresses): removed, added back, swapped,
		// emptied, restored -- after every change, every CONFIGURED nsqlookupd converges to this nsqd's topics and channels,
		// and one that is no longer configured stops listing it
		if len(lds) < 2 {
			lc.Incon = "needs two lookupds"
			return
		}
		convergeOn := func(on map[int]bool, limit time.Duration) (bool, string) {
			start := time.Now()
			last := ""
			for time.Since(start) < limit {
				want, err := nsqdTopology(nd)
				if err != nil {
					return false, "nsqd /stats: " + err.Error()
				}
				ok := true
				for i, li := range lds {
					got, err := li.regsOf(tcpPort)
					if err != nil {
						return false, err.Error()
					}
					exp := want
					if !on[i] {
						exp = nil
					}
					if strings.Join(got, ",") != strings.Join(exp, ",") {
						ok = false
						last = fmt.Sprintf("lookupd %d (configured: %v) lists %v for this nsqd, which has %v", i, on[i], got, want)
					}
				}
				if ok {
					lc.Final = want
					return true, ""
				}
				time.Sleep(50 * time.Millisecond)
			}
			return false, last
		}
		rr := rand.New(rand.NewSource(lc.Seed))
		plans := [][][]int{
			{{1}, {1, 0}, {0}, {}, {0, 1}},
			{{0}, {0, 1}, {}, {1}, {1, 0}, {0}},
			{{}, {0, 1}, {1}, {0, 1}, {0}, {1, 0}},
		}
		plan := plans[int(lc.Seed)%len(plans)]
		for step, set := range plan {
			addrs := []string{}
			on := map[int]bool{}
			for _, i := range set {
				addrs = append(addrs, proxies[i].addr())
				on[i] = true
			}
			body, _ := json.Marshal(addrs)
			rq, _ := http.NewRequest("PUT", "http://"+nd.HTTP+"/config/nsqlookupd_tcp_addresses", bytes.NewReader(body))
			resp, err := http.DefaultClient.Do(rq)
			if err != nil || resp.StatusCode != 200 {
				lc.failf("[reconfig] PUT /config/nsqlookupd_tcp_addresses %s failed: %v", body, err)
				return
			}
			resp.Body.Close()
			lc.Ops++
			if rr.Intn(2) == 0 {
				admin(fmt.Sprintf("/topic/create?topic=rc%d", step))
				admin(fmt.Sprintf("/channel/create?topic=rc%d&channel=c", step))
			}
			if ok, why := convergeOn(on, 60*heartbeat); !ok {
				lc.failf("[reconfig] after the nsqlookupd list was set to %v at run time (step %d of %v): %s, still so after 60 heartbeat intervals", set, step, plan, why)
				return
			}
		}
		return
	case "reorder":
		// delete + re-create of the same name with the deletion's notify goroutine overtaken by the creation's
		name := []string{"topic", "channel"}[lc.Seed%2]
		admin("/topic/create?topic=t1")
		admin("/channel/create?topic=t1&channel=c1")
		if ok, why := converge(8 * time.Second); !ok {
			lc.Incon = "convergence before the reorder: " + why
			return
		}
		gmu.Lock()
		holdNext = true
		gmu.Unlock()
		if name == "channel" {
			admin("/channel/delete?topic=t1&channel=c1")
		} else {
			admin("/channel/delete?topic=t1&channel=c1") // passes: only the next notify after arming is held
		}
		select {
		case <-arrived:
		case <-time.After(5 * time.Second):
			lc.Incon = "the deletion's notify goroutine never reached notify.beforeSend"
			return
		}
		admin("/channel/create?topic=t1&channel=c1")
		time.Sleep(3 * heartbeat)
		gmu.Lock()
		close(held)
		gmu.Unlock()
		if ok, why := converge(50 * heartbeat); !ok {
			lc.failf("[reorder] after /channel/delete + /channel/create of the same name (the deletion's notification delivered after the creation's): %s, still so after 50 heartbeat intervals", why)
		}
		return
	case "churnping":
		// topics / channels come and go in EVERY heartbeat interval for longer than the lookupd's inactive-producer
		// timeout: the nsqd is connected and busy, so /nodes (which hides producers not refreshed for that long) keeps
		// listing it
		admin("/topic/create?topic=steady")
		if ok, why := converge(50 * heartbeat); !ok {
			lc.Incon = "no steady state before the churn: " + why
			return
		}
		listed := func(li *lookupdInst) (bool, error) {
			var nodes struct {
				Producers []map[string]interface{} `json:"producers"`
			}
			st, err := httpJSON("http://"+li.http+"/nodes", &nodes)
			if err != nil || st != 200 {
				return false, fmt.Errorf("/nodes: %v %d", err, st)
			}
			for _, p := range nodes.Producers {
				if v, ok := p["tcp_port"].(float64); ok && int(v) == tcpPort {
					return true, nil
				}
			}
			return false, nil
		}
		for i := 0; i < 80; i++ { // 40 heartbeats
			if i%2 == 0 {
				admin(fmt.Sprintf("/channel/create?topic=steady&channel=x%d", i))
			} else {
				admin(fmt.Sprintf("/channel/delete?topic=steady&channel=x%d", i-1))
			}
			time.Sleep(heartbeat / 2)
			if i%4 == 3 {
				for k, li := range lds {
					ok, err := listed(li)
					if err != nil {
						lc.Incon = err.Error()
						return
					}
					if !ok {
						lc.failf("[churnping] after %d heartbeat intervals of channel churn nsqlookupd %d no longer lists this connected nsqd in /nodes (inactive-producer-timeout 12 heartbeats): it was not refreshed", (i+1)/2, k)
						return
					}
				}
			}
		}
		return
	case "halfopen":
		// the connection to the lookupd goes half-open (black hole): nsqd's next command times out, it reconnects and
		// re-registers over a new connection; only later does the lookupd see the OLD connection die. What the new
		// connection registered must still be listed afterwards.
		admin("/topic/create?topic=steady")
		admin("/channel/create?topic=steady&channel=c1")
		if ok, why := converge(50 * heartbeat); !ok {
			lc.Incon = "no steady state before the fault: " + why
			return
		}
		for _, p := range proxies {
			p.freeze()
		}
		time.Sleep(1500*time.Millisecond + 6*heartbeat) // > the 1 s command deadline of nsqd's lookup peer: it has reconnected
		if ok, why := converge(50 * heartbeat); !ok {
			lc.failf("[halfopen] after its connection was black-holed nsqd did not get its registrations back through a new one: %s", why)
			return
		}
		for _, p := range proxies {
			p.reap()
		}
		time.Sleep(6 * heartbeat)
		if ok, why := converge(50 * heartbeat); !ok {
			lc.failf("[halfopen] nsqd reconnected and re-registered after its old connection had been black-holed; when the lookupd finally saw the OLD connection die: %s, still so after 50 heartbeat intervals", why)
		}
		return
	case "badident":
		// the lookupd is unreachable while a topic is created; the next connection's IDENTIFY answer is corrupted
		// (well framed, not JSON) on an otherwise healthy connection; after that everything is healthy
		proxies[0].set("close", "", true)
		admin("/topic/create?topic=whiledown")
		admin("/channel/create?topic=whiledown&channel=c1")
		time.Sleep(3 * heartbeat)
		proxies[0].set("badident", "", false)
		if ok, why := converge(80 * heartbeat); !ok {
			lc.failf("[badident] a topic created while nsqlookupd was unreachable, then one corrupted IDENTIFY answer: %s, still so after 80 heartbeat intervals", why)
		}
		return
	case "onefaulty":
		// the FIRST of two nsqlookupds stays faulty for good (refuses, closes at once, answers garbage, stalls); topics and
		// channels come and go; the healthy one converges all the same, and keeps converging
		if len(lds) < 2 {
			lc.Incon = "needs two lookupds"
			return
		}
		fm := []string{"close", "garbage", "negsize", "stall"}[int(lc.Seed)%4]
		lc.Faults = append(lc.Faults, "0:"+fm+" (for good)")
		proxies[0].set(fm, "", true)
		healthy := func(limit time.Duration) (bool, string) {
			start := time.Now()
			last := ""
			for time.Since(start) < limit {
				want, err := nsqdTopology(nd)
				if err != nil {
					return false, err.Error()
				}
				got, err := lds[1].regsOf(tcpPort)
				if err != nil {
					return false, err.Error()
				}
				if strings.Join(got, ",") == strings.Join(want, ",") {
					return true, ""
				}
				last = fmt.Sprintf("the healthy nsqlookupd lists %v for this nsqd, which has %v", got, want)
				time.Sleep(50 * time.Millisecond)
			}
			return false, last
		}
		for round := 0; round < 3; round++ {
			admin(fmt.Sprintf("/topic/create?topic=of%d", round))
			admin(fmt.Sprintf("/channel/create?topic=of%d&channel=c", round))
			if round > 0 {
				admin(fmt.Sprintf("/channel/delete?topic=of%d&channel=c", round-1))
			}
			// (a peer that accepts and never answers costs nsqd's single lookup loop a second per command, every heartbeat
			// included -- with the 150 ms heartbeat of this harness that is slow, not stopped: 30 s)
			limit := 40 * heartbeat
			if fm == "stall" {
				limit = 200 * heartbeat
			}
			if ok, why := healthy(limit); !ok {
				lc.failf("[onefaulty] the first of two nsqlookupds is faulty for good (%s); %s, still so after %d heartbeat intervals", fm, why, limit/heartbeat)
				return
			}
		}
		return
	case "page":
		// something that does not speak the protocol answers in the nsqlookupd's place for a while (an error page, many
		// times longer than a frame header) -- then the nsqlookupd is back
		proxies[0].set("page", "", true)
		admin("/topic/create?topic=duringpage")
		admin("/channel/create?topic=duringpage&channel=c1")
		time.Sleep(time.Duration(1+lc.Seed%3) * heartbeat)
		proxies[0].set("pass", "", true)
		admin("/topic/create?topic=afterpage")
		if ok, why := converge(40 * heartbeat); !ok {
			lc.failf("[page] nsqlookupd's place was taken by something answering with an error page for a while, then it was back: %s, still so after 40 heartbeat intervals", why)
		}
		return
	case "precreate2":
		// two lookupds known to nsqd; #1 goes away; #2 knows channel `pre` of topic `fresh2`
		if len(lds) < 2 {
			lc.Incon = "needs two lookupds"
			return
		}
		st, err := httpPost("http://" + lds[1].http + "/channel/create?topic=fresh2&channel=pre")
		if err != nil || st != 200 {
			lc.Incon = "lookupd channel create failed"
			return
		}
		lds[0].l.Exit()
		// the topic comes into being through a consumer of ANOTHER channel: from then on its pump moves messages,
		// so `pre` gets the first message only if it really was created together with the topic
		oc, err := dial(nd.TCP, "other2")
		if err != nil {
			lc.Incon = err.Error()
			return
		}
		defer oc.close()
		oc.identify(nil)
		if err := oc.sub("fresh2", "other"); err != nil {
			lc.Incon = err.Error()
			return
		}
		oc.cmd("RDY", "", "1")
		if st, _, err := nd.post("/pub?topic=fresh2", []byte("first")); err != nil || st != 200 {
			lc.failf("first publish to a fresh topic failed while one of two nsqlookupds was down: %v %d", err, st)
			return
		}
		if fr, ok := oc.next(5 * time.Second); !ok || fr.Type != 2 {
			lc.Incon = "the other channel did not get the message"
			return
		}
		cn, err := dial(nd.TCP, "pre2")
		if err != nil {
			lc.Incon = err.Error()
			return
		}
		defer cn.close()
		cn.identify(nil)
		if err := cn.sub("fresh2", "pre"); err != nil {
			lc.Incon = err.Error()
			return
		}
		cn.cmd("RDY", "", "1")
		fr, ok := cn.next(5 * time.Second)
		if !ok || fr.Type != 2 || string(fr.Body) != "first" {
			lc.failf("[precreate] one of two nsqlookupds was down; the other knew channel `pre` for topic `fresh2`, which did not receive the topic's first message")
		}
		nl, err := startLookupd() // so that the deferred Exit() has something to stop
		if err == nil {
			lds[0] = nl
		}
		return
	case "httpfault":
		// two nsqlookupds, both fine on TCP.  The HTTP side of #1 misbehaves (answers nothing, stalls in the headers, stalls in
		// the body, drips for ever, answers garbage, resets, answers 500); #2 knows channel `pre` of the topic about to be made.
		// Creating the topic asks both over HTTP: the publish is acknowledged and delivered, `pre` gets the first message.
		if len(lds) < 2 || hfault == nil {
			lc.Incon = "needs two lookupds"
			return
		}
		modes := []string{"bodystall", "silent", "headstall", "drip", "garbage", "reset", "status500"}
		mode := modes[int(lc.Seed)%len(modes)]
		lc.Faults = append(lc.Faults, "http:"+mode)
		topic := "freshh"
		st, err := httpPost("http://" + lds[1].http + "/channel/create?topic=" + topic + "&channel=pre")
		if err != nil || st != 200 {
			lc.Incon = "lookupd channel create failed"
			return
		}
		// ... and a handful more (only while the faulty side keeps the creating request waiting: others publish meanwhile)
		blocking := mode == "bodystall" || mode == "silent" || mode == "headstall" || mode == "drip"
		var more []string
		if blocking {
			for i := 0; i < 5; i++ {
				nm := fmt.Sprintf("pre%d", i)
				if st, err := httpPost("http://" + lds[1].http + "/channel/create?topic=" + topic + "&channel=" + nm); err != nil || st != 200 {
					lc.Incon = "lookupd channel create failed"
					return
				}
				more = append(more, nm)
			}
		}
		admin("/topic/create?topic=bystander")
		hfault.set(mode)
		oc, err := dial(nd.TCP, "otherh")
		if err != nil {
			lc.Incon = err.Error()
			return
		}
		defer oc.close()
		oc.identify(nil)
		type res struct {
			st  int
			err error
		}
		pubDone := make(chan res, 1)
		t0 := time.Now()
		go func() {
			hc := &http.Client{Timeout: 40 * time.Second}
			resp, err := hc.Post("http://"+nd.HTTP+"/pub?topic="+topic, "application/octet-stream", strings.NewReader("first"))
			if err != nil {
				pubDone <- res{0, err}
				return
			}
			io.Copy(io.Discard, resp.Body)
			resp.Body.Close()
			pubDone <- res{resp.StatusCode, nil}
		}()
		extra := 0
		var bystanderTook time.Duration
		if blocking {
			// while the creating request waits for the faulty side, other publishers find the topic and publish to it
			time.Sleep(150 * time.Millisecond)
			// ... and a publish to a topic that has existed all along has nothing to wait for
			tp := time.Now()
			if st, _, err := nd.post("/pub?topic=bystander", []byte("b")); err != nil || st != 200 {
				lc.failf("[stall] publish to an existing topic failed while another topic's creation was waiting for a faulty nsqlookupd: %v %d", err, st)
			} else {
				bystanderTook = time.Since(tp)
			}
			for i := 0; i < 5; i++ {
				if st, _, err := nd.post("/pub?topic="+topic, []byte(fmt.Sprintf("meanwhile-%d", i))); err == nil && st == 200 {
					extra++
				}
			}
		}
		// nsqd gives every lookupd query http-client-request-timeout (600 ms here); 25 times that is "stopped", not "slow"
		limit := 15 * time.Second
		select {
		case r := <-pubDone:
			if r.err != nil || r.st != 200 {
				lc.failf("[stall] first publish to a fresh topic failed while one nsqlookupd's HTTP side was faulty (%s): %v %d", mode, r.err, r.st)
				return
			}
		case <-time.After(limit):
			lc.failf("[stall] one nsqlookupd's HTTP side was faulty (%s: headers/body never complete); the first publish to a fresh topic was still not acknowledged after %s (nsqd's own limit for such a query is 600 ms)", mode, limit)
			return
		}
		if atomic.LoadInt32(&hfault.hits) == 0 {
			lc.Incon = "nsqd never queried the faulty HTTP side"
			return
		}
		lc.SyncMs = time.Since(t0).Milliseconds()
		if bystanderTook > 300*time.Millisecond {
			// (nsqd's own limit for the query is 600 ms, the publish was sent 150 ms into it.)  The same publish once more, now
			// that nothing is waiting for anybody, says what this machine needs for it at the moment
			tp := time.Now()
			nd.post("/pub?topic=bystander", []byte("b2"))
			if ctl := time.Since(tp); bystanderTook > 5*ctl+100*time.Millisecond {
				lc.failf("[stall] one nsqlookupd's HTTP side was faulty (%s) and kept the creation of a topic waiting; a publish to ANOTHER topic, which has existed all along, took %s meanwhile (and %s afterwards)", mode, bystanderTook.Round(time.Millisecond), ctl.Round(time.Millisecond))
			}
		}
		if blocking {
			// every channel the healthy nsqlookupd knew holds everything the topic has accepted so far, the messages that
			// came in while the topic was being set up included
			time.Sleep(200 * time.Millisecond)
			if st, _, err := nd.stats(""); err == nil {
				for _, ts := range st.Topics {
					if ts.Name != topic {
						continue
					}
					have := map[string]int64{}
					for _, cs := range ts.Channels {
						have[cs.Name] = cs.Depth + cs.InFlightCount + cs.DeferredCount
					}
					for _, nm := range append([]string{"pre"}, more...) {
						if n, ok := have[nm]; !ok {
							lc.failf("[precreate] one nsqlookupd's HTTP side was faulty (%s); the other knew channel `%s` for the topic, which was not created with it", mode, nm)
						} else if n+ts.Depth != int64(1+extra) {
							lc.failf("[precreate] one nsqlookupd's HTTP side was faulty (%s) and kept the creation of the topic waiting; %d messages were accepted meanwhile and one by the creating request: channel `%s`, which the other nsqlookupd knew, holds %d of them", mode, extra, nm, n+ts.Depth)
						}
					}
				}
			}
		}
		if err := oc.sub(topic, "other"); err != nil {
			lc.Incon = err.Error()
			return
		}
		oc.cmd("RDY", "", "1")
		cn, err := dial(nd.TCP, "preh")
		if err != nil {
			lc.Incon = err.Error()
			return
		}
		defer cn.close()
		cn.identify(nil)
		if err := cn.sub(topic, "pre"); err != nil {
			lc.Incon = err.Error()
			return
		}
		cn.cmd("RDY", "", "2")
		// `pre` gets everything the topic has accepted so far: the creating request's message and what came in meanwhile
		sawFirst := false
		for got := 0; got < 1+extra; got++ {
			fr, ok := cn.next(limit)
			if !ok || fr.Type != 2 {
				lc.failf("[stall] one nsqlookupd's HTTP side was faulty (%s); %d message(s) were published to the fresh topic and acknowledged, the channel it started with was sent %d within %s", mode, 1+extra, got, limit)
				return
			}
			if string(fr.Body) == "first" {
				sawFirst = true
			}
			cn.cmd("FIN", fr.ID, "")
		}
		if !sawFirst {
			lc.failf("[precreate] one nsqlookupd's HTTP side was faulty (%s); the other knew channel `pre` for the topic, which did not receive the topic's first message", mode)
		}
		// and the nsqd goes on publishing and delivering
		if st, _, err := nd.post("/pub?topic="+topic, []byte("second")); err != nil || st != 200 {
			lc.failf("[stall] second publish failed: %v %d", err, st)
			return
		}
		if fr, ok := cn.next(limit); !ok || fr.Type != 2 || string(fr.Body) != "second" {
			lc.failf("[stall] one nsqlookupd's HTTP side was faulty (%s); a later message was not delivered within %s", mode, limit)
		}
		hfault.set("pass")
		return
	case "precreate3":
		// the connection to the (healthy) nsqlookupd has just been dropped and nsqd has noticed, but has not reconnected yet:
		// a topic first created at that moment still starts with the channels that nsqlookupd knows for it
		st, err := httpPost("http://" + lds[0].http + "/channel/create?topic=fresh3&channel=pre")
		if err != nil || st != 200 {
			lc.Incon = "lookupd channel create failed"
			return
		}
		proxies[0].set("pass", "", true) // every established connection dies; new ones pass
		// nsqd notices on its next command to that peer: the REGISTER of an unrelated topic
		admin("/topic/create?topic=trigger3")
		time.Sleep(time.Duration(lc.Seed%4) * heartbeat / 4)
		oc, err := dial(nd.TCP, "other3")
		if err != nil {
			lc.Incon = err.Error()
			return
		}
		defer oc.close()
		oc.identify(nil)
		if err := oc.sub("fresh3", "other"); err != nil {
			lc.Incon = err.Error()
			return
		}
		oc.cmd("RDY", "", "1")
		if st, _, err := nd.post("/pub?topic=fresh3", []byte("first")); err != nil || st != 200 {
			lc.failf("first publish to a fresh topic failed right after the nsqlookupd connection was dropped: %v %d", err, st)
			return
		}
		if fr, ok := oc.next(5 * time.Second); !ok || fr.Type != 2 {
			lc.Incon = "the other channel did not get the message"
			return
		}
		cn, err := dial(nd.TCP, "pre3")
		if err != nil {
			lc.Incon = err.Error()
			return
		}
		defer cn.close()
		cn.identify(nil)
		if err := cn.sub("fresh3", "pre"); err != nil {
			lc.Incon = err.Error()
			return
		}
		cn.cmd("RDY", "", "1")
		fr, ok := cn.next(5 * time.Second)
		if !ok || fr.Type != 2 || string(fr.Body) != "first" {
			lc.failf("[precreate] the connection to a healthy nsqlookupd had just been dropped; it knew channel `pre` for topic `fresh3`, which did not receive the topic's first message")
		}
		return
	case "precreate":
		// lookupd already knows channel `pre` for topic `fresh`: the very first message must reach it
		st, err := httpPost("http://" + lds[0].http + "/channel/create?topic=fresh&channel=pre")
		if err != nil || st != 200 {
			lc.Incon = "lookupd channel create failed"
			return
		}
		oc, err := dial(nd.TCP, "other1")
		if err != nil {
			lc.Incon = err.Error()
			return
		}
		defer oc.close()
		oc.identify(nil)
		if err := oc.sub("fresh", "other"); err != nil {
			lc.Incon = err.Error()
			return
		}
		oc.cmd("RDY", "", "1")
		if st, _, err := nd.post("/pub?topic=fresh", []byte("first")); err != nil || st != 200 {
			lc.failf("first publish to a fresh topic failed: %v %d", err, st)
			return
		}
		if fr, ok := oc.next(5 * time.Second); !ok || fr.Type != 2 {
			lc.Incon = "the other channel did not get the message"
			return
		}
		cn, err := dial(nd.TCP, "pre")
		if err != nil {
			lc.Incon = err.Error()
			return
		}
		defer cn.close()
		cn.identify(nil)
		if err := cn.sub("fresh", "pre"); err != nil {
			lc.Incon = err.Error()
			return
		}
		cn.cmd("RDY", "", "1")
		fr, ok := cn.next(5 * time.Second)
		if !ok || fr.Type != 2 || string(fr.Body) != "first" {
			lc.failf("channel `pre`, which nsqlookupd already knew for topic `fresh`, did not receive the topic's very first message")
		}
		return
	}

	// ---- random churn + faults, with a live publish/consume stream that must keep flowing
	var stop int32
	var pubs, recvs int64
	var wg sync.WaitGroup
	lcn, err := dial(nd.TCP, "live")
	if err != nil {
		lc.Incon = err.Error()
		return
	}
	defer lcn.close()
	lcn.identify(nil)
	if err := lcn.sub("live", "ch"); err != nil {
		lc.Incon = "sub live: " + err.Error()
		return
	}
	lcn.cmd("RDY", "", "10")
	wg.Add(2)
	var pubDone int32 // the publisher has returned: `pubs` is final (a POST in flight when `stop` is set still counts)
	go func() {
		defer wg.Done()
		defer atomic.StoreInt32(&pubDone, 1)
		for atomic.LoadInt32(&stop) == 0 {
			st, _, err := nd.post("/pub?topic=live", []byte("x"))
			if err != nil || st != 200 {
				lc.failf("publishing stopped working during lookupd faults: %v %d", err, st)
				return
			}
			atomic.AddInt64(&pubs, 1)
			time.Sleep(5 * time.Millisecond)
		}
	}()
	go func() {
		defer wg.Done()
		var stoppedAt time.Time
		for atomic.LoadInt32(&pubDone) == 0 || atomic.LoadInt64(&recvs) < atomic.LoadInt64(&pubs) {
			fr, ok := lcn.next(500 * time.Millisecond)
			if !ok {
				if atomic.LoadInt32(&pubDone) == 1 {
					if stoppedAt.IsZero() {
						stoppedAt = time.Now()
					}
					if time.Since(stoppedAt) > 30*time.Second || lcn.isClosed() {
						return
					}
				}
				continue
			}
			if fr.Type == 2 {
				lcn.cmd("FIN", fr.ID, "")
				atomic.AddInt64(&recvs, 1)
			}
		}
	}()
	nsteps := 12 + rng.Intn(16)
	modes := []string{"close", "stall", "garbage", "negsize", "oversize", "cut", "restart", "pass", "badident", "page"}
	for i := 0; i < nsteps; i++ {
		switch rng.Intn(3) {
		case 0, 1:
			t := []string{"t1", "t2", "e#ephemeral"}[rng.Intn(3)]
			c := []string{"c1", "c2"}[rng.Intn(2)]
			esc := strings.ReplaceAll(t, "#", "%23")
			switch rng.Intn(5) {
			case 0, 1:
				admin("/topic/create?topic=" + esc)
			case 2:
				admin("/channel/create?topic=" + esc + "&channel=" + c)
			case 3:
				admin("/channel/delete?topic=" + esc + "&channel=" + c)
			case 4:
				admin("/topic/delete?topic=" + esc)
			}
		case 2:
			li := rng.Intn(len(lds))
			m := modes[rng.Intn(len(modes))]
			lc.Faults = append(lc.Faults, fmt.Sprintf("%d:%s", li, m))
			switch m {
			case "cut":
				proxies[li].set("pass", "", true)
			case "restart":
				lds[li].l.Exit()
				nl, err := startLookupd()
				if err != nil {
					lc.Incon = err.Error()
					atomic.StoreInt32(&stop, 1)
					wg.Wait()
					return
				}
				lds[li] = nl
				proxies[li].set("pass", nl.tcp, true)
			default:
				proxies[li].set(m, "", m != "pass")
			}
		}
		time.Sleep(time.Duration(rng.Intn(int(2*heartbeat/time.Millisecond))) * time.Millisecond)
	}
	for _, p := range proxies {
		p.set("pass", "", false)
	}
	atomic.StoreInt32(&stop, 1)
	wg.Wait()
	lc.Pubs = int(atomic.LoadInt64(&pubs))
	if r, p := atomic.LoadInt64(&recvs), atomic.LoadInt64(&pubs); r < p {
		lc.failf("%d of %d messages published during lookupd faults were not delivered", p-r, p)
	}
	if ok, why := converge(60 * heartbeat); !ok {
		lc.failf("after the faults ended: %s, still so after 60 heartbeat intervals", why)
	}
}

func httpPost(url string) (int, error) {
	resp, err := lhc.Post(url, "text/plain", nil)
	if err != nil {
		return 0, err
	}
	defer resp.Body.Close()
	io.Copy(io.Discard, resp.Body)
	return resp.StatusCode, nil
}

var _ = binary.BigEndian
var _ = hlib.Emit
