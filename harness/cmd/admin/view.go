package main

// C18: nsqadmin's cluster views against the views predicted by AdminView.tla.
// The real nsqadmin runs as a child process (a panic in one of its fan-out goroutines kills the
// process: that is an observation, and a violation of "nsqadmin itself never crashes").

import (
	"bufio"
	"bytes"
	"encoding/json"
	"flag"
	"fmt"
	"io"
	"net"
	"net/http"
	"os"
	"os/exec"
	"reflect"
	"regexp"
	"sort"
	"strconv"
	"strings"
	"sync"
	"sync/atomic"
	"syscall"
	"time"

	"github.com/nsqio/nsq/verifharness/hlib"
)

func init() {
	subcmds["view-run"] = viewRun
}

type ViewPred struct {
	St   int             `json:"st"`
	Warn bool            `json:"warn"`
	V    json.RawMessage `json:"v"`
}

type Preds struct {
	Topics  ViewPred                       `json:"topics"`
	Inact   ViewPred                       `json:"inactive"`
	Topic   map[string]ViewPred            `json:"topic"`
	Channel map[string]map[string]ViewPred `json:"channel"`
	Nodes   ViewPred                       `json:"nodes"`
	Node    map[string]ViewPred            `json:"node"`
	Counter ViewPred                       `json:"counter"`
}

type ViewCase struct {
	Cl   Cluster         `json:"cl"`
	Pred Preds           `json:"pred"`
	Raw  json.RawMessage `json:"-"`
	Idx  int             `json:"-"`
}

// ------------------------------------------------------------------------------- child process

type ring struct {
	mu  sync.Mutex
	buf []byte
}

func (r *ring) add(b []byte) {
	r.mu.Lock()
	r.buf = append(r.buf, b...)
	if len(r.buf) > 1<<17 {
		r.buf = r.buf[len(r.buf)-(1<<16):]
	}
	r.mu.Unlock()
}
func (r *ring) String() string { r.mu.Lock(); defer r.mu.Unlock(); return string(r.buf) }

type child struct {
	cmd  *exec.Cmd
	port int
	done chan struct{}
	log  *ring
}

var listenRe = regexp.MustCompile(`HTTP: listening on \S*?:(\d+)`)

func startChild(bin string, args []string) (*child, error) {
	cmd := exec.Command(bin, args...)
	cmd.SysProcAttr = &syscall.SysProcAttr{Pdeathsig: syscall.SIGKILL}
	pr, pw := io.Pipe()
	cmd.Stderr = pw
	cmd.Stdout = pw
	if err := cmd.Start(); err != nil {
		return nil, err
	}
	c := &child{cmd: cmd, done: make(chan struct{}), log: &ring{}}
	portCh := make(chan int, 1)
	go func() {
		rd := bufio.NewReaderSize(pr, 1<<16)
		sent := false
		for {
			line, err := rd.ReadBytes('\n')
			if len(line) > 0 {
				c.log.add(line)
				if !sent {
					if m := listenRe.FindSubmatch(line); m != nil {
						p, _ := strconv.Atoi(string(m[1]))
						portCh <- p
						sent = true
					}
				}
			}
			if err != nil {
				return
			}
		}
	}()
	go func() {
		cmd.Wait()
		time.Sleep(20 * time.Millisecond)
		pw.Close()
		close(c.done)
	}()
	select {
	case p := <-portCh:
		c.port = p
		return c, nil
	case <-c.done:
		return nil, fmt.Errorf("nsqadmin exited at start: %s", c.log.String())
	case <-time.After(60 * time.Second):
		cmd.Process.Kill()
		return nil, fmt.Errorf("nsqadmin did not start listening within 60s: %s", c.log.String())
	}
}

func (c *child) alive() bool {
	select {
	case <-c.done:
		return false
	default:
		return true
	}
}

func (c *child) kill() {
	if c.alive() {
		c.cmd.Process.Kill()
		<-c.done
	}
}

// crashSite: first frame of nsq code below the panic
var frameRe = regexp.MustCompile(`^github\.com/nsqio/nsq/([^\s(]+(?:\(\*?\w+\))?[^\s(]*)\(`)

func crashSite(log string) (string, string) {
	i := strings.LastIndex(log, "panic: ")
	if j := strings.LastIndex(log, "fatal error: "); j > i {
		i = j
	}
	if i < 0 {
		return "exit-without-panic", tail(log, 600)
	}
	txt := log[i:]
	msg := txt
	if j := strings.Index(msg, "\n"); j >= 0 {
		msg = msg[:j]
	}
	for _, ln := range strings.Split(txt, "\n") {
		if m := frameRe.FindStringSubmatch(strings.TrimSpace(ln)); m != nil {
			site := m[1]
			site = regexp.MustCompile(`\.func\d+(\.\d+)*$`).ReplaceAllString(site, "")
			return site, msg
		}
	}
	return "unknown-site", msg
}

func tail(s string, n int) string {
	if len(s) > n {
		return s[len(s)-n:]
	}
	return s
}

// ------------------------------------------------------------------------------- one worker cell

type viewCell struct {
	cell     *Cell
	bin      string
	children map[string]*child
	client   *http.Client
	timeout  string
	starts   int
}

var viewCellN, stuckViews int64

func newViewCell(bin, timeout string) (*viewCell, error) {
	c, err := newCell()
	if err != nil {
		return nil, err
	}
	// every other cell calls topic t3 "t3#ephemeral" and channel c2 "c2#ephemeral" on the wire (upstream answers, upstream
	// queries, nsqadmin's own routes); the model and the comparison go on speaking of t3 and c2
	k := atomic.AddInt64(&viewCellN, 1)
	c.eph = k%2 == 0
	// ... and every third cell has N2 and N3 report the same hostname (two nsqd on one machine)
	c.sameHost = k%3 == 0
	return &viewCell{cell: c, bin: bin, children: map[string]*child{}, timeout: timeout,
		client: &http.Client{Timeout: 30 * time.Second, Transport: &http.Transport{DisableKeepAlives: true}}}, nil
}

func (vc *viewCell) Close() {
	for _, ch := range vc.children {
		ch.kill()
	}
	vc.cell.Close()
}

func (vc *viewCell) childFor(cl *Cluster) (*child, string, error) {
	var key string
	to := "60s" // a healthy stub never misses this, however loaded the machine is
	for _, f := range cl.Fail {
		if f == "slow" {
			to = vc.timeout
		}
	}
	args := []string{"--http-address=127.0.0.1:0", "--http-client-connect-timeout=" + to,
		"--http-client-request-timeout=" + to}
	if cl.Mode == "lookupd" {
		key = fmt.Sprintf("lookupd%d/%s", len(cl.L), to)
		for _, l := range sorted(cl.L) {
			args = append(args, "--lookupd-http-address="+vc.cell.stubAddr(l))
		}
	} else {
		key = fmt.Sprintf("direct%d/%s", len(cl.N), to)
		for _, n := range sorted(cl.N) {
			args = append(args, "--nsqd-http-address="+vc.cell.stubAddr(n))
		}
	}
	if ch := vc.children[key]; ch != nil && ch.alive() {
		return ch, key, nil
	}
	ch, err := startChild(vc.bin, args)
	if err != nil {
		return nil, key, err
	}
	vc.children[key] = ch
	vc.starts++
	return ch, key, nil
}

type obsView struct {
	St    int         `json:"st"`
	Warn  bool        `json:"warn"`
	V     interface{} `json:"v,omitempty"`
	Body  string      `json:"body,omitempty"`
	Crash string      `json:"crash,omitempty"`
}

// fetch returns the observed view; crashed=true when the child died while (or right after) answering
func (vc *viewCell) fetch(ch *child, path string) (code int, body []byte, crashed bool, err error) {
	if vc.cell.eph && strings.HasPrefix(path, "/api/topics/") {
		segs := strings.Split(strings.TrimPrefix(path, "/api/topics/"), "/")
		for i, sg := range segs {
			if (i == 0 && sg == "t3") || (i == 1 && sg == "c2") {
				segs[i] = sg + "%23ephemeral"
			}
		}
		path = "/api/topics/" + strings.Join(segs, "/")
	}
	resp, e := vc.client.Get(fmt.Sprintf("http://127.0.0.1:%d%s", ch.port, path))
	if e == nil {
		body, _ = io.ReadAll(resp.Body)
		resp.Body.Close()
		code = resp.StatusCode
		if vc.cell.eph {
			body = bytes.ReplaceAll(body, []byte(`"t3#ephemeral"`), []byte(`"t3"`))
			body = bytes.ReplaceAll(body, []byte(`"c2#ephemeral"`), []byte(`"c2"`))
		}
	}
	// a panic in a fan-out goroutine kills the process shortly after (or instead of) the answer
	wait := 30 * time.Millisecond
	if e != nil {
		wait = 5 * time.Second
	}
	select {
	case <-ch.done:
		return code, body, true, nil
	case <-time.After(wait):
	}
	if e != nil {
		return 0, nil, false, e
	}
	return code, body, false, nil
}

// ------------------------------------------------------------------------------- normalisation

func pairOf(v interface{}) []int64 {
	switch x := v.(type) {
	case json.Number:
		n, _ := x.Int64()
		p := toPair(n)
		return []int64{p[0], p[1]}
	case float64:
		p := toPair(int64(x))
		return []int64{p[0], p[1]}
	}
	return []int64{-1, -1}
}

type jmap = map[string]interface{}

func asMap(v interface{}) jmap {
	m, _ := v.(jmap)
	if m == nil {
		return jmap{}
	}
	return m
}
func asArr(v interface{}) []interface{} {
	a, _ := v.([]interface{})
	return a
}
func asStr(v interface{}) string { s, _ := v.(string); return s }
func asBool(v interface{}) bool  { b, _ := v.(bool); return b }
func asInt(v interface{}) int64 {
	if n, ok := v.(json.Number); ok {
		i, _ := n.Int64()
		return i
	}
	return -1
}

// e2eOf: the end-to-end latency block of a row: samples, and per quantile the sample count and the maximum (for a
// single node's row the maximum is the node's own value)
func e2eOf(v interface{}) jmap {
	e := asMap(v)
	q := func(want string) jmap {
		for _, p := range asArr(e["percentiles"]) {
			pm := asMap(p)
			if n, ok := pm["quantile"].(json.Number); ok && n.String() == want {
				return jmap{"count": pairOf(pm["count"]), "max": pairOf(pm["max"])}
			}
		}
		return jmap{"count": []int64{-1, -1}, "max": []int64{-1, -1}}
	}
	return jmap{"count": pairOf(e["count"]), "p99": q("0.99"), "p50": q("0.5")}
}

// nodeKey: which nsqd a row is about -- by its address (the hostname two nsqd may share)
func (vc *viewCell) nodeKey(nm jmap) string {
	if a := asStr(nm["node"]); a != "" {
		if n := vc.cell.nameOfAddr(a); n != a && n != "DEAD" {
			return n
		}
	}
	if p, ok := nm["http_port"].(json.Number); ok {
		a := "127.0.0.1:" + p.String()
		if n := vc.cell.nameOfAddr(a); n != a && n != "DEAD" {
			return n
		}
	}
	return asStr(nm["hostname"])
}

func chanFields(c jmap) jmap {
	return jmap{"e2e": e2eOf(c["e2e_processing_latency"]), "depth": pairOf(c["depth"]), "backend_depth": pairOf(c["backend_depth"]), "memory_depth": pairOf(c["memory_depth"]),
		"in_flight_count": pairOf(c["in_flight_count"]), "deferred_count": pairOf(c["deferred_count"]),
		"requeue_count": pairOf(c["requeue_count"]), "timeout_count": pairOf(c["timeout_count"]),
		"message_count": pairOf(c["message_count"]), "client_count": asInt(c["client_count"]), "paused": asBool(c["paused"])}
}

func (vc *viewCell) normalise(kind string, doc jmap) interface{} {
	switch kind {
	case "topics":
		ts := []string{}
		for _, t := range asArr(doc["topics"]) {
			ts = append(ts, asStr(t))
		}
		return jmap{"topics": ts}
	case "inactive":
		// topic -> list of channel names, as nsqadmin lists them (a name listed twice stays listed twice)
		ts := jmap{}
		for t, cs := range asMap(doc["topics"]) {
			l := []interface{}{}
			for _, c := range asArr(cs) {
				l = append(l, asStr(c))
			}
			ts[t] = l
		}
		return jmap{"topics": ts}
	case "topic":
		chans := jmap{}
		for _, c := range asArr(doc["channels"]) {
			cm := asMap(c)
			chans[asStr(cm["channel_name"])] = chanFields(cm)
		}
		nodes := jmap{}
		for _, n := range asArr(doc["nodes"]) {
			nm := asMap(n)
			nodes[vc.nodeKey(nm)] = jmap{"depth": pairOf(nm["depth"]), "message_count": pairOf(nm["message_count"]),
				"e2e": e2eOf(nm["e2e_processing_latency"])}
		}
		return jmap{"depth": pairOf(doc["depth"]), "backend_depth": pairOf(doc["backend_depth"]),
			"memory_depth": pairOf(doc["memory_depth"]), "message_count": pairOf(doc["message_count"]),
			"e2e":    e2eOf(doc["e2e_processing_latency"]),
			"paused": asBool(doc["paused"]), "channels": chans, "nodes": nodes}
	case "channel":
		sum := chanFields(doc)
		nodes := jmap{}
		names := []string{}
		for _, n := range asArr(doc["nodes"]) {
			nm := asMap(n)
			nodes[vc.nodeKey(nm)] = jmap{"depth": pairOf(nm["depth"]), "message_count": pairOf(nm["message_count"]),
				"e2e": e2eOf(nm["e2e_processing_latency"])}
			names = append(names, vc.nodeKey(nm))
		}
		sum["nodes"] = names
		clients := []string{}
		for _, c := range asArr(doc["clients"]) {
			clients = append(clients, asStr(asMap(c)["client_id"]))
		}
		return jmap{"sum": sum, "clients": clients, "nodes": nodes}
	case "nodes":
		nodes := jmap{}
		for _, n := range asArr(doc["nodes"]) {
			nm := asMap(n)
			ts := []interface{}{}
			for _, t := range asArr(nm["topics"]) {
				tm := asMap(t)
				ts = append(ts, []interface{}{asStr(tm["topic"]), asBool(tm["tombstoned"])})
			}
			nodes[vc.nodeKey(nm)] = jmap{"nremote": int64(len(asArr(nm["remote_addresses"]))), "ood": asBool(nm["out_of_date"]),
				"topics": ts}
		}
		return jmap{"nodes": nodes}
	case "node":
		topics := jmap{}
		for _, t := range asArr(doc["topics"]) {
			tm := asMap(t)
			chans := jmap{}
			for _, c := range asArr(tm["channels"]) {
				cm := asMap(c)
				clients := []string{}
				for _, x := range asArr(cm["clients"]) {
					clients = append(clients, asStr(asMap(x)["client_id"]))
				}
				chans[asStr(cm["channel_name"])] = jmap{"depth": pairOf(cm["depth"]), "message_count": pairOf(cm["message_count"]),
					"clients": clients}
			}
			topics[asStr(tm["topic_name"])] = jmap{"depth": pairOf(tm["depth"]), "message_count": pairOf(tm["message_count"]),
				"channels": chans}
		}
		return jmap{"total_messages": pairOf(doc["total_messages"]), "total_clients": asInt(doc["total_clients"]), "topics": topics}
	case "counter":
		stats := []interface{}{}
		for _, s := range asMap(doc["stats"]) {
			sm := asMap(s)
			stats = append(stats, jmap{"t": asStr(sm["topic_name"]), "c": asStr(sm["channel_name"]),
				"n": vc.cell.nameOfAddr(asStr(sm["node"])), "mc": pairOf(sm["message_count"])})
		}
		return jmap{"stats": stats}
	}
	return nil
}

// canon: sets are printed by TLC in its own order and the empty function as []: sort, and merge
// the two spellings of "empty".  Arrays of numbers are pairs and keep their order.
func canon(v interface{}) interface{} {
	switch x := v.(type) {
	case map[string]interface{}:
		if len(x) == 0 {
			return "∅"
		}
		r := jmap{}
		for k, e := range x {
			r[k] = canon(e)
		}
		return r
	case []interface{}:
		if len(x) == 0 {
			return "∅"
		}
		allNum := true
		for _, e := range x {
			if _, ok := e.(float64); !ok {
				allNum = false
			}
		}
		r := make([]interface{}, len(x))
		for i, e := range x {
			r[i] = canon(e)
		}
		if !allNum {
			sort.Slice(r, func(i, j int) bool {
				a, _ := json.Marshal(r[i])
				b, _ := json.Marshal(r[j])
				return string(a) < string(b)
			})
		}
		return r
	}
	return v
}

func roundTrip(v interface{}) interface{} {
	b, _ := json.Marshal(v)
	var r interface{}
	json.Unmarshal(b, &r)
	return r
}

// compareView: "" when the observed view is the predicted one
func compareView(kind string, pred ViewPred, obs *obsView) string {
	if obs.St == -1 {
		return obs.Body // no answer at all
	}
	if pred.St == 0 {
		return "" // only liveness is decided for this view
	}
	if obs.St != pred.St {
		return fmt.Sprintf("status %d, predicted %d", obs.St, pred.St)
	}
	if pred.St != 200 {
		return ""
	}
	if obs.Warn != pred.Warn {
		return fmt.Sprintf("warning %v, predicted %v", obs.Warn, pred.Warn)
	}
	var pv interface{}
	if err := json.Unmarshal(pred.V, &pv); err != nil {
		return "cannot parse prediction: " + err.Error()
	}
	ov := roundTrip(obs.V)
	switch kind {
	case "topic":
		// the per-channel node list inside the topic view is not part of the comparison
		for _, c := range asMap(asMap(pv)["channels"]) {
			delete(asMap(c), "nodes")
		}
	case "nodes":
		// any reporting lookupd's topic list is acceptable for a node (first answer wins in nsqadmin)
		pn, on := asMap(asMap(pv)["nodes"]), asMap(asMap(ov)["nodes"])
		for name, p := range pn {
			o, ok := on[name]
			if !ok {
				continue
			}
			got, _ := json.Marshal(canon(asMap(o)["topics"]))
			found := false
			for _, cand := range asArr(asMap(p)["cands"]) {
				cj, _ := json.Marshal(canon(cand))
				if string(cj) == string(got) {
					found = true
				}
			}
			if !found {
				return fmt.Sprintf("node %s: topics %s are not what any lookupd reports (%v)", name, got, asMap(p)["cands"])
			}
			delete(asMap(p), "cands")
			delete(asMap(o), "topics")
		}
	}
	a, b := canon(pv), canon(ov)
	if !reflect.DeepEqual(a, b) {
		aj, _ := json.Marshal(a)
		bj, _ := json.Marshal(b)
		return "view differs: observed " + firstDiff(bj, aj)
	}
	return ""
}

func firstDiff(obs, pred []byte) string {
	i := 0
	for i < len(obs) && i < len(pred) && obs[i] == pred[i] {
		i++
	}
	lo := i - 80
	if lo < 0 {
		lo = 0
	}
	cut := func(b []byte) string {
		hi := i + 160
		if hi > len(b) {
			hi = len(b)
		}
		if lo > len(b) {
			return ""
		}
		return string(b[lo:hi])
	}
	return fmt.Sprintf("...%s...  vs predicted ...%s...", cut(obs), cut(pred))
}

// ------------------------------------------------------------------------------- running cases

type viewReq struct {
	kind, key, path string
	pred            ViewPred
}

func (vc *viewCell) requests(cs *ViewCase) []viewReq {
	var rs []viewReq
	rs = append(rs, viewReq{"topics", "topics", "/api/topics", cs.Pred.Topics})
	rs = append(rs, viewReq{"inactive", "inactive", "/api/topics?inactive=true", cs.Pred.Inact})
	rs = append(rs, viewReq{"nodes", "nodes", "/api/nodes", cs.Pred.Nodes})
	for _, t := range sortedKeysP(cs.Pred.Topic) {
		rs = append(rs, viewReq{"topic", "topic:" + t, "/api/topics/" + t, cs.Pred.Topic[t]})
	}
	for t, m := range cs.Pred.Channel {
		for c, p := range m {
			rs = append(rs, viewReq{"channel", "channel:" + t + ":" + c, "/api/topics/" + t + "/" + c, p})
		}
	}
	for _, n := range sortedKeysP(cs.Pred.Node) {
		// an nsqd nobody knows about is asked for by the address of a stub that is up; one that the
		// lookupds still name but that is gone by the dead address they report
		addr := vc.cell.stubAddr(n)
		for _, l := range cs.Cl.Lookupd {
			if _, named := l.Nodes[n]; named {
				addr = vc.cell.addrOf(n)
			}
		}
		rs = append(rs, viewReq{"node", "node:" + n, "/api/nodes/" + addr, cs.Pred.Node[n]})
	}
	rs = append(rs, viewReq{"counter", "counter", "/api/counter", cs.Pred.Counter})
	sort.SliceStable(rs, func(i, j int) bool { return rs[i].key < rs[j].key })
	return rs
}

func sortedKeysP(m map[string]ViewPred) []string {
	var r []string
	for k := range m {
		r = append(r, k)
	}
	sort.Strings(r)
	return r
}

type ViewFinding struct {
	Kind  string          `json:"kind"` // crash | view
	Key   string          `json:"key"`
	What  string          `json:"what"`
	View  string          `json:"view"`
	Path  string          `json:"path"`
	Case  json.RawMessage `json:"case"`
	Obs   *obsView        `json:"observed"`
	Count int             `json:"count"`
}

func (vc *viewCell) one(cs *ViewCase, rq viewReq) (*obsView, error) {
	ch, _, err := vc.childFor(&cs.Cl)
	if err != nil {
		return nil, err
	}
	code, body, crashed, err := vc.fetch(ch, rq.path)
	if crashed {
		site, msg := crashSite(ch.log.String())
		return &obsView{St: code, Crash: site + " -- " + msg}, nil
	}
	if err != nil {
		if ne, ok := err.(net.Error); ok && ne.Timeout() {
			// the harness gives nsqadmin 30 s; nsqadmin gives every upstream request its --http-client-request-timeout
			// (1 s here) and queries them in parallel: no answer at all is an observation, not an accident
			atomic.AddInt64(&stuckViews, 1)
			return &obsView{St: -1, Body: fmt.Sprintf("nsqadmin did not answer GET %s within 30 s (its upstream request timeout is %s)", rq.path, vc.timeout)}, nil
		}
		return nil, fmt.Errorf("GET %s: %v (nsqadmin log: %s)", rq.path, err, tail(ch.log.String(), 500))
	}
	o := &obsView{St: code}
	if code == 200 {
		dec := json.NewDecoder(strings.NewReader(string(body)))
		dec.UseNumber()
		var doc jmap
		if err := dec.Decode(&doc); err != nil {
			o.Body = tail(string(body), 300)
			return o, nil
		}
		o.Warn = asStr(doc["message"]) != ""
		o.V = vc.normalise(rq.kind, doc)
	} else {
		o.Body = tail(string(body), 300)
	}
	return o, nil
}

type ViewReport struct {
	Cases       int            `json:"cases"`
	Run         int            `json:"run"`
	Views       int            `json:"views"`
	Compared    int            `json:"views_compared_in_full"`
	AliveOnly   int            `json:"views_liveness_only"`
	Crashes     int            `json:"crashes"`
	Restarts    int            `json:"child_starts"`
	Unconfirmed int            `json:"mismatches_not_reproduced"`
	ByStatus    map[string]int `json:"by_status"`
	FailClasses map[string]int `json:"cases_by_failure_class"`
	Distinct    int            `json:"distinct_nontrivial"`
	Findings    []*ViewFinding `json:"findings"`
	Samples     []interface{}  `json:"samples"`
	Error       string         `json:"error,omitempty"`
}

func viewRun(args []string) int {
	fs := flag.NewFlagSet("view-run", flag.ExitOnError)
	tlcOut := fs.String("tlc-out", "", "TLC log with CASE lines")
	bin := fs.String("nsqadmin", "", "nsqadmin binary")
	report := fs.String("report", "", "report")
	cells := fs.Int("cells", 8, "parallel cells")
	timeout := fs.String("upstream-timeout", "1s", "nsqadmin's upstream request timeout")
	only := fs.String("only", "", "replay file (a finding): run only its case")
	fs.Parse(args)
	rep := &ViewReport{ByStatus: map[string]int{}, FailClasses: map[string]int{}}
	fail := func(err error) int {
		rep.Error = err.Error()
		hlib.WriteJSON(*report, rep)
		fmt.Fprintln(os.Stderr, err)
		return 2
	}
	var cases []*ViewCase
	add := func(raw []byte) error {
		cs := &ViewCase{}
		if err := json.Unmarshal(raw, cs); err != nil {
			return fmt.Errorf("%v in %s", err, tail(string(raw), 300))
		}
		cs.Raw = append(json.RawMessage{}, raw...)
		cs.Idx = len(cases)
		cases = append(cases, cs)
		return nil
	}
	if *only != "" {
		b, err := os.ReadFile(*only)
		if err != nil {
			return fail(err)
		}
		var f ViewFinding
		if err := json.Unmarshal(b, &f); err != nil || f.Case == nil {
			return fail(fmt.Errorf("no case in %s", *only))
		}
		if err := add(f.Case); err != nil {
			return fail(err)
		}
	} else {
		seen := map[string]bool{}
		if err := readTagged(*tlcOut, "CASE", func(raw []byte) error {
			if seen[string(raw)] {
				return nil
			}
			seen[string(raw)] = true
			return add(raw)
		}); err != nil {
			return fail(err)
		}
	}
	if len(cases) == 0 {
		return fail(fmt.Errorf("no cases"))
	}
	rep.Cases = len(cases)
	// slow cases first: they take longest
	sort.SliceStable(cases, func(i, j int) bool { return isSlow(cases[i]) && !isSlow(cases[j]) })
	var mu sync.Mutex
	findings := map[string]*ViewFinding{}
	distinct := map[string]bool{}
	next := 0
	var firstErr error
	var wg sync.WaitGroup
	for w := 0; w < *cells; w++ {
		wg.Add(1)
		go func() {
			defer wg.Done()
			vc, err := newViewCell(*bin, *timeout)
			if err != nil {
				mu.Lock()
				firstErr = err
				mu.Unlock()
				return
			}
			defer vc.Close()
			defer func() { mu.Lock(); rep.Restarts += vc.starts; mu.Unlock() }()
			for {
				mu.Lock()
				if next >= len(cases) || firstErr != nil || atomic.LoadInt64(&stuckViews) >= 9 {
					// (a daemon that has stopped answering views three times over -- each confirmed twice -- is not asked further)
					mu.Unlock()
					return
				}
				cs := cases[next]
				next++
				mu.Unlock()
				vc.cell.set(&cs.Cl)
				fc := "none"
				var fcs []string
				for _, f := range cs.Cl.Fail {
					if f != "ok" {
						fcs = append(fcs, f)
					}
				}
				if len(fcs) > 0 {
					sort.Strings(fcs)
					fc = strings.Join(fcs, "+")
				}
				for _, rq := range vc.requests(cs) {
					obs, err := vc.one(cs, rq)
					if err != nil {
						mu.Lock()
						firstErr = err
						mu.Unlock()
						return
					}
					var f *ViewFinding
					if obs.Crash != "" {
						site := strings.SplitN(obs.Crash, " -- ", 2)[0]
						kind := "crash"
						if site == "exit-without-panic" {
							kind = "child-exit" // the process went away without a Go panic: not attributable to nsqadmin
						}
						f = &ViewFinding{Kind: kind, Key: kind + ":" + site, View: rq.key, Path: rq.path, Case: cs.Raw, Obs: obs,
							What: fmt.Sprintf("nsqadmin crashed while serving %s (%s mode, upstream failure classes %v): %s",
								rq.kind, cs.Cl.Mode, nonOk(cs.Cl.Fail), obs.Crash)}
					} else if d := compareView(rq.kind, rq.pred, obs); d != "" {
						// reproduce (twice) before reporting: the slow class depends on a timeout
						confirmed := true
						for k := 0; k < 2 && confirmed; k++ {
							time.Sleep(100 * time.Millisecond)
							o2, err := vc.one(cs, rq)
							if err != nil || o2.Crash != "" || compareView(rq.kind, rq.pred, o2) == "" {
								confirmed = false
							}
						}
						if confirmed {
							kind := "view"
							if isSlow(cs) && obs.St != -1 {
								kind = "view-deadline" // depends on nsqadmin's upstream timeout: never a violation by itself
							}
							f = &ViewFinding{Kind: kind, Key: kind + ":" + rq.kind + ":" + cs.Cl.Mode + ":" + fc, View: rq.key, Path: rq.path,
								Case: cs.Raw, Obs: obs, What: fmt.Sprintf("%s view (%s mode, failing %v): %s", rq.kind, cs.Cl.Mode, nonOk(cs.Cl.Fail), d)}
						} else {
							mu.Lock()
							rep.Unconfirmed++
							mu.Unlock()
						}
					}
					mu.Lock()
					rep.Views++
					rep.ByStatus[fmt.Sprint(obs.St)]++
					if rq.pred.St == 0 {
						rep.AliveOnly++
					} else {
						rep.Compared++
					}
					if obs.Crash != "" {
						rep.Crashes++
					}
					distinct[fmt.Sprintf("%d/%s", cs.Idx, rq.key)] = true
					if f != nil {
						if old := findings[f.Key]; old != nil {
							old.Count++
						} else {
							f.Count = 1
							findings[f.Key] = f
						}
					}
					if len(rep.Samples) < 10 && (cs.Idx%97 == 0) && rq.kind == "topic" && obs.St == 200 {
						rep.Samples = append(rep.Samples, jmap{"cluster": cs.Cl, "view": rq.path, "observed": obs, "predicted": rq.pred})
					}
					mu.Unlock()
				}
				mu.Lock()
				rep.Run++
				rep.FailClasses[fc]++
				mu.Unlock()
			}
		}()
	}
	wg.Wait()
	if firstErr != nil {
		return fail(firstErr)
	}
	rep.Distinct = len(distinct)
	var keys []string
	for k := range findings {
		keys = append(keys, k)
	}
	sort.Strings(keys)
	for _, k := range keys {
		rep.Findings = append(rep.Findings, findings[k])
	}
	if err := hlib.WriteJSON(*report, rep); err != nil {
		fmt.Fprintln(os.Stderr, err)
		return 2
	}
	if len(rep.Findings) > 0 {
		return 1
	}
	return 0
}

func isSlow(c *ViewCase) bool {
	for _, f := range c.Cl.Fail {
		if f == "slow" {
			return true
		}
	}
	return false
}

func nonOk(m StrMap) map[string]string {
	r := map[string]string{}
	for k, v := range m {
		if v != "ok" {
			r[k] = v
		}
	}
	return r
}
