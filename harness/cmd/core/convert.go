package main

import (
	"fmt"
	"strconv"

	"github.com/nsqio/nsq/internal/verif"
	"github.com/nsqio/nsq/verifharness/hlib"
)

// convertTrace writes the recorded events as ndjson for the TLA+ trace specs:
// connection names -> server-side client ids, nanosecond clocks -> microseconds relative to the run start
// (TLC integers are 32 bit), body digests -> (key, crc-as-string, len), /stats names -> channel instances.
func convertTrace(evs []verif.Event, w *hlib.NDJSON, report *Report) int {
	kOf := map[string]int64{} // conn name -> client id
	for _, e := range evs {
		if e.Ev == "KIdent" {
			kOf[hlib.KVStr(e, "cid")] = hlib.KVInt(e, "k")
		}
	}
	var base int64
	for _, e := range evs {
		if e.Ev == "Reset" {
			base = hlib.KVInt(e, "now") - 1000000
			break
		}
	}
	us := func(ns int64) int64 {
		v := (ns - base) / 1000
		if v > 2000000000 {
			v = 2000000000
		}
		if v < -2000000000 {
			v = -2000000000
		}
		return v
	}
	dus := func(ns int64) int64 { // durations
		v := ns / 1000
		if v > 2000000000 {
			v = 2000000000
		}
		return v
	}
	curInst := map[string]string{} // "t/c" -> live instance
	curTop := map[string]string{}  // "t" -> live instance
	n := 0
	put := func(m map[string]interface{}) {
		w.Put(m)
		n++
	}
	S := hlib.KVStr
	I := hlib.KVInt
	B := func(e verif.Event, k string) bool { return I(e, k) == 1 }
	dig := func(e verif.Event) (string, string, int) {
		d, _ := hlib.KVGet(e, "body").(verif.BodyDigest)
		return keyOf([]byte(d.Pre)), fmt.Sprintf("%08x", d.CRC), d.Len
	}
	strs := func(e verif.Event, k string) []string {
		v, _ := hlib.KVGet(e, k).([]string)
		if v == nil {
			v = []string{}
		}
		return v
	}
	for _, e := range evs {
		report.Shapes[e.Ev]++
		switch e.Ev {
		case "Reset":
			put(map[string]interface{}{"ev": "Reset"})
		case "TPutBegin":
			key, crc, ln := dig(e)
			curTop[trimGen(S(e, "t"))] = S(e, "t")
			put(map[string]interface{}{"ev": e.Ev, "t": S(e, "t"), "id": S(e, "id"), "key": key, "crc": crc, "len": ln,
				"ts": fmt.Sprint(I(e, "ts")), "pnow": us(I(e, "ts")), "def": dus(I(e, "def"))})
		case "TPutEnd":
			put(map[string]interface{}{"ev": e.Ev, "t": S(e, "t"), "id": S(e, "id"), "ok": B(e, "ok")})
		case "TPutAck":
			put(map[string]interface{}{"ev": e.Ev, "t": S(e, "t"), "ids": strs(e, "ids"), "bytes": I(e, "bytes")})
		case "TTake":
			put(map[string]interface{}{"ev": e.Ev, "t": S(e, "t"), "id": S(e, "id"), "chans": strs(e, "chans"), "def": dus(I(e, "def"))})
		case "QSDone":
			put(map[string]interface{}{"ev": e.Ev, "c": S(e, "c"), "t": us(I(e, "t"))})
		case "TCopied":
			put(map[string]interface{}{"ev": e.Ev, "t": S(e, "t"), "id": S(e, "id")})
		case "CopyFail":
			put(map[string]interface{}{"ev": e.Ev, "c": S(e, "c"), "id": S(e, "id")})
		case "CMapAdd":
			curInst[trimGen(S(e, "c"))] = S(e, "c")
			curTop[trimGen(S(e, "t"))] = S(e, "t")
			put(map[string]interface{}{"ev": e.Ev, "c": S(e, "c"), "t": S(e, "t")})
		case "CCreated", "CDeleteBegin", "CMapDel":
			put(map[string]interface{}{"ev": e.Ev, "c": S(e, "c"), "t": S(e, "t")})
		case "CExit":
			put(map[string]interface{}{"ev": e.Ev, "c": S(e, "c"), "deleted": B(e, "deleted")})
		case "CDeleted", "CClosed", "EmptyBegin", "EmptyEnd":
			put(map[string]interface{}{"ev": e.Ev, "c": S(e, "c")})
		case "IFReset", "DefReset":
			put(map[string]interface{}{"ev": e.Ev, "c": S(e, "c"), "n": I(e, "n")})
		case "TExit":
			put(map[string]interface{}{"ev": e.Ev, "t": S(e, "t"), "deleted": B(e, "deleted")})
		case "TDeleted", "TClosed", "TPumpStopped":
			put(map[string]interface{}{"ev": e.Ev, "t": S(e, "t")})
		case "CPauseBegin":
			put(map[string]interface{}{"ev": e.Ev, "c": S(e, "c"), "p": B(e, "p")})
		case "CPauseEnd":
			put(map[string]interface{}{"ev": e.Ev, "c": S(e, "c"), "p": B(e, "p"), "now": us(I(e, "now"))})
		case "TPauseBegin", "TPauseEnd":
			put(map[string]interface{}{"ev": e.Ev, "t": S(e, "t"), "p": B(e, "p")})
		case "CPutBegin":
			put(map[string]interface{}{"ev": e.Ev, "c": S(e, "c"), "id": S(e, "id"), "att": I(e, "att"), "now": us(I(e, "now"))})
		case "CPutEnd":
			put(map[string]interface{}{"ev": e.Ev, "c": S(e, "c"), "id": S(e, "id"), "where": S(e, "where"), "ok": B(e, "ok")})
		case "CRecv":
			now := int64(0)
			if B(e, "def") {
				now = us(I(e, "now"))
			}
			put(map[string]interface{}{"ev": e.Ev, "c": S(e, "c"), "id": S(e, "id"), "def": B(e, "def"), "now": now})
		case "KRecv":
			put(map[string]interface{}{"ev": e.Ev, "k": I(e, "k"), "c": S(e, "c"), "id": S(e, "id"), "att": I(e, "att")})
		case "KSample":
			put(map[string]interface{}{"ev": e.Ev, "k": I(e, "k"), "c": S(e, "c"), "id": S(e, "id")})
		case "IFStart":
			put(map[string]interface{}{"ev": e.Ev, "c": S(e, "c"), "id": S(e, "id"), "k": I(e, "k"), "pri": us(I(e, "pri")), "dts": us(I(e, "dts")), "tmo": dus(I(e, "tmo"))})
		case "IFPush":
			put(map[string]interface{}{"ev": e.Ev, "c": S(e, "c"), "id": S(e, "id"), "k": I(e, "k"), "att": I(e, "att"), "pri": us(I(e, "pri")), "ok": B(e, "ok"), "n": I(e, "n")})
		case "IFPop":
			put(map[string]interface{}{"ev": e.Ev, "c": S(e, "c"), "id": S(e, "id"), "by": I(e, "by"), "owner": I(e, "owner"), "res": S(e, "res"), "n": I(e, "n"), "now": us(I(e, "now"))})
		case "TouchCalc":
			put(map[string]interface{}{"ev": e.Ev, "c": S(e, "c"), "id": S(e, "id"), "k": I(e, "k"), "pri": us(I(e, "pri")), "dts": us(I(e, "dts")), "now": us(I(e, "now")), "tmo": dus(I(e, "tmo")), "max": dus(I(e, "max"))})
		case "FinDone":
			put(map[string]interface{}{"ev": e.Ev, "c": S(e, "c"), "id": S(e, "id"), "k": I(e, "k")})
		case "ReqStart":
			put(map[string]interface{}{"ev": e.Ev, "c": S(e, "c"), "id": S(e, "id"), "k": I(e, "k"), "delay": dus(I(e, "delay")), "now": us(I(e, "now"))})
		case "ReqExiting":
			put(map[string]interface{}{"ev": e.Ev, "c": S(e, "c"), "id": S(e, "id"), "k": I(e, "k")})
		case "ReqClamp":
			req := I(e, "reqms")
			if req > 2000000 {
				req = 2000000
			}
			put(map[string]interface{}{"ev": e.Ev, "k": I(e, "k"), "id": S(e, "id"), "reqms": req, "delay": dus(I(e, "delay")), "max": dus(I(e, "max"))})
		case "DefStart":
			put(map[string]interface{}{"ev": e.Ev, "c": S(e, "c"), "id": S(e, "id"), "pri": us(I(e, "pri")), "now": us(I(e, "now")), "delay": dus(I(e, "delay"))})
		case "DefPush":
			put(map[string]interface{}{"ev": e.Ev, "c": S(e, "c"), "id": S(e, "id"), "pri": us(I(e, "pri")), "ok": B(e, "ok"), "n": I(e, "n")})
		case "DefPop":
			put(map[string]interface{}{"ev": e.Ev, "c": S(e, "c"), "id": S(e, "id"), "ok": B(e, "ok"), "n": I(e, "n")})
		case "ScanIF", "ScanDef":
			put(map[string]interface{}{"ev": e.Ev, "c": S(e, "c"), "id": S(e, "id"), "t": us(I(e, "t")), "pri": us(I(e, "pri")), "now": us(I(e, "now"))})
		case "ScanTimedOut":
			put(map[string]interface{}{"ev": e.Ev, "c": S(e, "c"), "id": S(e, "id"), "k": I(e, "k")})
		case "KSub", "KUnsub":
			put(map[string]interface{}{"ev": e.Ev, "k": I(e, "k"), "c": S(e, "c"), "n": I(e, "n")})
		case "KIdent":
			put(map[string]interface{}{"ev": e.Ev, "k": I(e, "k"), "tmo": dus(I(e, "tmo")), "sample": I(e, "sample")})
		case "KEval":
			put(map[string]interface{}{"ev": e.Ev, "k": I(e, "k"), "ready": B(e, "ready"), "rdy": I(e, "rdy"), "inflight": I(e, "inflight"), "paused": B(e, "paused")})
		case "KRdyBegin", "KRdyEnd":
			put(map[string]interface{}{"ev": e.Ev, "k": I(e, "k"), "n": I(e, "n")})
		case "KRdyDone":
			put(map[string]interface{}{"ev": e.Ev, "k": I(e, "k"), "n": I(e, "n"), "now": us(I(e, "now")), "sig": B(e, "sig")})
		case "KEmpty", "KCls", "KGone":
			put(map[string]interface{}{"ev": e.Ev, "k": I(e, "k")})
		case "Send":
			key, crc, ln := dig(e)
			put(map[string]interface{}{"ev": e.Ev, "k": I(e, "k"), "c": S(e, "c"), "id": S(e, "id"), "att": I(e, "att"), "ts": fmt.Sprint(I(e, "ts")), "key": key, "crc": crc, "len": ln})
		case "Sent":
			put(map[string]interface{}{"ev": e.Ev, "k": I(e, "k"), "id": S(e, "id"), "ok": B(e, "ok")})
		case "KCmd":
			wf := len(S(e, "arg")) == 16
			if S(e, "cmd") == "REQ" {
				if _, err := strconv.ParseInt(S(e, "arg2"), 10, 64); err != nil {
					wf = false
				}
			}
			put(map[string]interface{}{"ev": e.Ev, "k": I(e, "k"), "cmd": S(e, "cmd"), "arg": S(e, "arg"), "arg2": S(e, "arg2"), "err": S(e, "err"), "wf": wf})
		case "HRecv":
			key, crc, ln := dig(e)
			k, ok := kOf[S(e, "conn")]
			if !ok {
				k = -1
			}
			put(map[string]interface{}{"ev": e.Ev, "k": k, "id": S(e, "id"), "att": I(e, "att"), "ts": fmt.Sprint(I(e, "ts")), "key": key, "crc": crc, "len": ln})
		case "HPubAck":
			put(map[string]interface{}{"ev": e.Ev, "keys": strs(e, "keys")})
		case "HStatsT":
			t := curTop[S(e, "t")]
			put(map[string]interface{}{"ev": e.Ev, "t": t, "count": I(e, "count"), "bytes": I(e, "bytes"), "depth": I(e, "depth"), "paused": B(e, "paused")})
		case "HStatsTopics":
			var ts []string
			for _, n := range strs(e, "topics") {
				if inst, ok := curTop[n]; ok {
					ts = append(ts, inst)
				}
			}
			if ts == nil {
				ts = []string{}
			}
			put(map[string]interface{}{"ev": e.Ev, "topics": ts})
		case "HStatsC":
			c := curInst[S(e, "c")]
			put(map[string]interface{}{"ev": e.Ev, "c": c, "depth": I(e, "depth"), "inflight": I(e, "inflight"), "deferred": I(e, "deferred"),
				"count": I(e, "count"), "requeue": I(e, "requeue"), "timeout": I(e, "timeout"), "paused": B(e, "paused")})
		case "HStatsK":
			k, ok := kOf[S(e, "conn")]
			if !ok {
				k = -1
			}
			put(map[string]interface{}{"ev": e.Ev, "k": k, "rdy": I(e, "rdy"), "inflight": I(e, "inflight"), "fin": I(e, "fin"), "req": I(e, "req"), "msgs": I(e, "msgs")})
		case "HQuiet", "HStatsEnd", "HEnd":
			put(map[string]interface{}{"ev": e.Ev})
		default:
			// shape-level / informational events are not part of the property-level trace
		}
	}
	if len(report.Samples) < 4 {
		for _, e := range evs {
			if e.Ev == "IFPop" && len(report.Samples) < 4 {
				report.Samples = append(report.Samples, e.Map())
				break
			}
		}
	}
	return n
}

// convertShutdown: the events of a run's first lifetime that the close protocol (spec/NsqdShutdownTrace.tla) speaks about
func convertShutdown(evs []verif.Event, w *hlib.NDJSON) int {
	S := func(e verif.Event, k string) string { return hlib.KVStr(e, k) }
	B := func(e verif.Event, k string) bool { v, _ := hlib.KVGet(e, k).(bool); return v }
	n := 0
	put := func(m map[string]interface{}) { w.Put(m); n++ }
	put(map[string]interface{}{"ev": "Reset"})
	for _, e := range evs {
		switch e.Ev {
		case "HRestarted":
			return n // the last lifetime starts here
		case "HMidRestart":
			put(map[string]interface{}{"ev": "Reset"}) // an idle lifetime in between: its shutdown is held against the protocol too
		case "TMapAdd", "TPumpStopped", "TClosed", "TDeleted":
			put(map[string]interface{}{"ev": e.Ev, "t": S(e, "t")})
		case "TExit":
			put(map[string]interface{}{"ev": e.Ev, "t": S(e, "t"), "deleted": B(e, "deleted")})
		case "TFlush":
			put(map[string]interface{}{"ev": e.Ev, "t": S(e, "t"), "id": S(e, "id"), "ok": B(e, "ok")})
		case "CMapAdd":
			put(map[string]interface{}{"ev": e.Ev, "c": S(e, "c"), "t": S(e, "t")})
		case "CMapDel", "CDeleted", "CClosed":
			put(map[string]interface{}{"ev": e.Ev, "c": S(e, "c")})
		case "CExit":
			put(map[string]interface{}{"ev": e.Ev, "c": S(e, "c"), "deleted": B(e, "deleted")})
		case "CFlush":
			put(map[string]interface{}{"ev": e.Ev, "c": S(e, "c"), "id": S(e, "id"), "ok": B(e, "ok")})
		case "NExit":
			put(map[string]interface{}{"ev": e.Ev, "stage": S(e, "stage")})
		}
	}
	return n
}
