"""Shared driver/validation logic for the nsqd message-path properties
(C01 C02 C03 C04 C07 C08 C13): run the `core` harness (real nsqd in-process, randomized concurrent
clients, verif hooks recording), validate every recorded run against NsqdAbs with TLC, attribute each
rejection to the property whose clause the failing guard stands for."""
import json
import os
import re
import subprocess
from concurrent.futures import ThreadPoolExecutor

import vlib
from vlib import Inconclusive, log, NCPU

# which property a rejected event speaks for (refined by the state TLC reports, see classify())
EV_CLASS = {
    "KEval": "C03", "TPauseBegin": "C03", "TPauseEnd": "C03", "CPauseBegin": "C03", "CPauseEnd": "C03",
    "KRdyBegin": "C03", "KRdyEnd": "C03",
    "KRecv": "C02", "IFPush": "C02", "IFPop": "C02", "FinDone": "C02", "KCmd": "C02", "ReqStart": "C02",
    "ScanTimedOut": "C02", "CPutBegin": "C02", "DefPush": "C02", "DefPop": "C02",
    "TTake": "C01", "TCopied": "C01", "CopyFail": "C01", "HEnd": "C01", "HPubAck": "C01", "TPutAck": "C01",
    "TPutEnd": "C01",
    "TPutBegin": "C12",
    # an in-flight message taken from its holder before its deadline is a timing fault (C04) AND a redelivery the
    # holder did nothing to cause (C02); a TOUCH that does not move the deadline the way it should likewise
    "IFStart": "C04+C02", "TouchCalc": "C04+C02", "DefStart": "C04", "ScanIF": "C04+C02", "ScanDef": "C04", "ReqClamp": "C04",
    "Send": "C07", "HRecv": "C07",
    # a message past its deadline that three scans of its channel in a row leave where it is: not "soon after" (C04), and
    # for as long as that lasts not redelivered either (C01)
    "QSDone": "C04+C01",
    "HStatsC": "C13", "HStatsK": "C13", "HStatsT": "C13", "HStatsTopics": "C13",
    "EmptyBegin": "C08", "EmptyEnd": "C08", "IFReset": "C08", "DefReset": "C08", "CDeleted": "C08",
    "ReqExiting": "C08", "CMapAdd": "C08", "CCreated": "C08", "CDeleteBegin": "C08", "CExit": "C08",
    "KSample": "C01",
}


def classify(detail):
    """detail: TLC's TRACE_REJECTED print (offending event + custody/channel/client state before it)."""
    m = re.search(r'ev \|-> "(\w+)"', detail)
    ev = m.group(1) if m else "?"
    cls = EV_CLASS.get(ev, "C01")
    loc = re.search(r'loc \|-> "(\w+)"', detail)
    via = re.search(r'via \|-> "(\w*)"', detail)
    loc = loc.group(1) if loc else ""
    via = via.group(1) if via else ""
    if ev == "KRecv":
        sa = re.search(r"sigAt \|-> (\d+)", detail)
        ea = re.search(r"evalAt \|-> (\d+)", detail)
        if sa and ea and int(ea.group(1)) < int(sa.group(1)) and loc in ("Q", "QM"):
            cls = "C03"          # sent on a readiness evaluation older than the RDY change / CLS / pause
        elif re.search(r"ready \|-> FALSE", detail):
            cls = "C03"          # delivered without a positive readiness evaluation (RDY / pause)
        if cls == "C02" and loc == "Gone" and via in ("emptied", "deleted"):
            cls = "C08"          # a discarded message came back
        if loc == "Fin":
            cls = "C02"          # FIN was not final
    if ev == "CPutBegin" and loc == "none":
        m2 = re.search(r"copydef \|-> (\d+)", detail)
        if m2 and int(m2.group(1)) > 0:
            cls = "C04"          # a deferred publish queued for immediate delivery on one of its channels
    if ev == "KCmd" and re.search(r'cmd \|-> "TOUCH"', detail):
        cls = "C04+C02"      # a TOUCH answered without error that did not restart the message's timeout
    if ev == "TTake" and re.search(r'paused \|-> "yes"', detail):
        cls = "C03"
    if ev in ("Send", "HRecv") and re.search(r"att \|-> ", detail):
        pass
    return ev, cls


def drive(ctx, mode, runs, procs=None, extra=None):
    """Run `runs` scenarios of `mode` split over parallel harness processes. Returns list of run dicts."""
    procs = procs or min(8, max(1, runs // 2))
    outdir = os.path.join(ctx.scratch, "traces-" + mode)
    os.makedirs(outdir, exist_ok=True)
    per = (runs + procs - 1) // procs
    h = ctx.harness("core")
    jobs = []
    for p in range(procs):
        first = p * per
        n = min(per, runs - first)
        if n <= 0:
            break
        rep = os.path.join(outdir, "report-%d.json" % p)
        d = os.path.join(outdir, "data-%d" % p)
        os.makedirs(d, exist_ok=True)
        cmd = [h, "drive", "--mode", mode, "--seed", str(ctx.seed), "--first", str(first), "--runs", str(n),
               "--outdir", outdir, "--report", rep, "--dir", d] + (extra or [])
        jobs.append((subprocess.Popen(cmd, cwd=ctx.scratch, env=ctx.goenv(), stdout=subprocess.PIPE,
                                      stderr=subprocess.PIPE, text=True), rep))
    results = []
    for pr, rep in jobs:
        attempts = 0
        while True:
            try:
                out, err = pr.communicate(timeout=1500)
            except subprocess.TimeoutExpired:
                pr.kill()
                raise Inconclusive("core harness (%s) timed out" % mode)
            if os.path.exists(rep):
                R = json.load(open(rep))
                break
            # the harness died: if the in-process nsqd panicked that is an observation about nsqd, and the
            # remaining scenarios of this lane are run by a new process
            panic = "panic:" in err or "fatal error:" in err
            if not panic or attempts > 6 or not os.path.exists(rep + ".progress"):
                raise Inconclusive("core harness (%s) produced no report (rc=%s):\n%s" % (mode, pr.returncode, (out + err)[-3000:]))
            attempts += 1
            idx = int(open(rep + ".progress").read().strip())
            part = json.load(open(rep + ".partial")) if os.path.exists(rep + ".partial") else {"runs": []}
            results.extend(part.get("runs") or [])
            frames = [l.strip() for l in err.splitlines() if "nsqio/nsq/nsqd" in l and "(" in l]
            head = [l for l in err.splitlines() if l.startswith("panic:") or l.startswith("fatal error:")]
            cls = "C05" if mode == "restart" else "C08"
            results.append({"scenario": "mode=%s scenario #%d (process died)" % (mode, idx), "events": 0, "published": 0,
                            "acked": 0, "snapshots": 0, "trace": "", "inconclusive": "",
                            "fails": ["[%s] the daemon panicked: %s | %s" % (cls, (head or ["?"])[0][:200], " | ".join(frames[:4])[:500])]})
            cmd = list(pr.args)
            fi, ri = cmd.index("--first"), cmd.index("--runs")
            last = int(cmd[fi + 1]) + int(cmd[ri + 1])
            if idx + 1 >= last:
                R = {"runs": [], "shapes": {}, "samples": []}
                break
            cmd[fi + 1], cmd[ri + 1] = str(idx + 1), str(last - idx - 1)
            for f in (rep + ".progress", rep + ".partial"):
                if os.path.exists(f):
                    os.unlink(f)
            pr = subprocess.Popen(cmd, cwd=ctx.scratch, env=ctx.goenv(), stdout=subprocess.PIPE, stderr=subprocess.PIPE, text=True)
        results.extend(R["runs"])
        for k, v in R.get("shapes", {}).items():
            ctx.notes.setdefault("event_kinds", {})
            ctx.notes["event_kinds"][k] = ctx.notes["event_kinds"].get(k, 0) + v
        for s in R.get("samples") or []:
            ctx.sample({"hook_event": s})
    return results


def validate_runs(ctx, prop, runs, what):
    """TLC trace validation of each run (parallel JVMs). Attribution: a rejection for a clause of `prop` is a
    violation; a rejection for another property's clause is reported and the run is not counted."""
    todo = [r for r in runs if r.get("trace") and not r.get("inconclusive")]

    # event kinds whose NsqdAbs actions are pure guards (UNCHANGED vars): a rejection there for ANOTHER property's clause
    # need not end the examination of this run -- the guard is relaxed and the rest of the trace is judged
    PURE = {"DefStart", "ScanIF", "ScanDef", "ReqClamp"}

    def one(r):
        relax = []
        while True:
            cfg = "NsqdAbsTrace.cfg"
            if relax:
                cfg = "NsqdAbsTrace_relax_%s.cfg" % "_".join(sorted(relax))
                cp = os.path.join(ctx.specdir, cfg)
                if not os.path.exists(cp):
                    with open(cp, "w") as f:
                        f.write("SPECIFICATION TraceSpec\nCONSTANT Relax = {%s}\nCONSTRAINT HW\nPOSTCONDITION TraceAccepted\nCHECK_DEADLOCK FALSE\n"
                                % ", ".join('"%s"' % e for e in sorted(relax)))
            res = ctx.tlc("NsqdAbsTrace", cfg, workers=1, timeout=900, jvm=["-Xss512m", "-Xmx3g"],
                          files={r["trace"]: "trace.ndjson"}, label="trace:" + what, private=True, record=False)
            if (res.ok and "TRACE_OK" in res.out) or (res.crashed and not res.postcondition_false):
                break
            m = re.search(r'<<\s*"TRACE_REJECTED".*?(?=\nError|\Z)', res.out, re.S)
            ev, cls = classify(m.group(0)[:2500] if m else res.out[-2500:])
            if prop in cls.split("+") or ev not in PURE or ev in relax or len(relax) >= 3:
                break
            print("OTHER-PROPERTY: this run breaks a clause of %s (event %s), not of %s; that guard is set aside and the "
                  "rest of the run examined" % (cls, ev, prop), flush=True)
            ctx.notes.setdefault("other_property_rejections", []).append({"class": cls, "event": ev, "scenario": r["scenario"],
                                                                           "relaxed": True})
            relax.append(ev)
        return r, res

    accepted = 0
    states = 0
    with ThreadPoolExecutor(max_workers=max(2, NCPU // 2)) as ex:
        for r, res in ex.map(one, todo):
            if res.ok and "TRACE_OK" in res.out:
                accepted += 1
                states += res.distinct
                continue
            if res.crashed and not res.postcondition_false:
                raise Inconclusive("TLC failed validating %s:\n%s" % (r["scenario"], res.out[-3000:]))
            m = re.search(r'<<\s*"TRACE_REJECTED".*?(?=\nError|\Z)', res.out, re.S)
            detail = m.group(0)[:2500] if m else res.out[-2500:]
            ev, cls = classify(detail)
            os.makedirs(ctx.replay_dir, exist_ok=True)
            dst = os.path.join(ctx.replay_dir, os.path.basename(r["trace"]))
            import shutil
            shutil.copy(r["trace"], dst)
            msg = "run {%s}: recorded execution of the real nsqd is not a behaviour of NsqdAbs at event %s: %s" % (
                r["scenario"], ev, detail)
            if prop in cls.split("+"):
                ctx.violation(msg, dst, key="trace:%s" % ev)
            else:
                print("OTHER-PROPERTY: this run breaks a clause of %s (event %s), not of %s; run not counted"
                      % (cls, ev, prop), flush=True)
                ctx.notes.setdefault("other_property_rejections", []).append({"class": cls, "event": ev,
                                                                               "scenario": r["scenario"]})
    ctx.cov["traces_validated_against_impl"] += accepted
    ctx.cov["transitions"] += states
    ctx.cov["states"] += states
    log("%s: %d/%d recorded runs accepted by NsqdAbs" % (what, accepted, len(todo)))
    return accepted


def ledger(ctx, prop, runs):
    """Black-box failures reported by the harness itself, tagged with the property they speak for."""
    n_ok = 0
    for r in runs:
        if r.get("inconclusive"):
            ctx.notes.setdefault("inconclusive_runs", []).append(r["scenario"] + ": " + r["inconclusive"])
        else:
            n_ok += 1
        # a run that could not be completed still stands for what it had observed before it stopped
        for f in r.get("fails") or []:
            m = re.match(r"\[(C\d+)(?:/KNOWN ([^\]]+))?\] (.*)", f, re.S)
            cls, known, text = (m.group(1), m.group(2), m.group(3)) if m else (prop, None, f)
            if cls == prop:
                ctx.violation("run {%s}: %s" % (r["scenario"], text),
                              ctx.save_replay("ledger", {"scenario": r["scenario"], "failure": f}),
                              key=known or ("ledger:" + text[:40]))
            else:
                print("OTHER-PROPERTY: ledger failure for %s: %s" % (cls, text[:300]), flush=True)
    return n_ok


def run_modes(ctx, prop, plan):
    """plan: list of (mode, runs). Drives, applies the ledger, validates the traces."""
    total_ok = 0
    total = 0
    for mode, n in plan:
        runs = drive(ctx, mode, n)
        total += len(runs)
        ledger(ctx, prop, runs)
        total_ok += validate_runs(ctx, prop, runs, mode)
        ctx.cov["evaluations"] += sum(r.get("events", 0) for r in runs)
        for r in runs[:2]:
            ctx.sample({"scenario": r["scenario"], "events": r["events"], "published": r["published"],
                        "acked": r["acked"], "snapshots": r["snapshots"]})
    inc = len(ctx.notes.get("inconclusive_runs", []))
    if total_ok == 0:
        raise Inconclusive("no run could be validated (%d inconclusive of %d): %s" % (
            inc, total, ctx.notes.get("inconclusive_runs", [])[:3]))
    ctx.notes["runs"] = total
    ctx.notes["runs_validated"] = total_ok
    if total_ok * 2 < total and not ctx.violations:
        # most runs could not be completed: whatever makes them fail is hiding what they would have shown
        raise Inconclusive("only %d of %d driver runs could be completed and validated: %s" % (
            total_ok, total, ctx.notes.get("inconclusive_runs", [])[:3]))
    return total_ok


# ---------------------------------------------------------------------------------------------------------------
# The repository's OWN tests as a trace corpus: nsqd's test binary is built with the hooks on, every listed test
# runs in a process of its own with the raw event sink (VERIF_TRACE_FILE), the events of each nsqd instance are one
# trace, and TLC checks it against NsqdAbs like a driver run.  The tests' own assertions are not what is judged
# here (that is the suite's job); the point is that executions the suite already produces are held against every
# clause of the specification at every step.  lib/repo_tests_nsqd.txt lists the tests that go through nsqd's
# public interfaces (a few white-box tests call Channel methods with messages that were never published: those
# are not behaviours of the system and are not listed, nor are two sampling tests whose traces are too long).
def repo_tests(ctx, prop, lanes=3):
    names = [l.strip() for l in open(os.path.join(vlib.VERIF, "lib", "repo_tests_nsqd.txt")) if l.strip()]
    tb = os.path.join(ctx.scratch, "nsqd.test")
    p = subprocess.run(["go", "test", "-tags", "verif", "-c", "-o", tb, "./nsqd"], cwd=vlib.REPO, env=ctx.goenv(),
                       capture_output=True, text=True)
    if p.returncode != 0:
        raise Inconclusive("building nsqd's test binary with -tags verif failed:\n" + (p.stdout + p.stderr)[-2000:])
    have = set(subprocess.run([tb, "-test.list", ".*"], capture_output=True, text=True, cwd=ctx.scratch).stdout.split())
    names = [n for n in names if n in have]
    h = ctx.harness("core")
    outdir = os.path.join(ctx.scratch, "repotests")
    os.makedirs(outdir, exist_ok=True)

    def run_one(name, tag=""):
        raw = os.path.join(outdir, "raw-%s%s.ndjson" % (name, tag))
        wd = os.path.join(outdir, "wd-%s%s" % (name, tag))
        os.makedirs(wd, exist_ok=True)
        shutil_copy_testdata(wd)
        try:
            r = subprocess.run([tb, "-test.run", "^%s$" % name, "-test.count=1"], cwd=wd, capture_output=True, text=True,
                               timeout=240, env=ctx.goenv({"VERIF_TRACE_FILE": raw}))
            rc = r.returncode
        except subprocess.TimeoutExpired:
            rc = -1
        tr = os.path.join(outdir, "trace-%s%s.ndjson" % (name, tag))
        if rc == 0 and os.path.exists(raw):
            subprocess.run([h, "rawconv", "--in", raw, "--out", tr], capture_output=True, text=True, cwd=ctx.scratch,
                           env=ctx.goenv())
        if os.path.exists(raw):
            os.unlink(raw)
        n = sum(1 for _ in open(tr)) if os.path.exists(tr) else 0
        return {"scenario": "repository test %s" % name, "test": name, "rc": rc, "trace": tr if n >= 3 else "",
                "events": n, "inconclusive": "" if rc == 0 else "the test itself did not pass (rc %s)" % rc}

    def shutil_copy_testdata(wd):
        # the TLS tests read ./test/certs relative to the package directory
        src = os.path.join(vlib.REPO, "nsqd", "test")
        dst = os.path.join(wd, "test")
        if os.path.isdir(src) and not os.path.exists(dst):
            import shutil
            shutil.copytree(src, dst)

    # tests that configure TLS listen on the fixed default HTTPS port: one lane for them, run one after the other
    fixed = [n for n in names if re.search(r"TLS|HTTPS|Tls|Https", n)]
    rest = [n for n in names if n not in fixed]
    groups = [fixed] + [rest[i::lanes] for i in range(lanes)]
    runs = []
    with ThreadPoolExecutor(max_workers=len(groups)) as ex:
        for rs in ex.map(lambda g: [run_one(n) for n in g], groups):
            runs.extend(rs)
    failed = [r["test"] for r in runs if r["rc"] != 0]
    todo = [r for r in runs if r["trace"]]
    ctx.notes["repo_tests"] = {"listed": len(names), "with_trace": len(todo), "tests_not_passing": failed[:20]}

    def tlc_one(r):
        res = ctx.tlc("NsqdAbsTrace", "NsqdAbsTrace.cfg", workers=1, timeout=900, jvm=["-Xss512m", "-Xmx3g"],
                      files={r["trace"]: "trace.ndjson"}, label="trace:repo-tests", private=True, record=False)
        return r, res

    def verdict(res):
        if res.ok and "TRACE_OK" in res.out:
            return "ok", ""
        if res.crashed and not res.postcondition_false:
            return "tlc-failed", res.out[-1500:]
        m = re.search(r'<<\s*"TRACE_REJECTED".*?(?=\nError|\Z)', res.out, re.S)
        return "rejected", (m.group(0)[:2500] if m else res.out[-2500:])

    accepted = states = events = 0
    with ThreadPoolExecutor(max_workers=max(2, NCPU // 2)) as ex:
        results = list(ex.map(tlc_one, todo))
    for r, res in results:
        v, detail = verdict(res)
        if v == "ok":
            accepted += 1
            states += res.distinct
            events += r["events"]
            continue
        if v == "tlc-failed":
            ctx.notes.setdefault("repo_tests_unjudged", []).append(r["test"])
            continue
        # a rejection must reproduce: the same test twice more, rejected again both times at an event of the same
        # class -- a test's scheduling varies from run to run and one odd interleaving is not yet a verdict
        ev, cls = classify(detail)
        again = 0
        for k in (1, 2):
            r2 = run_one(r["test"], "-r%d" % k)
            if not r2["trace"]:
                continue
            _, res2 = tlc_one(r2)
            v2, d2 = verdict(res2)
            if v2 == "rejected" and classify(d2)[1] == cls:
                again += 1
        if again < 2:
            ctx.notes.setdefault("repo_tests_unreproduced", []).append({"test": r["test"], "event": ev, "class": cls})
            continue
        os.makedirs(ctx.replay_dir, exist_ok=True)
        dst = os.path.join(ctx.replay_dir, "repotest-%s.ndjson" % r["test"])
        import shutil
        shutil.copy(r["trace"], dst)
        msg = "%s: its recorded execution is not a behaviour of NsqdAbs at event %s (3 of 3 runs): %s" % (r["scenario"], ev, detail)
        if prop in cls.split("+"):
            ctx.violation(msg, dst, key="repotest:%s:%s" % (r["test"], ev))
        else:
            print("OTHER-PROPERTY: %s breaks a clause of %s (event %s), not of %s" % (r["scenario"], cls, ev, prop), flush=True)
    ctx.cov["traces_validated_against_impl"] += accepted
    ctx.cov["states"] += states
    ctx.cov["transitions"] += states
    ctx.cov["evaluations"] += events
    log("repo-tests: %d/%d traces of nsqd's own tests accepted by NsqdAbs (%d events)" % (accepted, len(todo), events))
    return accepted


def queue_scan(ctx, prop, runs, model=True):
    """The scheduler behind every deadline (queueScanLoop / queueScanWorker): QueueScan.tla model-checked (selection, pool,
    no idle spin, every due channel eventually scanned under a fair sampler), then real runs with more channels than
    the selection count, channel churn and pool resizes: lateness of every pick-up measured on the client side
    (property level), the recorded scheduler events validated against QueueScanTrace (implementation level)."""
    import subprocess
    from concurrent.futures import ThreadPoolExecutor
    if model:
        ctx.model_check("QueueScan", "QueueScan_mc.cfg", timeout=600)
        r = ctx.tlc("QueueScan", "QueueScan_live.cfg", timeout=900, label="QueueScan liveness (fair sampler)")
        if not r.ok:
            raise Inconclusive("QueueScan_live.cfg: %s\n%s" % (r.violated, r.out[-1500:]))
        ctx.cov["states"] += r.distinct
        ctx.cov["transitions"] += r.generated
    h = ctx.harness("core")

    def one(i):
        d = os.path.join(ctx.scratch, "qscan-%d" % i)
        os.makedirs(d, exist_ok=True)
        rep, tr = os.path.join(d, "report.json"), os.path.join(d, "trace.ndjson")
        try:
            p = subprocess.run([h, "qscan", "--seed", str(ctx.seed * 1000 + i), "--out", tr, "--report", rep, "--dir", d],
                               cwd=ctx.scratch, env=ctx.goenv(), capture_output=True, text=True, timeout=300)
        except subprocess.TimeoutExpired:
            return None, "timeout"
        if not os.path.exists(rep):
            return None, (p.stdout + p.stderr)[-1500:]
        return json.load(open(rep)), (p.stdout + p.stderr)[-1500:]

    reports = []
    with ThreadPoolExecutor(max_workers=4) as ex:
        for rep, err in ex.map(one, range(runs)):
            if rep is None:
                if "panic:" in err or "fatal error:" in err:
                    ctx.violation("the daemon panicked in the queue-scan scenario: " + err[-600:],
                                  ctx.save_replay("qscan-crash", {"stderr": err}), key="qscan:crash")
                else:
                    ctx.notes.setdefault("inconclusive_runs", []).append("qscan: " + err[-300:])
                continue
            reports.append(rep)
    alltr = os.path.join(ctx.scratch, "qscan-all.ndjson")
    ok = 0
    with open(alltr, "w") as out:
        for rep in reports:
            if rep.get("inconclusive"):
                ctx.notes.setdefault("inconclusive_runs", []).append(rep["scenario"] + ": " + rep["inconclusive"])
                continue
            for f in rep.get("fails") or []:
                tags = re.findall(r"\[(C\d+)\]", f[:20])
                text = re.sub(r"^(\[C\d+\])+ ", "", f)
                if prop in tags:
                    ctx.violation("run {%s}: %s" % (rep["scenario"], text), ctx.save_replay("qscan-late", rep), key="qscan:late")
                else:
                    print("OTHER-PROPERTY: queue-scan run breaks a clause of %s: %s" % ("+".join(tags), text[:200]), flush=True)
            ok += 1
            ctx.cov["evaluations"] += rep["events"]
            out.write(open(rep["trace"]).read())
    if ok == 0:
        raise Inconclusive("no queue-scan run completed: %s" % ctx.notes.get("inconclusive_runs", [])[:3])
    ctx.validate_trace("QueueScanTrace", "QueueScanTrace.cfg", alltr, ok, "queue-scan", timeout=1800, level="shape")
    ctx.notes["qscan_runs"] = [{k: rep[k] for k in ("scenario", "rounds", "rounds_without_tick", "refreshes", "deliveries", "worst_late_ms", "bound_ms")}
                               for rep in reports[:12]]
    for rep in reports[:2]:
        ctx.sample({"qscan_run": {k: rep[k] for k in ("scenario", "rounds", "deliveries", "worst_late_ms")}})


def pub_while_consuming(ctx, feats=None):
    """Connections that publish and consume at once, at full speed (the daemon's reader and writer goroutines of one
    connection working concurrently), with and without compression / TLS: a black-box ledger over every frame."""
    import json
    import os
    import subprocess
    from vlib import Inconclusive, log
    h = ctx.harness("core")
    total = 0
    for i, feat in enumerate(feats or (["", "snappy", "deflate", "tls"] if ctx.quick else ["", "snappy", "deflate", "tls"] * 4)):
        d = os.path.join(ctx.scratch, "pubsub-%d" % i)
        os.makedirs(d, exist_ok=True)
        rep = os.path.join(d, "report.json")
        try:
            p = subprocess.run([h, "pubsub", "--dir", d, "--seed", str(ctx.seed * 10 + i), "--feat", feat, "--dur",
                                "2s" if ctx.quick else "6s", "--report", rep], cwd=ctx.scratch, env=ctx.goenv(),
                               capture_output=True, text=True, timeout=300)
        except subprocess.TimeoutExpired:
            ctx.notes.setdefault("pubsub_inconclusive", []).append("timeout (%s)" % feat)
            continue
        if not os.path.exists(rep):
            if "panic:" in p.stderr and "nsqio/nsq/nsqd" in p.stderr:
                ctx.violation("the daemon panicked while connections were publishing and consuming at the same time (%s):\n%s"
                              % (feat or "plain", p.stderr[-1500:]), ctx.save_replay("pubsub-panic", {"stderr": p.stderr[-6000:]}),
                              key="pubsub:panic")
            else:
                ctx.notes.setdefault("pubsub_inconclusive", []).append((p.stdout + p.stderr)[-300:])
            continue
        R = json.load(open(rep))
        if R.get("inconclusive"):
            ctx.notes.setdefault("pubsub_inconclusive", []).append(R["inconclusive"])
            continue
        total += R["received"]
        ctx.notes.setdefault("pubsub", []).append({k: R[k] for k in ("negotiated", "conns", "published", "oks", "received", "seconds")})
        for f in (R.get("fails") or [])[:2]:
            ctx.violation("publish-while-consuming (%s): %s" % (feat or "plain", f),
                          ctx.save_replay("pubsub-%s" % (feat or "plain"), R), key="pubsub:" + f[:30])
    ctx.cov["evaluations"] += total
    log("publish-while-consuming: %d messages checked frame by frame" % total)
