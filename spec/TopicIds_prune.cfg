\* the pruning of the trace validation's state is exact also for a broken id source (Reuse = TRUE):
\* this configuration checks ONLY PruneExact and must pass
SPECIFICATION Spec
CONSTANTS
  Pubs = {p1, p2}
  Ids <- MCIds
  MaxId = 3
  Zero = 0
  Less <- IntLess
  MaxBatch = 2
  MaxCmds = 3
  Reuse = TRUE
INVARIANTS PruneExact
CHECK_DEADLOCK FALSE
