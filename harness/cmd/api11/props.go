package main

import (
	"fmt"
	"sort"
	"strings"
	"time"
)

func (r *Run) viol(key, format string, a ...interface{}) {
	r.Viol = append(r.Viol, Finding{Key: key, What: fmt.Sprintf(format, a...)})
}

func chanOf(c Cmd) string {
	if c.Op == "SUB" {
		return c.C
	}
	return ""
}

func cmdStr(c Cmd) string {
	s := c.Op
	if c.T != "-" && c.T != "" {
		s += " " + c.T
	}
	if c.Op == "SUB" {
		s += " " + c.C
	}
	if c.Body == "bad" {
		s += " (malformed body)"
	}
	if c.Op == "IDENTIFY_TLS" {
		s += " cert=" + c.Cert
	}
	return s
}

// checkProps evaluates the PROPERTY-LEVEL predicates of NsqdPolicy.tla on one observed step.
// Only observations are used (frames, closure, stub queries and their times, GET /stats).
func (r *Run) checkProps(i int, s *Step, o *StepObs, pre preState, class string) {
	pol := r.B.Policy
	op := s.C.Op
	where := fmt.Sprintf("policy %s, step %d %s", pol.Key(), i, cmdStr(s.C))
	effSame := o.Eff.Equal(pre.eff)
	took := !effSame || o.Frame == "response"
	tlsGated := pol.EffTLS() != "no" && !pre.tls && !isIdentify(op)
	wellFormed := s.C.Body != "bad" && (op != "SUB" || pre.st == "init")

	// NoCmdBeforeTLS
	if tlsGated {
		switch {
		case o.Frame != "error" || !o.Closed:
			r.viol("NoCmdBeforeTLS:"+op, "%s: TLS is required and the connection is plaintext, but the command was not refused with a fatal error (frame=%s %q closed=%v)", where, o.Frame, o.Msg, o.Closed)
		case !effSame:
			r.viol("NoCmdBeforeTLS:effect:"+op, "%s: refused for missing TLS but the registry changed %v -> %v", where, pre.eff, o.Eff)
		case o.NewQ != 0:
			r.viol("NoCmdBeforeTLS:query:"+op, "%s: refused for missing TLS but the auth server was queried", where)
		case o.Code != "E_INVALID":
			r.viol("NoCmdBeforeTLS:code:"+op, "%s: refused for missing TLS with %q instead of the documented E_INVALID", where, o.Msg)
		}
	}
	// TlsOnlyByHandshake: the harness completed a handshake with a certificate the policy does not accept
	if op == "IDENTIFY_TLS" && o.Code == "JSON+OK" && !pol.CertOK(s.C.Cert) {
		r.viol("ClientCertPolicy:"+pol.CertPol+":"+s.C.Cert, "%s: the TLS upgrade completed although the client certificate policy %q does not accept a %q certificate", where, pol.CertPol, s.C.Cert)
	}
	if !pol.Auth || !gated(op) {
		// DenialLeavesNoTrace for the remaining denial: AUTH refused
		if op == "AUTH" && o.Frame == "error" && !effSame {
			r.viol("DenialLeavesNoTrace:AUTH", "%s: AUTH was refused (%q) but the registry changed %v -> %v", where, o.Msg, pre.eff, o.Eff)
		}
		return
	}
	// NoPubSubBeforeAuth
	if !pre.authed {
		switch {
		case took:
			r.viol("NoPubSubBeforeAuth:"+op, "%s: executed before any successful AUTH (frame=%s %q, registry %v -> %v)", where, o.Frame, o.Msg, pre.eff, o.Eff)
		case o.Frame != "error" || !o.Closed:
			r.viol("NoPubSubBeforeAuth:fatal:"+op, "%s: before AUTH the command must be refused with a fatal error (frame=%s %q closed=%v)", where, o.Frame, o.Msg, o.Closed)
		case !tlsGated && wellFormed && o.Code != "E_AUTH_FIRST":
			r.viol("NoPubSubBeforeAuth:code:"+op, "%s: refused before AUTH with %q instead of the documented E_AUTH_FIRST", where, o.Msg)
		}
		return
	}
	// OnlyIfGranted: executed => the current (unexpired, re-fetched if need be) answer grants it
	var cur *okQuery
	refetched := o.NewQ > 0
	if refetched {
		cur = &okQuery{ans: o.Ans}
	} else {
		cur = pre.lastQ
	}
	if took {
		switch {
		case cur == nil || cur.ans.Kind != "ok":
			r.viol("OnlyIfGranted:noanswer:"+op, "%s: executed although the auth server's last answer was an error / there is none", where)
		case !Granted(cur.ans.Auths, s.C.T, chanOf(s.C)):
			r.viol("OnlyIfGranted:"+op, "%s: executed although the auth server's current answer %s does not grant it (registry %v -> %v, frame %s %q)", where, ansStr(cur.ans), pre.eff, o.Eff, o.Frame, o.Msg)
		case !refetched && class == "expired":
			r.viol("RefetchOnceExpired:"+op, "%s: executed on a cached answer (ttl %ds) that had certainly expired (%.3fs after it was received) without asking the auth server again", where, cur.ans.TTL, o.send.Sub(pre.lastQ.hi).Seconds())
		}
	}
	// DenialLeavesNoTrace / DenialIsDocumented
	if o.Frame == "error" && denialCodes[o.Code] {
		if !effSame {
			r.viol("DenialLeavesNoTrace:"+op, "%s: denied with %q but the registry changed %v -> %v", where, o.Msg, pre.eff, o.Eff)
		}
		if !o.Closed {
			r.viol("DenialIsFatal:"+op, "%s: denied with %q but the connection stayed open", where, o.Msg)
		}
	}
	if !tlsGated && wellFormed && o.Frame == "error" && !denialCodes[o.Code] {
		r.viol("DenialIsDocumented:"+op, "%s: a well-formed command was refused with %q, not one of E_AUTH_FIRST/E_UNAUTHORIZED/E_AUTH_FAILED", where, o.Msg)
	}
}

func (r *Run) checkHTTP(s *Step, o *StepObs, pre Effects) {
	pol := r.B.Policy
	where := fmt.Sprintf("policy %s, HTTP %s %s cert=%s", pol.Key(), s.C.T, s.C.C, s.C.Cert)
	if s.C.T == "http" {
		if pol.EffTLS() == "yes" && o.Status != 403 {
			r.viol("PlainHttpRefused:"+s.C.C, "%s: TLS is required but the plaintext port answered %d", where, o.Status)
		}
		if pol.EffTLS() == "http" && o.Status == 403 {
			r.viol("PlainHttpRefused:tcp-https:"+s.C.C, "%s: tcp-https mode serves plaintext HTTP, but the plaintext port answered 403", where)
		}
		if o.Status == 403 && !o.Eff.Equal(pre) {
			r.viol("PlainHttpRefused:effect", "%s: refused with 403 but the registry changed %v -> %v", where, pre, o.Eff)
		}
	} else if o.Status >= 200 && o.Status < 300 && !pol.CertOK(s.C.Cert) {
		r.viol("ClientCertPolicy:https:"+pol.CertPol+":"+s.C.Cert, "%s: served although the client certificate policy does not accept this certificate", where)
	}
}

func ansStr(a Answer) string {
	if a.Kind != "ok" {
		return a.Kind
	}
	parts := []string{}
	for _, z := range a.Auths {
		p := append([]string(nil), z.Perms...)
		sort.Strings(p)
		parts = append(parts, fmt.Sprintf("{topic %s, channels %s, %s}", z.Tp, z.Ch, strings.Join(p, "+")))
	}
	return fmt.Sprintf("[%s ttl=%ds]", strings.Join(parts, " "), a.TTL)
}

var cnOf = map[string]string{"none": "", "unsigned": "test.local", "signed": "nsq.io"}

// compare: the observed run against what TLC predicted for this behaviour (exact, implementation level).
func (r *Run) compare(method string) {
	for i := range r.Obs {
		s := &r.B.Steps[i]
		o := &r.Obs[i]
		exp := s.O
		if exp == nil || s.Post == nil {
			continue
		}
		where := fmt.Sprintf("policy %s, step %d %s", r.B.Policy.Key(), i, cmdStr(s.C))
		if s.Kind == "http" {
			if o.Status != s.Status {
				r.Drift = append(r.Drift, fmt.Sprintf("%s: status %d, spec says %d", where, o.Status, s.Status))
			}
			if !o.Eff.Equal(normPost(s.Post)) {
				r.Drift = append(r.Drift, fmt.Sprintf("%s: registry %v, spec says %v", where, o.Eff, normPost(s.Post)))
			}
			continue
		}
		if o.Frame != exp.Frame || o.Code != exp.Code {
			r.Drift = append(r.Drift, fmt.Sprintf("%s: answered %s %q, spec says %s %s %s", where, o.Frame, o.Msg, exp.Frame, exp.Code, o.Note))
		}
		if o.Closed != exp.Fatal {
			r.Drift = append(r.Drift, fmt.Sprintf("%s: closed=%v, spec says %v", where, o.Closed, exp.Fatal))
		}
		if o.TLS != s.Post.TLS {
			r.Drift = append(r.Drift, fmt.Sprintf("%s: tls=%v, spec says %v", where, o.TLS, s.Post.TLS))
		}
		if !o.Eff.Equal(normPost(s.Post)) {
			r.Drift = append(r.Drift, fmt.Sprintf("%s: registry %v, spec says %v", where, o.Eff, normPost(s.Post)))
		}
		if o.Nq != s.Post.Nq {
			r.Drift = append(r.Drift, fmt.Sprintf("%s: auth server has seen %d queries, spec says %d", where, o.Nq, s.Post.Nq))
		}
		if exp.Check == "fresh" || exp.Check == "expired" {
			if r.Class[i] != exp.Check {
				r.Drift = append(r.Drift, fmt.Sprintf("%s: measured cached answer %q, spec says %s", where, r.Class[i], exp.Check))
			}
		}
		if o.NewQ > 0 {
			wantTLS := "false"
			if s.Post.TLS {
				wantTLS = "true"
			}
			if o.QTLS != wantTLS || o.QCN != cnOf[s.Post.Peer] || o.QIP != "127.0.0.1" || !o.QSec || o.QMeth != method {
				r.Drift = append(r.Drift, fmt.Sprintf("%s: auth query carried tls=%s common_name=%q remote_ip=%q secret_ok=%v method=%s, spec says tls=%s common_name=%q remote_ip=127.0.0.1 method=%s",
					where, o.QTLS, o.QCN, o.QIP, o.QSec, o.QMeth, wantTLS, cnOf[s.Post.Peer], method))
			}
			if exp.Code == "AUTHJSON" && !strings.Contains(o.Msg, fmt.Sprintf(`"permission_count":%d`, len(s.A.Auths))) {
				r.Drift = append(r.Drift, fmt.Sprintf("%s: AUTH answered %q, spec says permission_count %d", where, o.Msg, len(s.A.Auths)))
			}
		}
	}
	if len(r.Obs) != len(r.B.Steps) && r.Void == "" && !r.Truncated {
		r.Drift = append(r.Drift, fmt.Sprintf("policy %s: executed %d of %d steps", r.B.Policy.Key(), len(r.Obs), len(r.B.Steps)))
	}
}

var _ = time.Second
