package main

import (
	"bufio"
	"bytes"
	"encoding/json"
	"flag"
	"fmt"
	"math/rand"
	"os"
	"sort"
	"sync"
	"time"

	"github.com/nsqio/nsq/verifharness/hlib"
)

func init() {
	subcmds["replay"] = func(a []string) int { return drive(a, false) }
	subcmds["random"] = func(a []string) int { return drive(a, true) }
}

type violationOut struct {
	Finding
	Behaviour *Behaviour `json:"behaviour"`
	Obs       []StepObs  `json:"observed"`
	Prefix    string     `json:"prefix"`
}

type report struct {
	Mode          string                   `json:"mode"`
	Behaviours    int                      `json:"behaviours"`
	Steps         int                      `json:"steps"`
	Daemons       int                      `json:"daemons"`
	Policies      int                      `json:"policies"`
	Retries       int                      `json:"retries"`
	Unreplayable  []string                 `json:"unreplayable"`
	UnreplayableN int                      `json:"unreplayable_count"`
	Queries       int                      `json:"auth_queries"`
	Refetches     int                      `json:"refetches"`
	Denials       int                      `json:"denials"`
	TLSUpgrades   int                      `json:"tls_upgrades"`
	DistinctCases int                      `json:"distinct_cases"`
	CaseCounts    map[string]int           `json:"case_counts"`
	Violations    []violationOut           `json:"violations"`
	ViolationKeys map[string]int           `json:"violation_keys"`
	Drift         []string                 `json:"drift"`
	DriftCount    int                      `json:"drift_count"`
	Traces        int                      `json:"traces"`
	TraceEvents   int                      `json:"trace_events"`
	Samples       []map[string]interface{} `json:"samples"`
	Foreign       []string                 `json:"foreign_queries,omitempty"`
	Inconclusive  string                   `json:"inconclusive,omitempty"`
	WallS         float64                  `json:"wall_s"`
}

type job struct {
	b       *Behaviour
	attempt int
}

func drive(args []string, random bool) int {
	fs := flag.NewFlagSet("api11", flag.ExitOnError)
	in := fs.String("behaviours", "", "file with one behaviour printed by TLC per line (replay)")
	n := fs.Int("n", 1000, "number of random behaviours (random)")
	maxLen := fs.Int("len", 6, "commands per random behaviour")
	seed := fs.Int64("seed", 1, "seed")
	certDir := fs.String("certs", "/repo/nsqd/test/certs", "certificate directory")
	scratch := fs.String("scratch", ".", "scratch directory")
	rep := fs.String("report", "report.json", "report output")
	trace := fs.String("trace", "trace.ndjson", "trace output")
	maxTrace := fs.Int("max-trace", 40000, "max trace events written for TLC")
	batch := fs.Int("batch", 200, "behaviours per nsqd instance")
	par := fs.Int("daemons", 10, "nsqd instances at a time")
	fs.Parse(args)
	start := time.Now()

	certs, err := LoadCerts(*certDir)
	if err != nil {
		fmt.Fprintln(os.Stderr, "certs:", err)
		return 2
	}
	var behs []*Behaviour
	if random {
		rng := rand.New(rand.NewSource(*seed))
		for i := 0; i < *n; i++ {
			behs = append(behs, genRandom(rng, *maxLen))
		}
	} else {
		f, err := os.Open(*in)
		if err != nil {
			fmt.Fprintln(os.Stderr, err)
			return 2
		}
		sc := bufio.NewScanner(f)
		sc.Buffer(make([]byte, 1<<20), 1<<26)
		for sc.Scan() {
			line := bytes.TrimSpace(sc.Bytes())
			if len(line) == 0 {
				continue
			}
			b := &Behaviour{}
			if err := json.Unmarshal(line, b); err != nil {
				fmt.Fprintln(os.Stderr, "behaviours:", err)
				return 2
			}
			behs = append(behs, b)
		}
		f.Close()
		if sc.Err() != nil {
			fmt.Fprintln(os.Stderr, "behaviours:", sc.Err())
			return 2
		}
	}
	for i, b := range behs {
		b.id = i
	}
	R := &report{Mode: "replay", CaseCounts: map[string]int{}, ViolationKeys: map[string]int{}}
	if random {
		R.Mode = "random"
	}
	w, err := hlib.NewNDJSON(*trace)
	if err != nil {
		fmt.Fprintln(os.Stderr, err)
		return 2
	}
	// trace budget: spread over the behaviours (every k-th), all of them when they fit
	totalSteps := 0
	for _, b := range behs {
		totalSteps += len(b.Steps) + 1
	}
	every := 1
	if totalSteps > *maxTrace {
		every = (totalSteps + *maxTrace - 1) / *maxTrace
	}

	var mu sync.Mutex
	driftSeen := map[string]bool{}
	policies := map[string]bool{}
	finish := func(r *Run, method string) {
		if !random {
			r.compare(method)
		}
		mu.Lock()
		defer mu.Unlock()
		R.Behaviours++
		policies[r.B.Policy.Key()] = true
		for i := range r.Obs {
			o := &r.Obs[i]
			s := &r.B.Steps[i]
			R.Steps++
			R.Queries += o.NewQ
			if o.NewQ > 0 && s.C.Op != "AUTH" {
				R.Refetches++
			}
			if o.Frame == "error" && (denialCodes[o.Code] || (r.B.Policy.EffTLS() != "no" && !o.TLS && o.Code == "E_INVALID")) {
				R.Denials++
			}
			if o.Code == "JSON+OK" {
				R.TLSUpgrades++
			}
			cl := ""
			if i < len(r.Class) {
				cl = r.Class[i]
			}
			key := fmt.Sprintf("%s|%s|%s|%s|%d|%s", r.B.Policy.Key(), s.C.Op, o.Frame, o.Code, o.Status, cl)
			R.CaseCounts[key]++
		}
		for _, v := range r.Viol {
			R.ViolationKeys[v.Key]++
			if R.ViolationKeys[v.Key] <= 3 && len(R.Violations) < 60 {
				R.Violations = append(R.Violations, violationOut{Finding: v, Behaviour: r.B, Obs: r.Obs, Prefix: r.Prefix})
			}
		}
		for _, dmsg := range r.Drift {
			R.DriftCount++
			if len(R.Drift) < 40 && !driftSeen[dmsg] {
				driftSeen[dmsg] = true
				R.Drift = append(R.Drift, dmsg)
			}
		}
		if r.B.id%every == 0 && len(r.Obs) > 0 {
			writeTrace(w, r)
			R.Traces++
		}
		if len(R.Samples) < 8 && len(r.Obs) > 1 && (r.B.id%(len(behs)/8+1) == 0) {
			R.Samples = append(R.Samples, map[string]interface{}{"policy": r.B.Policy, "steps": sampleSteps(r)})
		}
	}

	// group by policy, cut into batches, one real nsqd per batch
	byPol := map[string][]*Behaviour{}
	var keys []string
	for _, b := range behs {
		k := b.Policy.Key()
		if _, ok := byPol[k]; !ok {
			keys = append(keys, k)
		}
		byPol[k] = append(byPol[k], b)
	}
	sort.Strings(keys)
	type batchT struct {
		jobs []job
	}
	mkBatches := func(jobsByPol map[string][]job, size int) []batchT {
		var out []batchT
		for _, k := range keys {
			js := jobsByPol[k]
			for len(js) > 0 {
				m := size
				if m > len(js) {
					m = len(js)
				}
				out = append(out, batchT{jobs: js[:m]})
				js = js[m:]
			}
		}
		return out
	}
	jobsByPol := map[string][]job{}
	for _, k := range keys {
		for _, b := range byPol[k] {
			jobsByPol[k] = append(jobsByPol[k], job{b: b})
		}
	}
	daemonIdx := 0
	const rounds = 5
	for round := 0; round < rounds; round++ {
		size, p := *batch, *par
		if round > 0 { // retries: calmer and calmer
			size, p = *batch/(4*round)+1, *par/(2*round)+1
		}
		batches := mkBatches(jobsByPol, size)
		if len(batches) == 0 {
			break
		}
		var retry []job
		var rmu sync.Mutex
		sem := make(chan struct{}, p)
		var wg sync.WaitGroup
		var fatal string
		for _, bt := range batches {
			bt := bt
			daemonIdx++
			idx := daemonIdx
			wg.Add(1)
			sem <- struct{}{}
			go func() {
				defer wg.Done()
				defer func() { <-sem }()
				pol := bt.jobs[0].b.Policy
				d, err := StartDaemon(pol, *certDir, certs, *scratch, idx)
				if err != nil {
					rmu.Lock()
					fatal = fmt.Sprintf("nsqd with policy %s did not start: %v", pol.Key(), err)
					rmu.Unlock()
					return
				}
				mu.Lock()
				R.Daemons++
				mu.Unlock()
				var bw sync.WaitGroup
				for k, j := range bt.jobs {
					j := j
					bw.Add(1)
					delay := time.Duration(k) * 3 * time.Millisecond // no thundering herd on one daemon
					go func() {
						defer bw.Done()
						time.Sleep(delay)
						prefix := fmt.Sprintf("b%06da%d", j.b.id, j.attempt)
						last := round == rounds-1
						r := runBehaviour(d, j.b, prefix, random, !last)
						if r.Void != "" && !last {
							nj := job{b: j.b, attempt: j.attempt + 1}
							rmu.Lock()
							retry = append(retry, nj)
							rmu.Unlock()
							mu.Lock()
							R.Retries++
							mu.Unlock()
							return
						}
						if r.Void != "" {
							if r.lateEffect {
								// reproducible on every attempt: not lateness of the harness
								r.Viol = append(r.Viol, Finding{Key: "LateEffect", What: r.Void})
							} else {
								mu.Lock()
								R.Unreplayable = append(R.Unreplayable, fmt.Sprintf("%s %s: %s", j.b.Policy.Key(), behStr(j.b), r.Void))
								mu.Unlock()
								return
							}
						}
						finish(r, d.Method)
					}()
				}
				bw.Wait()
				if d.Stub != nil && d.Stub.Unknown > 0 {
					// a query carrying a secret none of this run's connections sent.  One of ours (b<id>a<attempt>)
					// would be nsqd inventing a query; anything else is another process on this machine that was
					// pointed at a port the stub happened to get.
					mu.Lock()
					msg := fmt.Sprintf("policy %s: %d auth queries with a secret no connection of this daemon sent: %v", pol.Key(), d.Stub.Unknown, d.Stub.UnknownSample)
					if d.Stub.UnknownOurs > 0 {
						R.Drift = append(R.Drift, msg)
						R.DriftCount++
					} else {
						R.Foreign = append(R.Foreign, msg)
					}
					mu.Unlock()
				}
				d.Stop()
			}()
		}
		wg.Wait()
		if fatal != "" {
			R.Inconclusive = fatal
			break
		}
		jobsByPol = map[string][]job{}
		for _, j := range retry {
			k := j.b.Policy.Key()
			jobsByPol[k] = append(jobsByPol[k], j)
		}
	}
	w.Close()
	R.TraceEvents = w.N
	R.Policies = len(policies)
	R.DistinctCases = len(R.CaseCounts)
	R.WallS = time.Since(start).Seconds()
	R.UnreplayableN = len(R.Unreplayable)
	if len(R.Unreplayable) > len(behs)/50+3 && R.Inconclusive == "" {
		R.Inconclusive = fmt.Sprintf("%d of %d behaviours could not be replayed (timing)", len(R.Unreplayable), len(behs))
	}
	if len(R.Unreplayable) > 30 {
		R.Unreplayable = append(R.Unreplayable[:30], fmt.Sprintf("... and %d more", len(R.Unreplayable)-30))
	}
	hlib.WriteJSON(*rep, R)
	if len(R.Violations) > 0 {
		return 1
	}
	if R.Inconclusive != "" {
		return 2
	}
	return 0
}

func behStr(b *Behaviour) string {
	s := ""
	for i, st := range b.Steps {
		if i > 0 {
			s += "; "
		}
		if st.W > 0 {
			s += fmt.Sprintf("wait %d ticks, ", st.W)
		}
		if st.Kind == "http" {
			s += fmt.Sprintf("HTTP %s %s cert=%s", st.C.T, st.C.C, st.C.Cert)
		} else {
			s += cmdStr(st.C)
		}
		if st.A.Kind != "none" {
			s += " <- " + ansStr(st.A)
		}
	}
	return s
}

func sampleSteps(r *Run) []map[string]interface{} {
	var out []map[string]interface{}
	for i := range r.Obs {
		s, o := &r.B.Steps[i], &r.Obs[i]
		m := map[string]interface{}{"cmd": cmdStr(s.C), "at_quarter_s": s.N, "answered": o.Frame + " " + o.Code,
			"closed": o.Closed, "auth_queries": o.Nq, "registry": o.Eff}
		if o.NewQ > 0 {
			m["auth_server_said"] = ansStr(o.Ans)
		}
		if s.Kind == "http" {
			m["status"] = o.Status
		}
		out = append(out, m)
	}
	return out
}

func ansJSON(a Answer) map[string]interface{} {
	auths := []map[string]interface{}{}
	for _, z := range a.Auths {
		p := z.Perms
		if p == nil {
			p = []string{}
		}
		auths = append(auths, map[string]interface{}{"tp": z.Tp, "ch": z.Ch, "perms": p})
	}
	return map[string]interface{}{"kind": a.Kind, "auths": auths, "ttl": a.TTL}
}

// writeTrace: one Reset line carrying the policy, then one line per executed step with what was OBSERVED.
func writeTrace(w *hlib.NDJSON, r *Run) {
	w.Put(map[string]interface{}{"ev": "Reset", "policy": r.B.Policy})
	for i := range r.Obs {
		s, o := &r.B.Steps[i], &r.Obs[i]
		ev := "Cmd"
		if s.Kind == "http" {
			ev = "Http"
		}
		frame := o.Frame
		if frame == "eof" {
			frame = "none"
		}
		w.Put(map[string]interface{}{"ev": ev, "c": s.C, "n": s.N, "a": ansJSON(o.Ans), "frame": frame, "code": o.Code,
			"closed": o.Closed, "tls": o.TLS, "nq": o.Nq, "topics": o.Eff.Topics, "chans": o.Eff.Chans, "enq": o.Eff.Enq,
			"status": o.Status})
	}
}

// ---- random behaviours ---------------------------------------------------------------------------

func allPolicies() []Policy {
	var out []Policy
	for _, req := range []string{"no", "http", "yes"} {
		for _, cfg := range []bool{false, true} {
			for _, auth := range []bool{false, true} {
				for _, cp := range []string{"none", "require", "verify"} {
					if (req != "no" || cp != "none") && !cfg {
						continue
					}
					out = append(out, Policy{TLSReq: req, TLSCfg: cfg, Auth: auth, CertPol: cp})
				}
			}
		}
	}
	return out
}

func randAnswer(rng *rand.Rand) Answer {
	switch x := rng.Intn(100); {
	case x < 10:
		return Answer{Kind: "err", Auths: []Authz{}}
	case x < 15:
		return Answer{Kind: "ok", Auths: []Authz{}, TTL: 1 + rng.Intn(2)}
	}
	n := 1 + rng.Intn(3)
	a := Answer{Kind: "ok", TTL: 1 + rng.Intn(2)}
	seen := map[string]bool{}
	for i := 0; i < n; i++ {
		z := Authz{Tp: []string{"t1", "t2", "any"}[rng.Intn(3)], Ch: []string{"c1", "c2", "any", "none"}[rng.Intn(4)], Perms: []string{}}
		if rng.Intn(3) > 0 {
			z.Perms = append(z.Perms, "publish")
		}
		if rng.Intn(3) > 0 {
			z.Perms = append(z.Perms, "subscribe")
		}
		k := fmt.Sprint(z)
		if seen[k] {
			continue
		}
		seen[k] = true
		a.Auths = append(a.Auths, z)
	}
	return a
}

func genRandom(rng *rand.Rand, maxLen int) *Behaviour {
	pols := allPolicies()
	b := &Behaviour{Family: "random", Policy: pols[rng.Intn(len(pols))]}
	p := b.Policy
	certs := []string{"none", "unsigned", "signed"}
	tb := []string{"t1", "t2"}
	cb := []string{"c1", "c2"}
	add := func(c Cmd, w int) {
		b.Steps = append(b.Steps, Step{C: c, W: w, Kind: "cmd", A: randAnswer(rng)})
	}
	plain := func(op string) Cmd { return Cmd{Op: op, T: "-", C: "-", Body: "-", Cert: "-"} }
	tlsDone := false
	if p.TLSCfg && (p.EffTLS() != "no" || rng.Intn(2) == 0) && rng.Intn(10) > 0 {
		cert := certs[rng.Intn(3)]
		if rng.Intn(10) < 8 {
			for !p.CertOK(cert) {
				cert = certs[rng.Intn(3)]
			}
		}
		add(Cmd{Op: "IDENTIFY_TLS", T: "-", C: "-", Body: "-", Cert: cert}, 0)
		tlsDone = true
	}
	authPlanned := false
	if p.Auth && rng.Intn(10) < 8 {
		add(plain("AUTH"), 0)
		authPlanned = true
	}
	waits := 0
	for len(b.Steps) < maxLen {
		w := 0
		if authPlanned && waits < 2 && rng.Intn(3) == 0 {
			w = 2 + rng.Intn(2)
			waits++
		}
		body := "ok"
		if rng.Intn(8) == 0 {
			body = "bad"
		}
		switch x := rng.Intn(100); {
		case x < 20:
			add(Cmd{Op: "PUB", T: tb[rng.Intn(2)], C: "-", Body: body, Cert: "-"}, w)
		case x < 32:
			add(Cmd{Op: "MPUB", T: tb[rng.Intn(2)], C: "-", Body: body, Cert: "-"}, w)
		case x < 42:
			add(Cmd{Op: "DPUB", T: tb[rng.Intn(2)], C: "-", Body: body, Cert: "-"}, w)
		case x < 60:
			add(Cmd{Op: "SUB", T: tb[rng.Intn(2)], C: cb[rng.Intn(2)], Body: "-", Cert: "-"}, w)
		case x < 66:
			add(plain("NOP"), w)
		case x < 72:
			add(plain("IDENTIFY"), w)
		case x < 76:
			if !tlsDone {
				add(Cmd{Op: "IDENTIFY_TLS", T: "-", C: "-", Body: "-", Cert: certs[rng.Intn(3)]}, w)
				tlsDone = true
			} else {
				add(plain("NOP"), w)
			}
		case x < 82:
			add(plain("AUTH"), w)
			authPlanned = authPlanned || p.Auth
		case x < 86:
			add(plain("RDY"), w)
		case x < 90:
			add(plain([]string{"FIN", "REQ", "TOUCH"}[rng.Intn(3)]), w)
		case x < 96:
			add(plain("CLS"), w)
		default:
			add(plain("FOO"), w)
		}
	}
	n := 0
	for i := range b.Steps {
		n += b.Steps[i].W * 3
		b.Steps[i].N = n
	}
	return b
}
