SPECIFICATION HSpec
CONSTANTS
  Topics = {"t1", "t2"}
  Channels = {"c1"}
  MaxMsg = 2
  MaxBody = 14
  Deviations = {}
  MaxCnt = 9
  TextL = 8
  Depth = 2
  Requests <- ReqSet
  Alphabet = "seq"
  Prefixes <- PrefixesOne
CONSTRAINT Emit
INVARIANTS TypeOK Pumped Never500OnCompleteRequest
PROPERTIES Documented StepDocStatus StepTableConsistent StepHttpPubEqTcpPub RejectedPublishEnqueuesNothing ExactEffect
CHECK_DEADLOCK FALSE
