\* property-level trace validation (binding B): the state follows the observations, PropertyLevel is the invariant
SPECIFICATION TraceSpec
CONSTANTS
  Exact = FALSE
  Policies = {}
  Cmds = {}
  AnswersA = {}
  AnswersR = {}
  Waits = {}
  MaxDepth = 0
  MaxNow = 0
  HttpReqs = {}
CONSTRAINT HW
INVARIANTS PropertyLevel ExactLevel
POSTCONDITION TraceAccepted
CHECK_DEADLOCK FALSE
