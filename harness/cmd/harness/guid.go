package main

import (
	"encoding/json"
	"flag"
	"fmt"
	"math/rand"
	"os"
	"sync"
	"time"

	"github.com/nsqio/nsq/nsqd"
	"github.com/nsqio/nsq/verifharness/hlib"
)

// C12: message-id generator. Two modes:
//   guid-trace  : full-speed concurrent calls, hook events -> ndjson for GuidTrace.tla + Go-side ledger
//   guid-replay : TLC NewGUID edges (from the dumped state graph) replayed through the real generator
//                 by state injection.

const (
	twepoch  = int64(1288834974288)
	seqMaskR = int64(4095)
)

func unpack(id int64) (ts, node, sq int64) {
	return (id >> 22) + twepoch, (id >> 12) & 1023, id & 4095
}

type guidReport struct {
	Calls          int64                    `json:"calls"`
	Issued         int64                    `json:"issued"`
	Errs           map[string]int64         `json:"errs"`
	Rollovers      int64                    `json:"rollovers"`
	TraceEvents    int                      `json:"trace_events"`
	Traces         int                      `json:"traces"`
	Violations     []string                 `json:"violations"`
	Drift          []string                 `json:"drift"`
	Samples        []map[string]interface{} `json:"samples"`
	DistinctShapes int                      `json:"distinct_shapes"`
	Inconclusive   string                   `json:"inconclusive,omitempty"`
}

func init() {
	subcmds["guid-trace"] = guidTrace
	subcmds["guid-replay"] = guidReplay
}

func guidTrace(args []string) int {
	fs := flag.NewFlagSet("guid-trace", flag.ExitOnError)
	seed := fs.Int64("seed", 1, "seed")
	runs := fs.Int("runs", 8, "number of runs (each a Reset in the trace)")
	gor := fs.Int("goroutines", 8, "goroutines per run")
	per := fs.Int("per", 20000, "ids per goroutine")
	maxTrace := fs.Int("max-trace", 60000, "max events written for TLC (all events are checked by the ledger)")
	out := fs.String("out", "trace.ndjson", "trace output")
	rep := fs.String("report", "report.json", "report output")
	fs.Parse(args)

	rng := rand.New(rand.NewSource(*seed))
	nodes := []int64{0, 1, 511, 1023}
	w, err := hlib.NewNDJSON(*out)
	if err != nil {
		fmt.Fprintln(os.Stderr, err)
		return 2
	}
	report := guidReport{Errs: map[string]int64{}}
	shapes := map[string]bool{}
	perRunBudget := *maxTrace / *runs

	for run := 0; run < *runs; run++ {
		node := nodes[run%len(nodes)]
		f := nsqd.VerifNewGUIDFactory(node)
		rec := &hlib.Recorder{}
		rec.Install()
		var wg sync.WaitGroup
		results := make([][]int64, *gor)
		// some runs start from an injected state: clock stepped back (future lastTs) or sequence nearly exhausted
		mode := run % 4
		nowTs := time.Now().UnixNano() >> 20
		injected := false
		var injTs, injSq, injID int64
		switch mode {
		case 1:
			injTs, injSq = nowTs+int64(2+rng.Intn(4)), int64(rng.Intn(4096))
			injID = ((injTs - twepoch) << 22) | (node << 12) | injSq
			injected = true
		case 2:
			injTs, injSq = nowTs, 4090+int64(rng.Intn(6))
			injID = ((injTs - twepoch) << 22) | (node << 12) | injSq
			injected = true
		}
		if injected {
			f.Inject(injTs, injSq, injID)
		}
		for g := 0; g < *gor; g++ {
			wg.Add(1)
			go func(g int) {
				defer wg.Done()
				ids := make([]int64, 0, *per)
				for len(ids) < *per {
					id, err := f.NewGUID()
					if err != nil {
						// same policy as Topic.GenerateID: wait and retry
						time.Sleep(200 * time.Microsecond)
						continue
					}
					ids = append(ids, id)
				}
				results[g] = ids
			}(g)
		}
		wg.Wait()
		rec.Uninstall()
		evs := rec.Take()

		// ---- ledger (Go side, all events): per goroutine strictly increasing, globally unique
		seen := make(map[int64]struct{}, *gor**per)
		for g, ids := range results {
			var last int64 = -1 << 62
			for _, id := range ids {
				if id <= last {
					report.Violations = append(report.Violations, fmt.Sprintf("run %d goroutine %d: id %d not above previous %d", run, g, id, last))
				}
				last = id
				if _, dup := seen[id]; dup {
					report.Violations = append(report.Violations, fmt.Sprintf("run %d: id %d issued twice", run, id))
				}
				seen[id] = struct{}{}
				ts, nd, _ := unpack(id)
				if nd != node {
					// how an id encodes the node is the code's business, not the property's (one topic of one nsqd)
					if len(report.Drift) < 20 {
						report.Drift = append(report.Drift, fmt.Sprintf("run %d: id %d carries node %d, generator has %d", run, id, nd, node))
					}
				}
				_ = ts
			}
		}
		// hook order = lock order: issued ids strictly increase in that order
		var lastIssued int64 = -1 << 62
		var base int64 = -1
		for _, e := range evs {
			if e.Ev != "Guid" {
				continue
			}
			ts := hlib.KVInt(e, "ts")
			if base < 0 || ts-1 < base {
				if base < 0 {
					base = ts - 1
				}
			}
		}
		if injected && injTs-10 < base {
			base = injTs - 10
		}
		base -= 10
		w.Put(map[string]interface{}{"ev": "Reset"})
		written := 1
		if injected {
			its, inode, isq := unpack(injID)
			w.Put(map[string]interface{}{"ev": "Inject", "n": node, "lastTs": injTs - base, "sq": injSq,
				"idts": its - base, "idnode": inode, "idsq": isq})
			written++
		}
		for _, e := range evs {
			if e.Ev != "Guid" {
				continue
			}
			report.Calls++
			errS := hlib.KVStr(e, "err")
			id := hlib.KVInt(e, "id")
			if errS == "" {
				report.Issued++
				if id <= lastIssued {
					report.Violations = append(report.Violations, fmt.Sprintf("run %d: lock-order id %d not above %d", run, id, lastIssued))
				}
				lastIssued = id
			} else {
				report.Errs[errS]++
				if errS == "expired" {
					report.Rollovers++
				}
			}
			shapes[fmt.Sprintf("%s/%v/%v", errS, hlib.KVInt(e, "sq") == 0, hlib.KVInt(e, "sq") == 4095)] = true
			if written < perRunBudget {
				m := map[string]interface{}{"ev": "Guid", "n": hlib.KVInt(e, "node"), "ts": hlib.KVInt(e, "ts") - base,
					"lastTs": hlib.KVInt(e, "lastTs") - base, "sq": hlib.KVInt(e, "sq"), "err": errS,
					"idts": int64(0), "idnode": int64(0), "idsq": int64(0)}
				if errS == "" || errS == "idbackwards" {
					its, inode, isq := unpack(id)
					m["idts"], m["idnode"], m["idsq"] = its-base, inode, isq
				}
				w.Put(m)
				written++
				if len(report.Samples) < 6 && (errS != "" || written%5000 == 3) {
					report.Samples = append(report.Samples, m)
				}
			}
		}
		report.Traces++
	}
	w.Close()
	report.TraceEvents = w.N
	report.DistinctShapes = len(shapes)
	hlib.WriteJSON(*rep, report)
	if len(report.Violations) > 0 {
		return 1
	}
	return 0
}

// ---- replay of TLC edges -------------------------------------------------

type guidEdge struct {
	Clock  int64   `json:"clock"`
	LastTs int64   `json:"lastTs"`
	Sq     int64   `json:"sq"`
	LastID []int64 `json:"lastId"`
	Node   int64   `json:"node"`
	// expected
	Err     string  `json:"err"`
	LastTs2 int64   `json:"lastTs2"`
	Sq2     int64   `json:"sq2"`
	LastID2 []int64 `json:"lastId2"`
	RetID   []int64 `json:"retId"`
	SeqMask int64   `json:"seqMask"`
}

// concretise an abstract sequence value: top-aligned so that the abstract wrap point is the real one
func concSeq(s, mask int64) int64 {
	if s == 0 {
		return 0
	}
	return seqMaskR - (mask - s)
}

func guidReplay(args []string) int {
	fs := flag.NewFlagSet("guid-replay", flag.ExitOnError)
	in := fs.String("edges", "edges.json", "edges from TLC")
	rep := fs.String("report", "report.json", "report output")
	fs.Parse(args)
	data, err := os.ReadFile(*in)
	if err != nil {
		fmt.Fprintln(os.Stderr, err)
		return 2
	}
	var edges []guidEdge
	if err := json.Unmarshal(data, &edges); err != nil {
		fmt.Fprintln(os.Stderr, err)
		return 2
	}
	report := guidReport{Errs: map[string]int64{}}
	shapes := map[string]bool{}
	nodesR := []int64{0, 1, 511, 1023}
	// the abstract clock differences of an edge (lastTimestamp / the high-water mark relative to the clock) are replayed at
	// several magnitudes: one tick is one pseudo-millisecond, a stepped clock is seconds or days (the order is what the
	// abstraction keeps, so the predicted outcome is the same)
	scales := []int64{1, 2500, 90000000}
	for j := 0; j < len(edges)*len(scales); j++ {
		i, scale := j/len(scales), scales[j%len(scales)]
		e := edges[i]
		if scale != 1 && e.LastTs == e.Clock && e.LastTs2 == e.Clock && (e.LastID[0] == e.Clock || e.LastID[0] == 0) {
			continue // no clock difference in this edge
		}
		e.LastTs, e.LastTs2 = e.Clock+(e.LastTs-e.Clock)*scale, e.Clock+(e.LastTs2-e.Clock)*scale
		if !(e.LastID[0] == 0 && e.LastID[1] == 0 && e.LastID[2] == 0) {
			e.LastID = []int64{e.Clock + (e.LastID[0]-e.Clock)*scale, e.LastID[1], e.LastID[2]}
		}
		nodeR := nodesR[i%len(nodesR)]
		ok := false
		for attempt := 0; attempt < 20 && !ok; attempt++ {
			f := nsqd.VerifNewGUIDFactory(nodeR)
			T := time.Now().UnixNano() >> 20
			// an abstract pre-state with sq = 0 on the same tick and the +1 branch: real 0 -> 1, abstract 0 -> 1 (top-aligned: mask-? ) handled by comparing deltas
			preSq := concSeq(e.Sq, e.SeqMask)
			if e.Sq == 0 {
				preSq = 0
			}
			preTs := T + (e.LastTs - e.Clock)
			var preID int64
			if e.LastID[0] == 0 && e.LastID[1] == 0 && e.LastID[2] == 0 {
				preID = 0
			} else {
				idSq := concSeq(e.LastID[2], e.SeqMask)
				if e.LastID[2] == e.Sq {
					idSq = preSq
				}
				preID = ((T + (e.LastID[0] - e.Clock) - twepoch) << 22) | (nodeR << 12) | idSq
			}
			f.Inject(preTs, preSq, preID)
			rec := &hlib.Recorder{}
			rec.Install()
			tick0 := time.Now().UnixNano() >> 20
			id, gerr := f.NewGUID()
			tick1 := time.Now().UnixNano() >> 20
			rec.Uninstall()
			evs := rec.Take()
			// the call's clock reading is T if the clock said T just before AND just after it (whether or not the
			// code reported the reading through its hook)
			if tick0 != T || tick1 != T || (len(evs) == 1 && hlib.KVInt(evs[0], "ts") != T) {
				continue // the millisecond ticked between injection and call: retry
			}
			ok = true
			report.Calls++
			gotErr := ""
			switch gerr {
			case nil:
			case nsqd.ErrTimeBackwards:
				gotErr = "backwards"
			case nsqd.ErrSequenceExpired:
				gotErr = "expired"
			case nsqd.ErrIDBackwards:
				gotErr = "idbackwards"
			default:
				gotErr = gerr.Error()
			}
			lt, sq2, lid := f.State()
			// expected concrete post-state from the abstract edge
			expTs := T + (e.LastTs2 - e.Clock)
			var expSq int64
			switch {
			case e.Sq2 == 0:
				expSq = 0
			case e.Sq2 == e.Sq+1:
				expSq = preSq + 1
			default:
				expSq = concSeq(e.Sq2, e.SeqMask)
			}
			// property level (GuidAbs): a successful call must return an id above the high-water mark
			// and move the mark to it; a failing call must leave the mark alone
			if gerr == nil && (id <= preID || lid != id) {
				b, _ := json.Marshal(e)
				report.Violations = append(report.Violations, fmt.Sprintf("edge %d %s: returned id %d with high-water mark %d -> %d", i, b, id, preID, lid))
			} else if gerr != nil && lid != preID {
				b, _ := json.Marshal(e)
				report.Violations = append(report.Violations, fmt.Sprintf("edge %d %s: failed call moved the high-water mark %d -> %d", i, b, preID, lid))
			}
			bad := ""
			if gotErr != e.Err {
				bad = fmt.Sprintf("result %q, spec says %q", gotErr, e.Err)
			} else if lt != expTs {
				bad = fmt.Sprintf("lastTimestamp %d, spec says %d", lt-T, expTs-T)
			} else if sq2 != expSq {
				bad = fmt.Sprintf("sequence %d, spec says %d", sq2, expSq)
			} else if e.Err == "" {
				want := ((T - twepoch) << 22) | (nodeR << 12) | expSq
				if id != want || lid != want {
					bad = fmt.Sprintf("id %d / lastID %d, spec says %d", id, lid, want)
				}
			}
			shapes[fmt.Sprintf("%s/%d/%d/%d", e.Err, e.LastTs-e.Clock, e.Sq, e.Sq2)] = true
			if gotErr == "" {
				report.Issued++
			} else {
				report.Errs[gotErr]++
			}
			if bad != "" {
				b, _ := json.Marshal(e)
				report.Drift = append(report.Drift, fmt.Sprintf("edge %d %s: %s", i, b, bad))
			}
			if len(report.Samples) < 5 && i%(len(edges)/5+1) == 0 {
				report.Samples = append(report.Samples, map[string]interface{}{"edge": e, "real_err": gotErr, "real_sq": sq2})
			}
		}
		if !ok {
			report.Inconclusive = "could not pin the millisecond for an edge"
		}
	}
	report.DistinctShapes = len(shapes)
	hlib.WriteJSON(*rep, report)
	if len(report.Violations) > 0 {
		return 1
	}
	if report.Inconclusive != "" {
		return 2
	}
	return 0
}
