\* quick 1: one message, every option combination, interval + date rollover, SIGHUP, SIGTERM, kill and power loss
\* at every step, pre-existing and concurrently created colliding names
SPECIFICATION SpecK
CONSTANTS
  Msgs = {1}
  MaxInFlight = 1
  MaxNow = 2
  DatePeriod = 2
  MaxRev = 3
  MaxHups = 1
  MaxRestarts = 0
  MaxPower = 1
  PreNames <- PreNamesQ
  PreSize = 2
  ForeignNames <- ForeignQ
  MaxForeign = 0
  GzipAppendOnRestart = FALSE
  OptSet <- AllOpts
CONSTRAINT RevBound
ACTION_CONSTRAINT KillPoints
INVARIANTS TypeOK DurSane FinOnlyAfterDurable NothingOwedIsMissing FinqIsDurable Custody SyncOnOpenFile
PROPERTIES NeverOverwrite
CHECK_DEADLOCK FALSE
