"""C17 -- nsqadmin state-changing actions require an admin identity (spec: Admin, AdminTrace)."""
import json
import os
import shutil

from vlib import Inconclusive, log

META = {
    "technique": "TLC exhaustive check of Admin.tla (handler steps of nsqadmin/http.go with the identity and CIDR gates; "
                 "property as invariants over finished requests); every row of the finite gate table it enumerates "
                 "(route x method x identity x admin list x ACL header x mode x failing upstream; /config x client "
                 "address x allowed CIDR) replayed against the real nsqadmin with recording stub nsqd/nsqlookupd; "
                 "seeded random requests recorded and validated by TLC against AdminTrace.tla",
    "design_ref": "5/C17",
}


def run(ctx):
    quick = ctx.quick
    # 1. the model: gates, forwarding, totality; the same run prints the gate table (one ROW per finished request)
    cfg = "Admin_mc.cfg" if quick else "Admin_thorough.cfg"
    r = ctx.model_check("Admin", cfg, timeout=1500, workers=8)
    tlc_out = os.path.join(ctx.scratch, "admin-tlc.out")
    with open(tlc_out, "w") as f:
        f.write(r.out)
    nrows = r.out.count('\n<<"ROW", ')
    if nrows < 1000:
        raise Inconclusive("only %d table rows printed by TLC" % nrows)
    del r

    # 2. binding A: every row against the real nsqadmin
    rep_path = os.path.join(ctx.scratch, "gate-report.json")
    if ctx.replay and ctx.replay.endswith(".json"):
        rc, out, err = ctx.run_harness(["gate-replay", "--only", ctx.replay, "--report", rep_path], name="admin")
    else:
        rc, out, err = ctx.run_harness(["gate-replay", "--tlc-out", tlc_out, "--report", rep_path, "--parallel", 8],
                                       timeout=3000, name="admin")
    if rc == 2 or not os.path.exists(rep_path):
        raise Inconclusive("gate-replay: " + out[-2000:] + err[-4000:])
    R = json.load(open(rep_path))
    if R.get("error"):
        raise Inconclusive("gate-replay: " + R["error"])
    if R["executed"] != R["rows"]:
        raise Inconclusive("gate-replay executed %d of %d rows" % (R["executed"], R["rows"]))
    ctx.cov["evaluations"] += R["executed"]
    ctx.cov["distinct_nontrivial"] += R["nontrivial"]
    ctx.cov["exhaustive"] = not ctx.replay      # the finite gate table was replayed completely
    ctx.notes["gate_table"] = {"rows": R["rows"], "configurations": R["configs"], "via_socket": R["via_socket"],
                               "via_handler_with_remote_addr": R["via_handler"], "answers": R["by_status"],
                               "upstream_requests_recorded": R["upstream_requests"]}
    for s in (R["samples"] or [])[:6]:
        ctx.sample({"table_row": s})
    seen = set()
    for v in R["violations"] or []:
        if v["key"] in seen:
            continue
        seen.add(v["key"])
        ctx.violation("gate table row on the real nsqadmin: " + v["what"] + " -- request " + json.dumps(v["row"]["req"]) +
                      " config " + json.dumps(v["row"]["cfg"]),
                      ctx.save_replay("gate-" + v["key"], v), key=v["key"])
    # 2b. the state-changing rows once more over names that end in #ephemeral (valid names; the '#' must survive the trip
    #     to every nsqd and nsqlookupd), with identities spelt as distinguished names (alice = "CN=alice,OU=eng", mallory =
    #     "OU=eng": commas in the admin list, a non-admin whose name is a piece of an admin's)
    if not ctx.replay:
        rep2 = os.path.join(ctx.scratch, "gate-report-eph.json")
        rc, out, err = ctx.run_harness(["gate-replay", "--tlc-out", tlc_out, "--report", rep2, "--parallel", 8,
                                        "--name-suffix", "#ephemeral", "--mut-only", "--dn-identities"], timeout=3000, name="admin")
        if rc == 2 or not os.path.exists(rep2):
            raise Inconclusive("gate-replay (#ephemeral names): " + out[-2000:] + err[-4000:])
        R2 = json.load(open(rep2))
        if R2.get("error"):
            raise Inconclusive("gate-replay (#ephemeral names): " + R2["error"])
        ctx.cov["evaluations"] += R2["executed"]
        ctx.notes["gate_table_ephemeral_names"] = {"rows": R2["rows"], "answers": R2["by_status"]}
        for v in R2["violations"] or []:
            key = "ephemeral-names:" + v["key"]
            if key in seen:
                continue
            seen.add(key)
            ctx.violation("gate table row on the real nsqadmin, topic and channel names ending in #ephemeral: " + v["what"] +
                          " -- request " + json.dumps(v["row"]["req"]) + " config " + json.dumps(v["row"]["cfg"]),
                          ctx.save_replay("gate-eph-" + v["key"], v), key=key)
    if R["drift_count"]:
        d = R["drift"][0]
        ctx.drift("%d rows of the gate table differ from the real nsqadmin without breaking C17, e.g. %s: %s (request %s)" % (
            R["drift_count"], d["key"], d["what"], json.dumps(d["row"]["req"])))

    # 3. binding B: seeded random identities / routes / configurations, trace validated against the spec
    trace = os.path.join(ctx.scratch, "admin.ndjson")
    trep = os.path.join(ctx.scratch, "gate-trace.json")
    rc, out, err = ctx.run_harness(["gate-trace", "--seed", ctx.seed, "--n", 4000 if quick else 100000, "--out", trace,
                                    "--report", trep], timeout=1800, name="admin")
    if rc != 0 or not os.path.exists(trep):
        raise Inconclusive("gate-trace: " + out[-2000:] + err[-4000:])
    T = json.load(open(trep))
    ctx.cov["evaluations"] += T["requests"]
    ctx.notes["random_requests"] = {"requests": T["requests"], "configurations": T["traces"], "answers": T["by_status"]}
    for s in (T["samples"] or [])[:3]:
        ctx.sample({"random_request": s})
    ctx.validate_trace("AdminTrace", "AdminTrace.cfg", trace, T["traces"], "admin-gate", timeout=1800, key="trace")

    # 4. self-test of the binding: a trace with one upstream request moved under a 403 must be rejected
    bad = os.path.join(ctx.scratch, "admin-bad.ndjson")
    lines = open(trace).read().splitlines()
    for i, ln in enumerate(lines):
        if '"ev":"Resp"' in ln and '"status":403' in ln:
            lines.insert(i, json.dumps({"ev": "Up", "to": "L1", "m": "GET", "path": "/lookup", "topic": "t1",
                                        "channel": "", "node": ""}))
            break
    else:
        raise Inconclusive("no refused request in the random trace")
    with open(bad, "w") as f:
        f.write("\n".join(lines) + "\n")
    rr = ctx.tlc("AdminTrace", "AdminTrace.cfg", workers=1, timeout=900, files={bad: "trace.ndjson"}, record=False)
    if "TRACE_OK" in rr.out or not (rr.violated or rr.postcondition_false):
        raise Inconclusive("binding self-test failed: a corrupted trace was accepted by AdminTrace")
    ctx.notes["selftest_corrupted_trace_rejected"] = True

    ctx.cov["rule"] = ("evaluations = real HTTP requests handled by the real nsqadmin (all rows of the TLC-enumerated gate "
                       "table + seeded random requests); distinct_nontrivial = distinct table rows whose outcome depends on "
                       "a gate (state-changing routes and /config); the table is finite and was replayed completely")
    ctx.assumptions += [
        "stub nsqd/nsqlookupd answer from a static cluster (they do not change state on POST)",
        "client addresses that are not local to this machine (10.1.2.3, ::ffff:127.0.0.1, malformed) are delivered to the "
        "real handler with Request.RemoteAddr set; local ones (127/8, 192.0.2.2, ::1, fd00::2) use real sockets",
        "optional whitespace around a header value is not part of the identity (RFC 7230 3.2.4)",
    ]
