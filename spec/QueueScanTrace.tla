--------------------------- MODULE QueueScanTrace ---------------------------
(* Recorded runs of the real queueScanLoop / queueScanWorker (hook events    *)
(* QSRefresh QSTick QSBegin QSWork QSDone QSRound + the channels' own        *)
(* ScanIF / ScanDef pops) against the scheduler of QueueScan.tla:            *)
(*   every round hands out min(SelectionCount, n) DISTINCT channels of the   *)
(*   cached list, at most `pool` at a time; pool = clamp(n/4, 1, max) at     *)
(*   every refresh; a worker answers "dirty" exactly when its channel popped *)
(*   something; the loop goes round again without a tick exactly when more   *)
(*   than DirtyPercent of the answers were dirty, and a tick with channels   *)
(*   always starts a round.                                                  *)
EXTENDS Integers, Sequences, FiniteSets, TLC, Json

Trace == ndJsonDeserialize("trace.ndjson")
VARIABLES l, cached, pool, phase, num, sel, done, nd, popped
vars == <<l, cached, pool, phase, num, sel, done, nd, popped>>

E == Trace[l]
IsEvent(e) == l <= Len(Trace) /\ Trace[l].ev = e /\ l' = l + 1
Known == {"NsqdNew", "QSRefresh", "QSTick", "QSBegin", "QSWork", "QSDone", "QSRound", "ScanIF", "ScanDef"}
Min(a, b) == IF a <= b THEN a ELSE b
Clamp(n, mx) == IF n \div 4 < 1 THEN 1 ELSE Min(n \div 4, mx)
Range(s) == {s[i] : i \in DOMAIN s}

Init == /\ l = 1 /\ cached = {} /\ pool = 0 /\ phase = "wait" /\ num = 0 /\ sel = {} /\ done = {} /\ nd = 0 /\ popped = {}
        /\ TLCSet(1, 1) /\ TLCSet(2, <<>>)

Skip == l <= Len(Trace) /\ Trace[l].ev \notin Known /\ l' = l + 1
        /\ UNCHANGED <<cached, pool, phase, num, sel, done, nd, popped>>
Reset == IsEvent("NsqdNew") /\ cached' = {} /\ pool' = 0 /\ phase' = "wait" /\ num' = 0 /\ sel' = {} /\ done' = {} /\ nd' = 0
         /\ popped' = {}

Next ==
  \/ Skip \/ Reset
  \/ /\ IsEvent("QSRefresh") /\ phase = "wait"
     /\ Cardinality(Range(E.chans)) = Len(E.chans)
     /\ E.pool = Clamp(Len(E.chans), E.max)
     /\ cached' = Range(E.chans) /\ pool' = E.pool
     /\ UNCHANGED <<phase, num, sel, done, nd, popped>>
  \/ /\ IsEvent("QSTick") /\ phase = "wait" /\ E.n = Cardinality(cached)
     /\ phase' = IF E.n = 0 THEN "wait" ELSE "ticked"
     /\ UNCHANGED <<cached, pool, num, sel, done, nd, popped>>
  \/ /\ IsEvent("QSBegin") /\ phase \in {"ticked", "again"}
     /\ E.n = Cardinality(cached) /\ E.num = Min(E.count, E.n) /\ E.num > 0
     /\ num' = E.num /\ sel' = {} /\ done' = {} /\ nd' = 0 /\ popped' = {} /\ phase' = "collect"
     /\ UNCHANGED <<cached, pool>>
  \/ /\ IsEvent("QSWork") /\ phase = "collect"
     /\ E.c \in cached /\ E.c \notin sel /\ Cardinality(sel) < num
     /\ Cardinality((sel \cup {E.c}) \ done) <= pool
     /\ sel' = sel \cup {E.c}
     /\ UNCHANGED <<cached, pool, phase, num, done, nd, popped>>
  \/ /\ (IsEvent("ScanIF") \/ IsEvent("ScanDef"))
     /\ popped' = IF phase = "collect" /\ E.c \in sel \ done THEN popped \cup {E.c} ELSE popped
     /\ UNCHANGED <<cached, pool, phase, num, sel, done, nd>>
  \/ /\ IsEvent("QSDone") /\ phase = "collect" /\ E.c \in sel \ done
     /\ E.dirty = (E.c \in popped)
     /\ done' = done \cup {E.c} /\ nd' = IF E.dirty THEN nd + 1 ELSE nd
     /\ UNCHANGED <<cached, pool, phase, num, sel, popped>>
  \/ /\ IsEvent("QSRound") /\ phase = "collect"
     /\ done = sel /\ Cardinality(sel) = num /\ E.num = num /\ E.dirty = nd
     /\ phase' = IF nd * 100 > E.pct * num THEN "again" ELSE "wait"
     /\ UNCHANGED <<cached, pool, num, sel, done, nd, popped>>

TraceSpec == Init /\ [][Next]_vars

HW == IF l > TLCGet(1)
      THEN TLCSet(1, l) /\ TLCSet(2, [cached |-> cached, pool |-> pool, phase |-> phase, num |-> num, sel |-> sel, done |-> done, nd |-> nd, popped |-> popped])
      ELSE TRUE
TraceAccepted ==
  LET hw == TLCGet(1) IN
  IF hw = Len(Trace) + 1 THEN PrintT(<<"TRACE_OK", Len(Trace)>>)
  ELSE PrintT(<<"TRACE_REJECTED", hw, Trace[hw], TLCGet(2)>>) /\ FALSE
=============================================================================
