package main

import (
	"bufio"
	"bytes"
	"context"
	"encoding/hex"
	"encoding/json"
	"flag"
	"fmt"
	"io"
	"math/rand"
	"net"
	"os"
	"os/exec"
	"path/filepath"
	"strings"
	"sync"
	"time"

	"github.com/nsqio/nsq/nsqd"
	"github.com/nsqio/nsq/verifharness/hlib"
)

// Binding A for spec/ToNsq.tla: every input TLC enumerated (rows, symbolic over x / y / d) is concretised
// (bytes for x, y and the delimiter), piped into the REAL to_nsq binary publishing to 1..2 real nsqds, and
// what those nsqds then hold -- in order -- is compared with Records(input) as TLC computed it.

func init() { subcmds["tonsq"] = toNsq }

type tnCase struct {
	In    string   `json:"in"`    // symbolic input over x,y,d ("" when Raw is used)
	Rec   []string `json:"rec"`   // Records(input), symbolic (from TLC)
	AsIs  []string `json:"asis"`  // what the implementation-shaped reader with Trim="always" publishes (TLC)
	Fixed []string `json:"fixed"` // ... with Trim="ifdelim" (TLC)
	X     int      `json:"x"`
	Y     int      `json:"y"`
	D     int      `json:"d"`
	NDest int      `json:"ndest"`
	Rate  int      `json:"rate"` // --rate (throttled loop) when > 0
	// FailAfter >= 0: the (single, fake) destination accepts that many PUBs and refuses the next one; what it
	// accepted must be exactly the first FailAfter records (ToNsq.tla: PublishErr, InOrderExact)
	FailAfter *int   `json:"fail_after,omitempty"`
	raw       []byte // generated long input (expected from the Go reference)
	name      string
}

type tnJob struct {
	Bin     string   `json:"bin"`
	Seed    int64    `json:"seed"`
	Workers int      `json:"workers"`
	Cases   []tnCase `json:"cases"`
	Long    int      `json:"long"` // number of generated long inputs
}

type tnMismatch struct {
	Case     string   `json:"case"`
	InputHex string   `json:"input_hex"`
	Delim    int      `json:"delim"`
	NDest    int      `json:"ndest"`
	Expected []string `json:"expected_hex"`
	Got      []string `json:"got_hex_dest1"`
	Class    string   `json:"class"`
	Symbolic string   `json:"symbolic"`
}

type tnReport struct {
	Runs         int                      `json:"runs"`
	Distinct     int                      `json:"distinct_nontrivial"`
	RecordsSeen  int                      `json:"records_compared"`
	Mismatches   []tnMismatch             `json:"mismatches"`
	MismatchN    int                      `json:"mismatch_count"`
	ByClass      map[string]int           `json:"mismatch_by_class"`
	Shape        map[string]int           `json:"shape"` // which implementation-shaped reader the binary agrees with
	Samples      []map[string]interface{} `json:"samples"`
	Inconclusive []string                 `json:"inconclusive"`
	RefChecked   int                      `json:"reference_checked_against_tlc"`
	FailingDest  int                      `json:"runs_with_failing_destination"`
	ShapeNotes   []string                 `json:"shape_notes"`
}

// refRecords is the harness' own Records (used for generated inputs); it is compared with TLC's Records on
// every enumerated row before it is trusted.
func refRecords(in []byte, d byte) [][]byte {
	var out [][]byte
	cur := []byte{}
	for _, b := range in {
		if b == d {
			if len(cur) > 0 {
				out = append(out, cur)
			}
			cur = []byte{}
		} else {
			cur = append(cur, b)
		}
	}
	if len(cur) > 0 {
		out = append(out, cur)
	}
	return out
}

func conc(s string, c *tnCase) []byte {
	b := make([]byte, len(s))
	for i := 0; i < len(s); i++ {
		switch s[i] {
		case 'x':
			b[i] = byte(c.X)
		case 'y':
			b[i] = byte(c.Y)
		default:
			b[i] = byte(c.D)
		}
	}
	return b
}

func concAll(ss []string, c *tnCase) [][]byte {
	out := make([][]byte, 0, len(ss))
	for _, s := range ss {
		out = append(out, conc(s, c))
	}
	return out
}

func sameRecs(a, b [][]byte) bool {
	if len(a) != len(b) {
		return false
	}
	for i := range a {
		if !bytes.Equal(a[i], b[i]) {
			return false
		}
	}
	return true
}

func hexes(a [][]byte) []string {
	out := []string{}
	for i, r := range a {
		if i >= 12 {
			out = append(out, fmt.Sprintf("... %d more", len(a)-i))
			break
		}
		h := hex.EncodeToString(r)
		if len(h) > 80 {
			h = fmt.Sprintf("%s..(%d bytes)..%s", h[:32], len(r), h[len(h)-32:])
		}
		out = append(out, h)
	}
	return out
}

// genLong builds inputs whose records / delimiters straddle the 4096-byte refills of bufio.Reader, use every
// byte value, contain empty records, and end with or without a delimiter.
func genLong(rng *rand.Rand, i int) tnCase {
	delims := []int{'\n', ',', 0xff, ' ', 'a', '\r', 1}
	c := tnCase{D: delims[i%len(delims)], NDest: 1 + i%2, name: fmt.Sprintf("long%d", i)}
	var in []byte
	fill := func(n int) {
		for j := 0; j < n; j++ {
			b := byte(rng.Intn(256))
			if j < 256 {
				b = byte(j) // every byte value at least once in the first record that is long enough
			}
			if b == byte(c.D) {
				b = byte(c.D) + 1
			}
			in = append(in, b)
		}
	}
	nrec := 2 + rng.Intn(6)
	for r := 0; r < nrec; r++ {
		// choose the record length so that the delimiter lands just before / on / after a refill boundary
		off := len(in) % 4096
		target := []int{4095, 4096, 4097, 8191, 8192, 1, 0, 2}[rng.Intn(8)]
		n := target - off - 1
		for n < 0 {
			n += 4096
		}
		switch rng.Intn(6) {
		case 0:
			n = 0 // empty record
		case 1:
			n = rng.Intn(5)
		}
		fill(n)
		last := r == nrec-1
		if !last || rng.Intn(2) == 0 {
			in = append(in, byte(c.D))
		}
	}
	if i%7 == 3 { // one big record (well under nsqd's 1 MiB limit)
		fill(150000 + rng.Intn(50000))
	}
	c.raw = in
	return c
}

func toNsq(args []string) int {
	fs := flag.NewFlagSet("tonsq", flag.ExitOnError)
	jobPath := fs.String("job", "job.json", "job")
	repPath := fs.String("report", "report.json", "report")
	fs.Parse(args)
	var job tnJob
	jb, err := os.ReadFile(*jobPath)
	if err == nil {
		err = json.Unmarshal(jb, &job)
	}
	if err != nil {
		fmt.Fprintln(os.Stderr, "job:", err)
		return 2
	}
	if job.Workers <= 0 {
		job.Workers = 8
	}
	rng := rand.New(rand.NewSource(job.Seed))
	for i := 0; i < job.Long; i++ {
		job.Cases = append(job.Cases, genLong(rng, i))
	}
	tmp, err := os.MkdirTemp(filepath.Dir(*repPath), "tonsq-")
	if err != nil {
		fmt.Fprintln(os.Stderr, err)
		return 2
	}
	defer os.RemoveAll(tmp)
	var dests []*nsqd.NSQD
	for i := 0; i < 2; i++ {
		n, err := startNSQD(filepath.Join(tmp, fmt.Sprintf("dest%d", i)), nil)
		if err != nil {
			fmt.Fprintln(os.Stderr, "nsqd:", err)
			return 2
		}
		dests = append(dests, n)
		defer n.Exit()
	}

	rep := tnReport{ByClass: map[string]int{}, Shape: map[string]int{}}
	var mu sync.Mutex
	distinct := map[string]bool{}
	jobs := make(chan int)
	var wg sync.WaitGroup
	for w := 0; w < job.Workers; w++ {
		wg.Add(1)
		go func() {
			defer wg.Done()
			for i := range jobs {
				c := &job.Cases[i]
				runToNsqCase(job.Bin, i, c, dests, &rep, &mu, distinct)
			}
		}()
	}
	for i := range job.Cases {
		jobs <- i
	}
	close(jobs)
	wg.Wait()
	rep.Distinct = len(distinct)
	if err := hlib.WriteJSON(*repPath, rep); err != nil {
		fmt.Fprintln(os.Stderr, err)
		return 2
	}
	return 0
}

func runToNsqCase(bin string, idx int, c *tnCase, dests []*nsqd.NSQD, rep *tnReport, mu *sync.Mutex, distinct map[string]bool) {
	var input []byte
	var expected [][]byte
	name := c.name
	if c.raw != nil {
		input = c.raw
		expected = refRecords(input, byte(c.D))
	} else {
		name = fmt.Sprintf("row:%q x=%d y=%d d=%d", c.In, c.X, c.Y, c.D)
		input = conc(c.In, c)
		expected = concAll(c.Rec, c)
		if !sameRecs(expected, refRecords(input, byte(c.D))) {
			mu.Lock()
			rep.Inconclusive = append(rep.Inconclusive, "harness reference Records disagrees with TLC on "+name)
			mu.Unlock()
			return
		}
		mu.Lock()
		rep.RefChecked++
		mu.Unlock()
	}
	if c.FailAfter != nil {
		runToNsqFailing(bin, idx, c, name, input, expected, rep, mu, distinct)
		return
	}
	topic := fmt.Sprintf("c20t%d", idx)
	argv := []string{"-topic", topic}
	if c.D != '\n' || idx%2 == 0 {
		argv = append(argv, "-delimiter", string([]byte{byte(c.D)}))
	}
	if c.Rate > 0 {
		argv = append(argv, "-rate", fmt.Sprint(c.Rate))
	}
	for i := 0; i < c.NDest; i++ {
		argv = append(argv, "-nsqd-tcp-address", dests[i].RealTCPAddr().String())
	}
	ctx, cancel := context.WithTimeout(context.Background(), 120*time.Second)
	defer cancel()
	cmd := exec.CommandContext(ctx, bin, argv...)
	cmd.Stdin = bytes.NewReader(input)
	var stderr bytes.Buffer
	cmd.Stderr = &stderr
	err := cmd.Run()
	defer func() {
		for i := 0; i < c.NDest; i++ {
			waitNoClients(dests[i], topic, "c")
			_ = dests[i].DeleteExistingTopic(topic)
		}
	}()
	if ctx.Err() != nil {
		mu.Lock()
		rep.Inconclusive = append(rep.Inconclusive, fmt.Sprintf("to_nsq did not finish %s within 120 s", name))
		mu.Unlock()
		return
	}
	exitNote := ""
	if err != nil {
		// the destinations were up and accepting: what they hold is judged all the same
		exitNote = fmt.Sprintf(" (to_nsq exited with %v: %s)", err, tail(stderr.String(), 300))
	}
	got := make([][][]byte, c.NDest)
	for i := 0; i < c.NDest; i++ {
		st := dests[i].GetStats(topic, "", false)
		n := 0
		if len(st.Topics) == 1 {
			n = int(st.Topics[0].MessageCount)
		}
		if n > 0 {
			g, err := drainTopic(dests[i].RealTCPAddr().String(), topic, n, 120*time.Second)
			if err != nil {
				mu.Lock()
				rep.Inconclusive = append(rep.Inconclusive, fmt.Sprintf("reading back %s from dest %d: %v (%d of %d)", name, i, err, len(g), n))
				mu.Unlock()
				return
			}
			got[i] = g
		}
	}
	mu.Lock()
	defer mu.Unlock()
	rep.Runs++
	rep.RecordsSeen += len(expected) * c.NDest
	if len(input) > 0 {
		k := fmt.Sprintf("%s|%d|%d|%d", c.In, c.D, c.NDest, len(c.raw))
		if c.raw != nil {
			k = name
		}
		distinct[k] = true
	}
	ok := true
	for i := 0; i < c.NDest; i++ {
		if !sameRecs(got[i], expected) {
			ok = false
		}
	}
	if c.raw == nil && c.NDest >= 1 {
		a, f := sameRecs(got[0], concAll(c.AsIs, c)), sameRecs(got[0], concAll(c.Fixed, c))
		switch {
		case a && f:
			rep.Shape["both"]++
		case a:
			rep.Shape["trim_always_only"]++
		case f:
			rep.Shape["trim_ifdelim_only"]++
		default:
			rep.Shape["neither"]++
		}
	}
	if len(rep.Samples) < 6 && (idx%97 == 5 || c.raw != nil) {
		rep.Samples = append(rep.Samples, map[string]interface{}{"case": name, "input_len": len(input), "delim": c.D,
			"ndest": c.NDest, "expected_records": len(expected), "got_records_dest1": len(got[0]), "equal": ok})
	}
	if ok {
		return
	}
	// classify
	class := "other"
	name += exitNote
	if len(input) > 0 && input[len(input)-1] != byte(c.D) && len(expected) > 0 {
		stripped := make([][]byte, len(expected))
		copy(stripped, expected)
		last := stripped[len(stripped)-1]
		if len(last) == 1 {
			stripped = stripped[:len(stripped)-1]
		} else {
			stripped[len(stripped)-1] = last[:len(last)-1]
		}
		all := true
		for i := 0; i < c.NDest; i++ {
			if !sameRecs(got[i], stripped) {
				all = false
			}
		}
		if all {
			class = "unterminated-final-record-loses-last-byte"
		}
	}
	rep.MismatchN++
	rep.ByClass[class]++
	if rep.ByClass[class] <= 12 {
		ih := hex.EncodeToString(input)
		if len(ih) > 200 {
			ih = fmt.Sprintf("%s..(%d bytes)..%s", ih[:64], len(input), ih[len(ih)-64:])
		}
		rep.Mismatches = append(rep.Mismatches, tnMismatch{Case: name, InputHex: ih, Delim: c.D, NDest: c.NDest,
			Expected: hexes(expected), Got: hexes(got[0]), Class: class, Symbolic: c.In})
	}
}

func tail(s string, n int) string {
	if len(s) > n {
		return s[len(s)-n:]
	}
	return s
}

// failingDest: a fake nsqd that answers OK to the first k PUBs and refuses the next (E_* frame or by closing).
func failingDest(ln net.Listener, k int, byClose bool, got *[][]byte, mu *sync.Mutex) {
	for {
		c, err := ln.Accept()
		if err != nil {
			return
		}
		go func(c net.Conn) {
			defer c.Close()
			r := bufio.NewReaderSize(c, 1<<16)
			magic := make([]byte, 4)
			if _, err := io.ReadFull(r, magic); err != nil {
				return
			}
			for {
				line, err := r.ReadBytes('\n')
				if err != nil {
					return
				}
				f := strings.Fields(string(line))
				if len(f) == 0 {
					continue
				}
				switch f[0] {
				case "IDENTIFY", "PUB":
					var sz [4]byte
					if _, err := io.ReadFull(r, sz[:]); err != nil {
						return
					}
					n := int(sz[0])<<24 | int(sz[1])<<16 | int(sz[2])<<8 | int(sz[3])
					body := make([]byte, n)
					if _, err := io.ReadFull(r, body); err != nil {
						return
					}
					if f[0] == "IDENTIFY" {
						c.Write(frame(0, []byte("OK")))
						continue
					}
					mu.Lock()
					accept := len(*got) < k
					if accept {
						*got = append(*got, body)
					}
					mu.Unlock()
					if accept {
						c.Write(frame(0, []byte("OK")))
					} else if byClose {
						return
					} else {
						c.Write(frame(1, []byte("E_PUB_FAILED PUB failed fake destination says no")))
					}
				}
			}
		}(c)
	}
}

func runToNsqFailing(bin string, idx int, c *tnCase, name string, input []byte, expected [][]byte, rep *tnReport, mu *sync.Mutex, distinct map[string]bool) {
	k := *c.FailAfter
	ln, err := net.Listen("tcp", "127.0.0.1:0")
	if err != nil {
		mu.Lock()
		rep.Inconclusive = append(rep.Inconclusive, err.Error())
		mu.Unlock()
		return
	}
	defer ln.Close()
	var got [][]byte
	var gmu sync.Mutex
	go failingDest(ln, k, idx%2 == 0, &got, &gmu)
	argv := []string{"-topic", fmt.Sprintf("c20f%d", idx), "-nsqd-tcp-address", ln.Addr().String()}
	if c.D != '\n' {
		argv = append(argv, "-delimiter", string([]byte{byte(c.D)}))
	}
	ctx, cancel := context.WithTimeout(context.Background(), 120*time.Second)
	defer cancel()
	cmd := exec.CommandContext(ctx, bin, argv...)
	cmd.Stdin = bytes.NewReader(input)
	var stderr bytes.Buffer
	cmd.Stderr = &stderr
	runErr := cmd.Run()
	if ctx.Err() != nil {
		mu.Lock()
		rep.Inconclusive = append(rep.Inconclusive, fmt.Sprintf("to_nsq did not finish %s (failing destination) within 120 s", name))
		mu.Unlock()
		return
	}
	gmu.Lock()
	g := append([][]byte{}, got...)
	gmu.Unlock()
	want := expected
	if len(want) > k {
		want = want[:k]
	}
	mu.Lock()
	defer mu.Unlock()
	rep.Runs++
	rep.FailingDest++
	rep.RecordsSeen += len(want)
	distinct[fmt.Sprintf("%s|%d|fail%d", c.In, c.D, k)] = true
	if sameRecs(g, want) {
		// shape: a refused publish is fatal (log.Fatal), otherwise a clean exit
		if (len(expected) > k) != (runErr != nil) {
			rep.ShapeNotes = append(rep.ShapeNotes, fmt.Sprintf("%s fail_after=%d: exit status %v", name, k, runErr))
		}
		return
	}
	class := "accepted-before-refusal-is-not-a-prefix-of-records"
	if len(input) > 0 && input[len(input)-1] != byte(c.D) && len(expected) <= k && len(expected) > 0 {
		// everything was accepted, so the final-record defect shows here as well
		stripped := append([][]byte{}, expected...)
		last := stripped[len(stripped)-1]
		if len(last) == 1 {
			stripped = stripped[:len(stripped)-1]
		} else {
			stripped[len(stripped)-1] = last[:len(last)-1]
		}
		if sameRecs(g, stripped) {
			class = "unterminated-final-record-loses-last-byte"
		}
	}
	rep.MismatchN++
	rep.ByClass[class]++
	if rep.ByClass[class] <= 12 {
		rep.Mismatches = append(rep.Mismatches, tnMismatch{Case: fmt.Sprintf("%s fail_after=%d", name, k), InputHex: hex.EncodeToString(input), Delim: c.D, NDest: 1,
			Expected: hexes(want), Got: hexes(g), Class: class, Symbolic: c.In})
	}
}
