package main

import (
	"encoding/json"
	"flag"
	"fmt"
	"math/big"
	"net/url"
	"os"
	"strings"
	"time"

	"github.com/nsqio/nsq/internal/verif"
	"github.com/nsqio/nsq/nsqd"
	"github.com/nsqio/nsq/verifharness/hlib"
)

// C04 range table: every row of DelayTable.tla (command x number class -> outcome) replayed with several
// concrete spellings against a real nsqd.

type delayRow struct {
	Cmd   string `json:"cmd"`
	Form  string `json:"form"`
	Mag   string `json:"mag"`
	Res   string `json:"res"`
	Delay string `json:"delay"`
}

type delayObs struct {
	Row      delayRow `json:"row"`
	Spelling string   `json:"spelling"`
	Res      string   `json:"res"`
	DelayNs  int64    `json:"delay_ns"`
	Closed   bool     `json:"closed"`
	Bad      string   `json:"bad,omitempty"`
	Incon    string   `json:"inconclusive,omitempty"`
}

const delayMaxMs = 300

func spellings(form, mag string, tcp bool) []string {
	digits := map[string][]string{
		"zero":   {"0", "000"},
		"low":    {"1", "150", "0000299"},
		"max":    {"300", "00300"},
		"over":   {"301", "2147483648", "9223372036854"},
		"over63": {"9223372036855", "18446744073710", "9223372036854775807"},
		"over64": {"9223372036854775808", "18446744073709551615"},
		"beyond": {"18446744073709551616", "18446744073709551617", "340282366920938463463374607431768211456"},
	}
	switch form {
	case "digits":
		return digits[mag]
	case "plus":
		var out []string
		for _, d := range digits[mag] {
			out = append(out, "+"+d)
		}
		return out
	case "minus":
		var out []string
		for _, d := range digits[mag] {
			out = append(out, "-"+d)
		}
		return out
	case "empty":
		return []string{""}
	case "junk":
		if tcp {
			return []string{"abc", "1.5", "1e3", "0x10", "5x", "５"}
		}
		return []string{"abc", "1.5", "1e3", "0x10", " 5", "5 ", "５"}
	}
	return nil
}

func delaysMain(args []string) int {
	fs := flag.NewFlagSet("delays", flag.ExitOnError)
	in := fs.String("rows", "rows.json", "rows from TLC")
	out := fs.String("out", "obs.json", "observations")
	dir := fs.String("dir", "", "scratch")
	fs.Parse(args)
	data, err := os.ReadFile(*in)
	if err != nil {
		fmt.Fprintln(os.Stderr, err)
		return 2
	}
	var rows []delayRow
	if err := json.Unmarshal(data, &rows); err != nil {
		fmt.Fprintln(os.Stderr, err)
		return 2
	}
	rec := &countingRecorder{}
	rec.Install()
	defer rec.Uninstall()
	nd, err := startNode(*dir, func(o *nsqd.Options) {
		o.MaxReqTimeout = delayMaxMs * time.Millisecond
		o.MsgTimeout = time.Minute
	})
	if err != nil {
		fmt.Fprintln(os.Stderr, err)
		return 2
	}
	defer nd.stop(20 * time.Second)
	var obs []*delayObs
	n := 0
	lastEvents := func(from int, name string) []verif.Event {
		// events recorded since index `from` with the given name
		verif.SetSink(nil)
		evs := append([]verif.Event(nil), rec.evs...)
		rec.Install()
		var out []verif.Event
		for _, e := range evs[from:] {
			if e.Ev == name {
				out = append(out, e)
			}
		}
		return out
	}
	count := func() int {
		verif.SetSink(nil)
		c := len(rec.evs)
		rec.Install()
		return c
	}
	for _, row := range rows {
		for _, sp := range spellings(row.Form, row.Mag, row.Cmd != "HTTP") {
			n++
			o := &delayObs{Row: row, Spelling: sp}
			obs = append(obs, o)
			topic := fmt.Sprintf("d%d", n)
			from := count()
			switch row.Cmd {
			case "HTTP":
				st, _, err := nd.post("/pub?topic="+topic+"&defer="+url.QueryEscape(sp), []byte("x"))
				if err != nil {
					o.Incon = err.Error()
					continue
				}
				if st == 200 {
					o.Res = "ok"
					evs := lastEvents(from, "TPutBegin")
					if len(evs) != 1 {
						o.Bad = "accepted but nothing was enqueued"
					} else {
						o.DelayNs = hlib.KVInt(evs[0], "def")
					}
				} else {
					o.Res = fmt.Sprint(st)
					if len(lastEvents(from, "TPutBegin")) != 0 {
						o.Bad = "rejected but a message was enqueued"
					}
				}
			case "DPUB":
				cn, err := dial(nd.TCP, fmt.Sprintf("dl%d", n))
				if err != nil {
					o.Incon = err.Error()
					continue
				}
				if _, err := cn.identify(nil); err != nil {
					o.Incon = err.Error()
					cn.close()
					continue
				}
				cn.send("DPUB "+topic+" "+sp+"\n", lenPrefixed([]byte("x")))
				f, _, err := cn.expectResponse(10 * time.Second)
				if err != nil {
					o.Incon = err.Error()
					cn.close()
					continue
				}
				if f.Type == 0 && string(f.Data) == "OK" {
					o.Res = "ok"
					evs := lastEvents(from, "TPutBegin")
					if len(evs) != 1 {
						o.Bad = "OK but nothing was enqueued"
					} else {
						o.DelayNs = hlib.KVInt(evs[0], "def")
					}
				} else {
					o.Res = errCode(f)
					time.Sleep(20 * time.Millisecond)
					_, open := cn.next(200 * time.Millisecond)
					o.Closed = !open && cn.isClosed()
					if len(lastEvents(from, "TPutBegin")) != 0 {
						o.Bad = "rejected but a message was enqueued"
					}
				}
				cn.close()
			case "REQ":
				cn, err := dial(nd.TCP, fmt.Sprintf("dl%d", n))
				if err != nil {
					o.Incon = err.Error()
					continue
				}
				if _, err := cn.identify(nil); err != nil {
					o.Incon = err.Error()
					cn.close()
					continue
				}
				if err := cn.sub(topic, "c"); err != nil {
					o.Incon = err.Error()
					cn.close()
					continue
				}
				cn.cmd("RDY", "", "1")
				nd.post("/pub?topic="+topic, []byte("x"))
				f, ok := cn.next(10 * time.Second)
				if !ok || f.Type != 2 {
					o.Incon = "message not delivered"
					cn.close()
					continue
				}
				cn.cmd("RDY", "", "0")
				from = count()
				cn.send("REQ "+f.ID+" "+sp+"\n", nil)
				fr, err := cn.barrier(10 * time.Second)
				if err == nil {
					// REQ produced no fatal error
					for _, x := range fr {
						if x.Type == 1 {
							o.Res = errCode(x)
						}
					}
					if o.Res == "" {
						o.Res = "ok"
						evs := lastEvents(from, "ReqClamp")
						if len(evs) != 1 {
							o.Bad = "REQ accepted but no requeue happened"
						} else {
							o.DelayNs = hlib.KVInt(evs[0], "delay")
						}
					}
				} else {
					// connection closed: find the error frame
					o.Closed = cn.isClosed()
					for _, x := range fr {
						if x.Type == 1 {
							o.Res = errCode(x)
						}
					}
					if o.Res == "" {
						o.Res = "closed"
					}
				}
				cn.close()
			}
			// ---- compare with the table
			want := row.Res
			if o.Res != want {
				o.Bad = fmt.Sprintf("answered %q, the table says %q", o.Res, want)
				continue
			}
			if want == "E_INVALID" && !o.Closed {
				o.Bad = "E_INVALID must be fatal (connection closed)"
			}
			if want == "ok" && o.Bad == "" {
				v := new(big.Int)
				v.SetString(strings.TrimLeft(strings.TrimLeft(sp, "+-"), "0"), 10)
				var exp int64
				switch row.Delay {
				case "zero":
					exp = 0
				case "asis":
					exp = v.Int64() * int64(time.Millisecond)
				case "max":
					exp = delayMaxMs * int64(time.Millisecond)
				}
				if o.DelayNs != exp {
					o.Bad = fmt.Sprintf("delay applied %s, the table says %s", time.Duration(o.DelayNs), time.Duration(exp))
				}
			}
		}
	}
	hlib.WriteJSON(*out, obs)
	return 0
}
