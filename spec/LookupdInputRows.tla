-------------------------- MODULE LookupdInputRows --------------------------
(* Prints the table of LookupdInput (binding A: the harness replays every   *)
(* row against the real nsqlookupd; expectations come from here, not from a *)
(* copy in Go/Python).  Evaluated once, as an assumption; no state space.   *)
EXTENDS LookupdInput
PrintTcp == \A d \in TcpDomain :
              LET st == d[1]  k == d[2]  o == TcpRow(st, k) IN
              PrintT(<<"ROW", "tcp", st, k.cmd, k.t, k.c, k.x, k.sz, k.body, o.resp, o.closes, o.eff,
                       TcpWellFormed(st, k)>>)
PrintHttp == \A h \in HttpDomain :
              LET o == HttpRow(h) IN
              PrintT(<<"ROW", "http", h.route, h.method, h.q, h.t, h.c, h.n, h.ex, o.status, o.msg, o.eff,
                       HttpWellFormed(h), AdminException(h)>>)
ASSUME Total
ASSUME PrintTcp /\ PrintHttp
Stop == daemon = "never"
=============================================================================
