\* named deviation: huge IDENTIFY body size is allocated and waited for instead of refused
SPECIFICATION Spec
CONSTANTS
  AsImplemented = {"hugeSizeAlloc"}
  MaxOwn = 2
CONSTRAINT Bounded
INVARIANTS TypeOK Total StillServing ClosedLeavesNothing SizesRefused
PROPERTIES OthersUntouched
CHECK_DEADLOCK FALSE
