---------------------------- MODULE NsqdPauseAck ----------------------------
(***************************************************************************)
(* Several HTTP handlers asking for the SAME pause (or unpause) of one      *)
(* topic / channel at the same time (C06: "reflects every pause/unpause     *)
(* that was acknowledged over HTTP").  Each handler: store the flag; take   *)
(* NSQD's lock; snapshot the live flags; write the temporary file; rename   *)
(* it over nsqd.dat; release the lock; answer 200.  The handlers share one  *)
(* flag and one file and may be killed at any instant.                      *)
(*                                                                         *)
(* SkipWhenSame = TRUE is a plausible optimisation ("the flag already has   *)
(* that value, nothing to write"): refuted -- the handler that finds the    *)
(* flag set by a sibling answers before the sibling's write has reached the *)
(* disk.                                                                    *)
(***************************************************************************)
EXTENDS Integers, FiniteSets, TLC
CONSTANTS Handlers, SkipWhenSame
VARIABLES flag,    \* the object's paused flag in memory
          file,    \* the paused flag in nsqd.dat
          lock,    \* holder of NSQD's lock ("" = free)
          pc,      \* handler -> "idle" | "flagged" | "locked" | "written" | "renamed" | "acked"
          want,    \* handler -> the value it was asked to set
          snap,    \* handler -> the value its document holds
          phase    \* the value every client currently asks for (clients agree: nobody asks for the opposite meanwhile)
vars == <<flag, file, lock, pc, want, snap, phase>>

Init == /\ flag = FALSE /\ file = FALSE /\ lock = "" /\ phase = TRUE
        /\ pc = [h \in Handlers |-> "idle"] /\ want = [h \in Handlers |-> FALSE] /\ snap = [h \in Handlers |-> FALSE]

Request(h) ==
  /\ pc[h] = "idle"
  /\ want' = [want EXCEPT ![h] = phase]
  /\ IF SkipWhenSame /\ flag = phase
     THEN pc' = [pc EXCEPT ![h] = "acked"] /\ flag' = flag            \* "already in the requested state": 200 at once
     ELSE pc' = [pc EXCEPT ![h] = "flagged"] /\ flag' = phase
  /\ UNCHANGED <<file, lock, snap, phase>>
Lock(h)    == pc[h] = "flagged" /\ lock = "" /\ lock' = h /\ pc' = [pc EXCEPT ![h] = "locked"]
              /\ snap' = [snap EXCEPT ![h] = flag] /\ UNCHANGED <<flag, file, want, phase>>
Write(h)   == pc[h] = "locked" /\ pc' = [pc EXCEPT ![h] = "written"] /\ UNCHANGED <<flag, file, lock, want, snap, phase>>
Rename(h)  == pc[h] = "written" /\ file' = snap[h] /\ pc' = [pc EXCEPT ![h] = "renamed"] /\ UNCHANGED <<flag, lock, want, snap, phase>>
Answer(h)  == pc[h] = "renamed" /\ lock' = "" /\ pc' = [pc EXCEPT ![h] = "acked"] /\ UNCHANGED <<flag, file, want, snap, phase>>
\* once every request of this round has been answered the clients turn to the opposite value
Turn == /\ \A h \in Handlers : pc[h] = "acked"
        /\ phase' = ~phase /\ pc' = [h \in Handlers |-> "idle"]
        /\ UNCHANGED <<flag, file, lock, want, snap>>

Next == (\E h \in Handlers : Request(h) \/ Lock(h) \/ Write(h) \/ Rename(h) \/ Answer(h)) \/ Turn
Spec == Init /\ [][Next]_vars

\* a SIGKILL at any instant: what was answered is on disk
AckedIsOnDisk == \A h \in Handlers : pc[h] = "acked" => file = want[h]
=============================================================================
