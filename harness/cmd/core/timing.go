package main

import (
	"fmt"
	"time"

	"github.com/nsqio/nsq/internal/verif"
	"github.com/nsqio/nsq/verifharness/hlib"
)

// timingLedger: C04 from the client's side. All comparisons are implied by the property: the clock reading
// of the command that starts a delay is taken BEFORE the command is written, the reading of the redelivery
// AFTER the frame was read, so (redelivery - command) >= delay must hold whatever the buffering.
func (r *Run) timingLedger(evs []verif.Event) (checked int) {
	kOf := map[string]int64{}
	chanOfK := map[int64]string{}
	for _, e := range evs {
		switch e.Ev {
		case "KIdent":
			kOf[hlib.KVStr(e, "cid")] = hlib.KVInt(e, "k")
		case "KSub":
			chanOfK[hlib.KVInt(e, "k")] = hlib.KVStr(e, "c")
		}
	}
	type pend struct {
		id    string
		ts    int64
		delay int64 // ns
		ch    string
		what  string
		seq   int64
	}
	// REQ: i-th HCmd REQ of a connection <-> i-th KCmd REQ of its server-side client
	type reqCmd struct {
		id string
		ts int64
	}
	sent := map[int64][]reqCmd{}
	clamp := map[string]int64{} // "k|id" -> clamped delay of the REQ being executed
	var waits []pend
	idOfKey := map[string]string{}    // key -> id
	topicOfKey := map[string]string{} // key -> topic instance (ids are unique per topic only)
	whereOf := map[string]string{}    // topic instance + id -> mem | disk
	chansOfTopic := map[string][]string{}
	deferOfKey := map[string][2]int64{} // key -> (ts, defer ms)
	for _, e := range evs {
		switch e.Ev {
		case "HCmd":
			if hlib.KVStr(e, "cmd") == "REQ" {
				k, ok := kOf[hlib.KVStr(e, "conn")]
				if ok {
					sent[k] = append(sent[k], reqCmd{hlib.KVStr(e, "id"), hlib.KVInt(e, "now")})
				}
			}
		case "ReqClamp":
			clamp[fmt.Sprintf("%d|%s", hlib.KVInt(e, "k"), hlib.KVStr(e, "id"))] = hlib.KVInt(e, "delay")
		case "KCmd":
			if hlib.KVStr(e, "cmd") != "REQ" {
				continue
			}
			k := hlib.KVInt(e, "k")
			if len(sent[k]) == 0 {
				continue
			}
			rc := sent[k][0]
			sent[k] = sent[k][1:]
			if hlib.KVStr(e, "err") != "" || rc.id != hlib.KVStr(e, "arg") {
				continue
			}
			d, ok := clamp[fmt.Sprintf("%d|%s", k, rc.id)]
			if !ok {
				continue
			}
			waits = append(waits, pend{id: rc.id, ts: rc.ts, delay: d, ch: chanOfK[k], what: "REQ", seq: e.Seq})
		case "HPub":
			if d := hlib.KVInt(e, "defer"); d > 0 {
				deferOfKey[hlib.KVStr(e, "key")] = [2]int64{hlib.KVInt(e, "now"), d}
			}
		case "TPutBegin":
			dg, _ := hlib.KVGet(e, "body").(verif.BodyDigest)
			idOfKey[keyOf([]byte(dg.Pre))] = hlib.KVStr(e, "id")
			topicOfKey[keyOf([]byte(dg.Pre))] = hlib.KVStr(e, "t")
		case "TPutEnd":
			whereOf[hlib.KVStr(e, "t")+"|"+hlib.KVStr(e, "id")] = hlib.KVStr(e, "where")
		case "CMapAdd":
			chansOfTopic[hlib.KVStr(e, "t")] = append(chansOfTopic[hlib.KVStr(e, "t")], hlib.KVStr(e, "c"))
		}
	}
	// receipts per (channel instance, id), in order
	type rk struct{ ch, id string }
	recv := map[rk][]verif.Event{}
	kName := map[int64]string{}
	for n, k := range kOf {
		kName[k] = n
	}
	for _, e := range evs {
		if e.Ev == "HRecv" {
			k, ok := kOf[hlib.KVStr(e, "conn")]
			if !ok {
				continue
			}
			x := rk{chanOfK[k], hlib.KVStr(e, "id")}
			recv[x] = append(recv[x], e)
		}
	}
	for _, w := range waits {
		for _, e := range recv[rk{w.ch, w.id}] {
			if e.Seq < w.seq {
				continue
			}
			checked++
			if got := hlib.KVInt(e, "now") - w.ts; got < w.delay {
				r.failf("[C04] message %s requeued with delay %s was redelivered on %s only %s after the REQ was sent", w.id,
					time.Duration(w.delay), w.ch, time.Duration(got))
			}
			break
		}
	}
	for key, td := range deferOfKey {
		id := idOfKey[key]
		if id == "" || whereOf[topicOfKey[key]+"|"+id] != "mem" {
			continue // rejected, or spilled to the topic's disk queue (where the deferral is documented to be lost)
		}
		for _, ch := range chansOfTopic[topicOfKey[key]] {
			rs := recv[rk{ch, id}]
			if len(rs) == 0 {
				continue
			}
			checked++
			if got := hlib.KVInt(rs[0], "now") - td[0]; got < td[1]*int64(time.Millisecond) {
				r.failf("[C04] message %s published with defer %dms was delivered on %s only %s after the publish was sent", key, td[1], ch, time.Duration(got))
			}
		}
	}
	// boundedly late: how long after its deadline did the scan pick a message up (scan interval 10 ms)
	var worst int64
	for _, e := range evs {
		if e.Ev == "ScanIF" || e.Ev == "ScanDef" {
			if late := hlib.KVInt(e, "t") - hlib.KVInt(e, "pri"); late > worst {
				worst = late
			}
		}
	}
	if worst > int64(10*time.Second) {
		r.failf("[C04] a message was picked up %s after its deadline although the queue scan runs every 10ms", time.Duration(worst))
	}
	r.worstLate = worst
	return checked
}
