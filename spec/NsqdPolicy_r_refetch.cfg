\* replay family refetch (quick): AUTH, wait 0/2/3 ticks, gated command whose re-fetch is answered with each of the 77 answers
SPECIFICATION Spec
CONSTANTS
  Policies <- AuthPlain
  Cmds <- GrantCmds
  AnswersA <- Narrow1
  AnswersR <- FullAnswers
  Waits = {0, 2, 3}
  MaxDepth = 2
  MaxNow = 9
  HttpReqs <- NoHttp
INVARIANTS TypeOK PropertyLevel PlainHttpServed RefetchIffExpired QueryCountLaw CodeStricter NeverOnExpiry EmitBehaviour
CHECK_DEADLOCK FALSE
