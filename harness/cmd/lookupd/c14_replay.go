package main

// c14-replay: binding A for C14.  Reads the reachable graph of a bounded Lookupd.tla config as printed
// by TLC (module LookupdEdges: "S <c1> <c2> <json>" per state, "E <c1> <c2> <name> <p> <t> <c> <resp>
// <c1'> <c2'>" per transition), plans a transition tour (walks from the initial state; every edge at
// least once, or a seeded sample of the edges when a budget is given) and executes every walk against
// a fresh in-process nsqlookupd: each step through the public TCP / HTTP surface, then /lookup and
// /channels for every topic, /topics, /nodes and /debug, compared (as sets) with the values of the
// spec's query operators in the state TLC predicted.

import (
	"bufio"
	"encoding/json"
	"flag"
	"fmt"
	"math/rand"
	"net/url"
	"os"
	"sort"
	"strconv"
	"strings"
	"sync"
	"sync/atomic"
	"time"

	"github.com/nsqio/nsq/verifharness/hlib"
)

func init() {
	subcmds["c14-replay"] = c14Replay
}

type c14Edge struct {
	from, to int32
	name     string
	p, t, c  string
	resp     string
}

type c14Graph struct {
	stateIdx map[[2]int64]int32
	obs      []*c14Obs
	edges    []c14Edge
	out      [][]int32 // edge indices by from-state
	init     int32
	topics   []string
	prods    []string
	chans    []string
}

func c14Unquote(s string) string {
	// TLC prints the string in TLA+ syntax: surrounding quotes, \" and \\ escapes
	s = strings.TrimSuffix(strings.TrimPrefix(s, `"`), `"`)
	if !strings.Contains(s, `\`) {
		return s
	}
	var b strings.Builder
	for i := 0; i < len(s); i++ {
		if s[i] == '\\' && i+1 < len(s) {
			i++
			switch s[i] {
			case 'n':
				b.WriteByte('\n')
			case 't':
				b.WriteByte('\t')
			default:
				b.WriteByte(s[i])
			}
			continue
		}
		b.WriteByte(s[i])
	}
	return b.String()
}

func c14Dash(s string) string {
	if s == "-" {
		return ""
	}
	return s
}

func c14LoadGraph(path string) (*c14Graph, error) {
	f, err := os.Open(path)
	if err != nil {
		return nil, err
	}
	defer f.Close()
	g := &c14Graph{stateIdx: map[[2]int64]int32{}, init: -1}
	sc := bufio.NewScanner(f)
	sc.Buffer(make([]byte, 1<<20), 1<<26)
	intern := map[string]string{}
	in := func(s string) string {
		if v, ok := intern[s]; ok {
			return v
		}
		intern[s] = s
		return s
	}
	idx := func(a, b string) (int32, error) {
		x, err := strconv.ParseInt(a, 10, 64)
		if err != nil {
			return 0, err
		}
		y, err := strconv.ParseInt(b, 10, 64)
		if err != nil {
			return 0, err
		}
		k := [2]int64{x, y}
		if i, ok := g.stateIdx[k]; ok {
			return i, nil
		}
		i := int32(len(g.obs))
		g.stateIdx[k] = i
		g.obs = append(g.obs, nil)
		return i, nil
	}
	for sc.Scan() {
		line := sc.Text()
		if strings.HasPrefix(line, `"E `) {
			f := strings.Fields(c14Unquote(line))
			if len(f) != 10 {
				return nil, fmt.Errorf("bad edge line %q", line)
			}
			from, err := idx(f[1], f[2])
			if err != nil {
				return nil, err
			}
			to, err := idx(f[8], f[9])
			if err != nil {
				return nil, err
			}
			g.edges = append(g.edges, c14Edge{from: from, to: to, name: in(f[3]), p: in(c14Dash(f[4])), t: in(c14Dash(f[5])),
				c: in(c14Dash(f[6])), resp: in(c14Dash(f[7]))})
		} else if strings.HasPrefix(line, `"S `) {
			s := c14Unquote(line)
			f := strings.SplitN(s, " ", 4)
			if len(f) != 4 {
				return nil, fmt.Errorf("bad state line %q", line)
			}
			i, err := idx(f[1], f[2])
			if err != nil {
				return nil, err
			}
			o := &c14Obs{}
			if err := json.Unmarshal([]byte(f[3]), o); err != nil {
				return nil, fmt.Errorf("state json: %v in %q", err, f[3])
			}
			if o.Lookup == nil {
				o.Lookup = map[string]c14LookupObs{}
			}
			if o.Channels == nil {
				o.Channels = map[string][]string{}
			}
			o.Normalize()
			g.obs[i] = o
			if g.init < 0 {
				// the initial state is the first one TLC checks: nothing registered, nobody connected, now = 0
				if len(o.Topics) == 0 && len(o.Clients) == 0 && o.Now == 0 {
					g.init = i
				}
			}
		}
	}
	if err := sc.Err(); err != nil {
		return nil, err
	}
	if g.init < 0 {
		return nil, fmt.Errorf("no initial state in %s", path)
	}
	for i, o := range g.obs {
		if o == nil {
			return nil, fmt.Errorf("state %d has edges but no S line", i)
		}
	}
	g.out = make([][]int32, len(g.obs))
	pset := map[string]bool{}
	cset := map[string]bool{}
	for i, e := range g.edges {
		g.out[e.from] = append(g.out[e.from], int32(i))
		if e.name == "Connect" {
			pset[e.p] = true
		}
		if e.c != "" && !cset[e.c] {
			cset[e.c] = true
			g.chans = append(g.chans, e.c)
		}
	}
	// the initial state must be the one without predecessors other than itself reachable by Connect only:
	// check that it has Connect edges for every producer
	for t := range g.obs[g.init].Lookup {
		g.topics = append(g.topics, t)
	}
	sort.Strings(g.topics)
	for p := range pset {
		g.prods = append(g.prods, p)
	}
	sort.Strings(g.prods)
	n := 0
	for _, ei := range g.out[g.init] {
		if g.edges[ei].name == "Connect" {
			n++
		}
	}
	if n != len(g.prods) || n == 0 {
		return nil, fmt.Errorf("initial state has %d Connect edges for %d producers", n, len(g.prods))
	}
	return g, nil
}

// ---------------------------------------------------------------- tour planning

type c14Planner struct {
	g        *c14Graph
	rng      *rand.Rand
	visited  []bool
	unv      []int32 // unvisited out-edges per state
	left     int
	maxWalk  int
	tickCap  int // soft cap of steps per tick (timed regime)
	bfsPrev  []int32
	bfsMark  []int32
	bfsEpoch int32
}

func c14NewPlanner(g *c14Graph, seed int64, maxWalk, tickCap int) *c14Planner {
	pl := &c14Planner{g: g, rng: rand.New(rand.NewSource(seed)), visited: make([]bool, len(g.edges)), unv: make([]int32, len(g.obs)),
		left: len(g.edges), maxWalk: maxWalk, tickCap: tickCap, bfsPrev: make([]int32, len(g.obs)), bfsMark: make([]int32, len(g.obs))}
	for _, e := range g.edges {
		pl.unv[e.from]++
	}
	// seeded order of out-edges
	for s := range g.out {
		o := g.out[s]
		pl.rng.Shuffle(len(o), func(i, j int) { o[i], o[j] = o[j], o[i] })
	}
	return pl
}

func (pl *c14Planner) take(ei int32) {
	if !pl.visited[ei] {
		pl.visited[ei] = true
		pl.unv[pl.g.edges[ei].from]--
		pl.left--
	}
}

// pathToUnvisited: shortest edge path from s to a state that still has an unvisited out-edge.
func (pl *c14Planner) pathToUnvisited(s int32) []int32 {
	pl.bfsEpoch++
	ep := pl.bfsEpoch
	queue := []int32{s}
	pl.bfsMark[s] = ep
	pl.bfsPrev[s] = -1
	for len(queue) > 0 {
		cur := queue[0]
		queue = queue[1:]
		if pl.unv[cur] > 0 && cur != s {
			var path []int32
			for x := cur; pl.bfsPrev[x] >= 0; x = pl.g.edges[pl.bfsPrev[x]].from {
				path = append(path, pl.bfsPrev[x])
			}
			for i, j := 0, len(path)-1; i < j; i, j = i+1, j-1 {
				path[i], path[j] = path[j], path[i]
			}
			return path
		}
		for _, ei := range pl.g.out[cur] {
			to := pl.g.edges[ei].to
			if pl.bfsMark[to] != ep {
				pl.bfsMark[to] = ep
				pl.bfsPrev[to] = ei
				queue = append(queue, to)
			}
		}
	}
	return nil
}

// nextWalk plans one walk from the initial state; nil when every edge has been visited.
func (pl *c14Planner) nextWalk() []int32 {
	if pl.left == 0 {
		return nil
	}
	var walk []int32
	cur := pl.g.init
	inTick := 0
	fresh := 0
	for len(walk) < pl.maxWalk {
		var pick int32 = -1
		if pl.tickCap > 0 && inTick >= pl.tickCap {
			for _, ei := range pl.g.out[cur] {
				if pl.g.edges[ei].name == "Tick" {
					pick = ei
					break
				}
			}
			if pick < 0 {
				break // clock at its bound and the tick is full
			}
		}
		if pick < 0 && pl.unv[cur] > 0 {
			for _, ei := range pl.g.out[cur] {
				if !pl.visited[ei] {
					pick = ei
					break
				}
			}
		}
		if pick >= 0 {
			if !pl.visited[pick] {
				fresh++
			}
			pl.take(pick)
			walk = append(walk, pick)
			if pl.g.edges[pick].name == "Tick" {
				inTick = 0
			} else {
				inTick++
			}
			cur = pl.g.edges[pick].to
			continue
		}
		path := pl.pathToUnvisited(cur)
		if path == nil || len(walk)+len(path) >= pl.maxWalk {
			break
		}
		for _, ei := range path {
			pl.take(ei)
			walk = append(walk, ei)
			if pl.g.edges[ei].name == "Tick" {
				inTick = 0
			} else {
				inTick++
			}
			cur = pl.g.edges[ei].to
		}
	}
	if fresh == 0 {
		// nothing new reachable from the initial state within a walk: give up on the rest
		return nil
	}
	return walk
}

// ---------------------------------------------------------------- execution

type c14Mismatch struct {
	Kind     string          `json:"kind"` // "query" | "response" | "driver"
	Walk     int             `json:"walk"`
	Step     int             `json:"step"`
	Action   string          `json:"action"`
	Queries  []string        `json:"queries,omitempty"`
	Expected *c14Obs         `json:"expected,omitempty"`
	Observed *c14Obs         `json:"observed,omitempty"`
	Detail   string          `json:"detail,omitempty"`
	History  []string        `json:"history"`
	Steps    [][]string      `json:"steps"` // the walk up to and including the failing step: name, p, t, c
	Regime   string          `json:"regime"`
	Raw      json.RawMessage `json:"raw,omitempty"`
}

type c14ReplayReport struct {
	States              int                      `json:"states"`
	Edges               int                      `json:"edges"`
	EdgesCovered        int                      `json:"edges_covered"`
	Walks               int                      `json:"walks"`
	Steps               int64                    `json:"steps"`
	Queries             int64                    `json:"queries"`
	ActionCounts        map[string]int64         `json:"action_counts"`
	NontrivialEdge      int                      `json:"nontrivial_edges_covered"`
	TimingRetries       int                      `json:"timing_retries"`
	TimingSkipped       int                      `json:"timing_skipped"`
	Interference        []string                 `json:"interference"`         // walks re-run because a foreign client touched their daemon
	InterferenceSkipped int                      `json:"interference_skipped"` // ... and given up after 3 re-runs
	Mismatches          []c14Mismatch            `json:"mismatches"`
	DriverErrors        []string                 `json:"driver_errors"`
	Samples             []map[string]interface{} `json:"samples"`
	Regime              string                   `json:"regime"`
	WallS               float64                  `json:"wall_s"`
}

type c14Exec struct {
	g         *c14Graph
	shared    map[string]bool
	timed     bool
	tick      time.Duration
	inactiveK float64
	tombK     float64
	rngSeed   int64
	executed  []int32 // per edge: executed against the real daemon and compared
}

func (e c14Edge) String() string {
	s := e.name
	for _, x := range []string{e.p, e.t, e.c} {
		if x != "" {
			s += " " + x
		}
	}
	if e.resp != "" {
		s += " -> " + e.resp
	}
	return s
}

type c14TimingMiss struct{ detail string }

// c14Interference: the daemon of this walk was talked to by something that is not this harness (other checks run on the
// same machine and a listener port of a daemon that has just exited may still be in somebody's configuration): the
// observation names topics / channels / producers outside the model's universe. Not an observation of nsqlookupd.
type c14Interference struct{ detail string }

func (t *c14Interference) Error() string { return t.detail }

func (g *c14Graph) foreignNames(o *c14Obs) string {
	tset, cset, pset := map[string]bool{}, map[string]bool{}, map[string]bool{}
	for _, t := range g.topics {
		tset[t] = true
	}
	for _, c := range g.chans {
		cset[c] = true
	}
	for _, p := range g.prods {
		pset[p] = true
	}
	for _, t := range o.Topics {
		if !tset[t] {
			return "topic " + t
		}
	}
	for _, l := range o.Lookup {
		for _, c := range l.Channels {
			if !cset[c] {
				return "channel " + c
			}
		}
		for _, p := range l.Producers {
			if !pset[p] {
				return "producer " + p
			}
		}
	}
	for _, cs := range o.Channels {
		for _, c := range cs {
			if !cset[c] {
				return "channel " + c
			}
		}
	}
	for _, n := range o.Nodes {
		if !pset[n.P] {
			return "node " + n.P
		}
	}
	for _, d := range o.Debug {
		if !pset[d.P] || !tset[d.K[1]] || (d.K[2] != "" && !cset[d.K[2]]) {
			return "registration " + strings.Join(d.K, ":") + " " + d.P
		}
	}
	for _, p := range o.Clients {
		if !pset[p] {
			return "client " + p
		}
	}
	return ""
}

func (t *c14TimingMiss) Error() string { return t.detail }

// runWalk executes one walk; returns a mismatch (property-level observation), a timing miss, or a driver error.
func (x *c14Exec) runWalk(wi int, walk []int32, tick time.Duration, steps, queries *int64, acts map[string]int64) (*c14Mismatch, error) {
	g := x.g
	inactive, tombstone := 24*time.Hour, 24*time.Hour
	if x.timed {
		inactive = time.Duration((x.inactiveK + 0.5) * float64(tick))
		tombstone = time.Duration((x.tombK + 0.5) * float64(tick))
	}
	d, err := c14StartDaemon(inactive, tombstone)
	if err != nil {
		return nil, fmt.Errorf("start nsqlookupd: %v", err)
	}
	defer d.Stop()
	h := c14NewHTTP(d.http)
	defer h.Close()
	rng := rand.New(rand.NewSource(x.rngSeed + int64(wi)*7919))
	peers := map[string]*c14Peer{}
	idn := &c14Identity{byHost: map[string]*c14Peer{}, byID: map[string]string{}}
	for i, name := range g.prods {
		b, tp, hp := c14PeerIdentity(name, i, x.shared[name])
		p := &c14Peer{name: name, broadcast: b, tcpPort: tp, httpPort: hp}
		peers[name] = p
		idn.byHost[name] = p
	}
	defer func() {
		for _, p := range peers {
			if p.conn != nil {
				p.conn.Close()
			}
		}
	}()
	identified := map[string]bool{}
	var history []string
	regime := "untimed"
	if x.timed {
		regime = fmt.Sprintf("timed tick=%s inactive=%s tombstone=%s", tick, inactive, tombstone)
	}
	mm := func(kind string, si int, e c14Edge, detail string) *c14Mismatch {
		m := &c14Mismatch{Kind: kind, Walk: wi, Step: si, Action: e.String(), Detail: detail, History: append([]string{}, history...), Regime: regime}
		for i := 0; i <= si && i < len(walk); i++ {
			we := g.edges[walk[i]]
			m.Steps = append(m.Steps, []string{we.name, we.p, we.t, we.c})
		}
		return m
	}
	// clock: tick n occupies [t0 + n*tick, t0 + (n+1)*tick); steps must run inside [0.3, 0.7] of it
	t0 := time.Now().Add(-time.Duration(0.3 * float64(tick)))
	now := 0
	inWindow := func() error {
		if !x.timed {
			return nil
		}
		off := time.Since(t0) - time.Duration(now)*tick
		if off < time.Duration(0.3*float64(tick)) || off > time.Duration(0.7*float64(tick)) {
			return &c14TimingMiss{fmt.Sprintf("step ran at offset %s of tick %d (tick %s)", off, now, tick)}
		}
		return nil
	}
	// the initial state is checked too
	check := func(si int, e c14Edge, to int32) (*c14Mismatch, error) {
		obs, nq, err := c14Observe(h, g.topics, idn)
		atomic.AddInt64(queries, int64(nq))
		if err != nil {
			return nil, fmt.Errorf("walk %d step %d (%s): query failed: %v", wi, si, e, err)
		}
		if err := inWindow(); err != nil {
			return nil, err
		}
		exp := g.obs[to]
		if diff := obs.Diff(exp); len(diff) > 0 {
			if f := g.foreignNames(obs); f != "" {
				return nil, &c14Interference{fmt.Sprintf("walk %d step %d: foreign %s seen on this walk's daemon", wi, si, f)}
			}
			m := mm("query", si, e, "")
			m.Queries, m.Expected, m.Observed = diff, exp, obs
			return m, nil
		}
		return nil, nil
	}
	if m, err := check(-1, c14Edge{name: "Init"}, g.init); m != nil || err != nil {
		return m, err
	}
	for si, ei := range walk {
		e := g.edges[ei]
		if err := inWindow(); err != nil && e.name != "Tick" {
			return nil, err
		}
		var resp string
		var derr error
		switch e.name {
		case "Tick":
			now++
			target := t0.Add(time.Duration(now)*tick + time.Duration(0.3*float64(tick)))
			if time.Now().After(target.Add(time.Duration(0.2 * float64(tick)))) {
				return nil, &c14TimingMiss{fmt.Sprintf("late for tick %d by %s", now, time.Since(target))}
			}
			time.Sleep(time.Until(target))
		case "Connect":
			derr = peers[e.p].Connect(d.tcp)
			if derr == nil {
				idn.setID(peers[e.p].id, e.p)
			}
		case "Identify":
			resp, derr = peers[e.p].Identify()
			if derr == nil {
				var doc map[string]interface{}
				if json.Unmarshal([]byte(resp), &doc) == nil && doc["tcp_port"] != nil {
					resp = "OK"
				}
				identified[e.p] = true
			}
		case "Register", "Unregister":
			line := strings.ToUpper(e.name) + " " + e.t
			if e.c != "" {
				line += " " + e.c
			}
			resp, derr = peers[e.p].Cmd(line, nil)
		case "Ping":
			resp, derr = peers[e.p].Cmd("PING", nil)
		case "Disconnect":
			how := rng.Intn(3)
			var note string
			note, derr = peers[e.p].Disconnect(how, identified[e.p])
			history = append(history, fmt.Sprintf("  (disconnect variant %d %s)", how, note))
			delete(identified, e.p)
		case "CreateTopic", "DeleteTopic", "CreateChannel", "DeleteChannel", "Tombstone":
			q := url.Values{"topic": {e.t}}
			path := ""
			switch e.name {
			case "CreateTopic":
				path = "/topic/create"
			case "DeleteTopic":
				path = "/topic/delete"
			case "CreateChannel":
				path = "/channel/create"
				q.Set("channel", e.c)
			case "DeleteChannel":
				path = "/channel/delete"
				q.Set("channel", e.c)
			case "Tombstone":
				path = "/topic/tombstone"
				node := e.p
				if pp := peers[e.p]; pp != nil {
					node = c14NodeName(pp.broadcast, pp.httpPort)
				} else { // the shared node name
					node = c14NodeName("nX", 4999)
				}
				q.Set("node", node)
			}
			var code int
			code, _, derr = h.Do("POST", path, q)
			resp = strconv.Itoa(code)
		default:
			return nil, fmt.Errorf("unknown action %q", e.name)
		}
		history = append(history, e.String())
		atomic.AddInt64(steps, 1)
		acts[e.name]++
		if derr != nil {
			// the daemon did not answer a well-formed command the way the protocol says it must
			return mm("response", si, e, "command failed: "+derr.Error()), nil
		}
		if e.resp != "" && resp != e.resp {
			return mm("response", si, e, fmt.Sprintf("response %q, the model says %q", resp, e.resp)), nil
		}
		if m, err := check(si, e, e.to); m != nil || err != nil {
			return m, err
		}
		atomic.StoreInt32(&x.executed[ei], 1)
	}
	return nil, nil
}

func c14Replay(args []string) int {
	fs := flag.NewFlagSet("c14-replay", flag.ExitOnError)
	graph := fs.String("graph", "", "TLC output of LookupdEdges")
	seed := fs.Int64("seed", 1, "seed")
	budget := fs.Int64("budget", 0, "max steps to execute (0: full tour)")
	maxWalk := fs.Int("max-walk", 300, "max steps per walk")
	workers := fs.Int("workers", 16, "parallel walks")
	timed := fs.Bool("timed", false, "timed regime: Tick edges take real time")
	tickMs := fs.Int("tick-ms", 200, "tick length (timed)")
	inactiveK := fs.Float64("inactive-k", 2, "InactiveK of the config (timed)")
	tombK := fs.Float64("tomb-k", 1, "TombK of the config (timed)")
	tickCap := fs.Int("tick-cap", 10, "soft cap of steps per tick (timed)")
	sharedS := fs.String("shared", "", "comma separated producers that share one node name")
	rep := fs.String("report", "report.json", "report output")
	wallBudget := fs.Duration("wall", 0, "stop planning new walks after this wall time (0: none)")
	historyF := fs.String("history", "", "replay one saved walk (a replay file written by the check) instead of planning a tour")
	fs.Parse(args)

	start := time.Now()
	g, err := c14LoadGraph(*graph)
	if err != nil {
		fmt.Fprintln(os.Stderr, "load graph:", err)
		return 2
	}
	shared := map[string]bool{}
	for _, s := range strings.Split(*sharedS, ",") {
		if s != "" {
			shared[s] = true
		}
	}
	x := &c14Exec{g: g, shared: shared, timed: *timed, tick: time.Duration(*tickMs) * time.Millisecond, inactiveK: *inactiveK,
		tombK: *tombK, rngSeed: *seed, executed: make([]int32, len(g.edges))}
	tc := 0
	if *timed {
		tc = *tickCap
	}
	pl := c14NewPlanner(g, *seed, *maxWalk, tc)
	report := &c14ReplayReport{States: len(g.obs), Edges: len(g.edges), ActionCounts: map[string]int64{}, Regime: "untimed"}
	if *timed {
		report.Regime = fmt.Sprintf("timed tick=%dms inactiveK=%g tombK=%g", *tickMs, *inactiveK, *tombK)
	}

	type job struct {
		wi   int
		walk []int32
	}
	jobs := make(chan job, *workers)
	var mu sync.Mutex
	var wg sync.WaitGroup
	var steps, queries int64
	stop := int32(0)
	for w := 0; w < *workers; w++ {
		wg.Add(1)
		go func() {
			defer wg.Done()
			acts := map[string]int64{}
			for j := range jobs {
				tick := x.tick
				var m *c14Mismatch
				var err error
				for attempt := 0; ; attempt++ {
					m, err = x.runWalk(j.wi, j.walk, tick, &steps, &queries, acts)
					if _, miss := err.(*c14TimingMiss); miss && attempt < 3 {
						mu.Lock()
						report.TimingRetries++
						mu.Unlock()
						tick *= 2
						continue
					}
					if itf, ok := err.(*c14Interference); ok && attempt < 3 {
						mu.Lock()
						report.Interference = append(report.Interference, itf.detail)
						mu.Unlock()
						continue // a fresh daemon on fresh ports
					}
					break
				}
				mu.Lock()
				if m != nil {
					report.Mismatches = append(report.Mismatches, *m)
					atomic.StoreInt32(&stop, 1)
				}
				if err != nil {
					if _, miss := err.(*c14TimingMiss); miss {
						report.TimingSkipped++
					} else if _, itf := err.(*c14Interference); itf {
						report.InterferenceSkipped++
					} else {
						report.DriverErrors = append(report.DriverErrors, err.Error())
					}
				}
				if len(report.Samples) < 3 && m == nil && err == nil && len(j.walk) > 4 {
					var hs []string
					for _, ei := range j.walk {
						hs = append(hs, g.edges[ei].String())
						if len(hs) >= 25 {
							break
						}
					}
					last := g.edges[j.walk[len(hs)-1]]
					report.Samples = append(report.Samples, map[string]interface{}{"walk": j.wi, "steps": len(j.walk), "first_steps": hs,
						"expected_after_last_shown": g.obs[last.to], "regime": report.Regime})
				}
				mu.Unlock()
			}
			mu.Lock()
			for k, v := range acts {
				report.ActionCounts[k] += v
			}
			mu.Unlock()
		}()
	}
	planned := int64(0)
	wi := 0
	if *historyF != "" {
		var doc struct {
			Mismatch struct {
				Steps [][]string `json:"steps"`
			} `json:"mismatch"`
		}
		b, err := os.ReadFile(*historyF)
		if err == nil {
			err = json.Unmarshal(b, &doc)
		}
		if err != nil || len(doc.Mismatch.Steps) == 0 {
			fmt.Fprintln(os.Stderr, "history:", err)
			return 2
		}
		var walk []int32
		cur := g.init
		for _, st := range doc.Mismatch.Steps {
			found := false
			for _, ei := range g.out[cur] {
				e := g.edges[ei]
				if len(st) == 4 && e.name == st[0] && e.p == st[1] && e.t == st[2] && e.c == st[3] {
					walk = append(walk, ei)
					cur = e.to
					found = true
					break
				}
			}
			if !found {
				fmt.Fprintf(os.Stderr, "history step %v is not a transition of the model from the state reached\n", st)
				return 2
			}
		}
		jobs <- job{0, walk}
		wi = 1
		atomic.StoreInt32(&stop, 1)
	}
	for atomic.LoadInt32(&stop) == 0 {
		if *budget > 0 && planned >= *budget {
			break
		}
		if *wallBudget > 0 && time.Since(start) > *wallBudget {
			break
		}
		w := pl.nextWalk()
		if w == nil {
			break
		}
		planned += int64(len(w))
		jobs <- job{wi, w}
		wi++
	}
	close(jobs)
	wg.Wait()
	report.Walks = wi
	report.Steps = steps
	report.Queries = queries
	cov, nontriv := 0, 0
	for i, v := range x.executed {
		if v != 0 {
			cov++
			if g.edges[i].from != g.edges[i].to {
				nontriv++
			}
		}
	}
	report.EdgesCovered = cov
	report.NontrivialEdge = nontriv
	report.WallS = time.Since(start).Seconds()
	if err := hlib.WriteJSON(*rep, report); err != nil {
		fmt.Fprintln(os.Stderr, err)
		return 2
	}
	if len(report.Mismatches) > 0 {
		return 1
	}
	if len(report.DriverErrors) > 0 {
		return 2
	}
	return 0
}
