"""C19 -- nsq_to_file never acknowledges what it has not safely written
(spec: FileLoggerAbs / FileLogger / FileLoggerTrace; harness: cmd/filelogger)."""
import json
import os
import re
import shutil
from vlib import Inconclusive, log

META = {
    "technique": "TLC exhaustive check of FileLogger.tla (router loop of file_logger.go over the file-system operations of "
                 "FileLoggerAbs.tla: every option combination, kill / power loss at every step, restart); the real "
                 "nsq_to_file binary run under strace against a real nsqd with the options lattice and the kill points "
                 "TLC enumerated (strace-injected SIGKILL at the n-th write/fsync/close/linkat/unlinkat/openat, SIGTERM, "
                 "SIGHUP, random SIGKILL); syscall logs validated by TLC against FileLoggerTrace.tla; directories "
                 "inspected against what nsqd no longer owes",
    "design_ref": "5/C19",
}

PROPERTY_PREDICATES = ("FinOnlyAfterDurable", "NothingOwedIsMissing", "NeverOverwrite", "DurSane")


def validate(ctx, trace, ntraces, what):
    """Property-level trace validation with this check's verdict policy: a violation only when one of the
    property predicates fails on the recorded execution; a trace the spec cannot follow for any other
    reason means the harness's reading of the syscall log is wrong -> inconclusive."""
    r = ctx.tlc("FileLoggerTrace", "FileLoggerTrace.cfg", workers=1, timeout=1800, jvm=["-Xss512m"],
                files={trace: "trace.ndjson"}, label="trace:" + what)
    if r.ok and "TRACE_OK" in r.out:
        ctx.cov["traces_validated_against_impl"] += ntraces
        log("trace %s: accepted (%d traces, %d states, %.1fs)" % (what, ntraces, r.distinct, r.wall))
        return True
    if r.violated in PROPERTY_PREDICATES:
        os.makedirs(ctx.replay_dir, exist_ok=True)
        dst = os.path.join(ctx.replay_dir, "%s-seed%d.ndjson" % (what, ctx.seed))
        shutil.copy(trace, dst)
        with open(dst + ".tlc.txt", "w") as f:
            f.write(r.out[-30000:])
        tail = r.out[r.out.find("Error:"):][:2500]
        ctx.violation("syscall trace of the real nsq_to_file breaks %s (FileLoggerAbs): %s" % (r.violated, tail), dst,
                      key="trace:" + r.violated)
        return False
    raise Inconclusive("TLC could not follow the recorded syscall trace (harness/model problem, not a verdict):\n"
                       + r.out[-3000:])


def run(ctx):
    quick = ctx.quick
    if ctx.replay:
        # a recorded syscall trace (ndjson of FileLoggerAbs operations): judge it again with TLC
        if ctx.replay.endswith(".ndjson"):
            n = sum(1 for l in open(ctx.replay) if '"Reset"' in l)
            ctx.cov["states"] = ctx.cov["transitions"] = 1
            validate(ctx, ctx.replay, n, "replay")
            ctx.sample({"replayed_trace": ctx.replay, "runs": n})
            return
        raise Inconclusive("replay of %s: directory-inspection findings are reproduced by re-running the check with the "
                           "VERIF_SEED in the file name (the scenario, its options and stop are stored in the file)" % ctx.replay)
    if not shutil.which("strace"):
        raise Inconclusive("strace is not available")
    # 1. the design, exhaustively (bounded): every option combination, stops at every step
    r1 = ctx.model_check("FileLogger", "FileLogger_mc.cfg", timeout=1500)
    ctx.model_check("FileLogger", "FileLogger_batch.cfg", timeout=1500)
    ctx.model_check("FileLogger", "FileLogger_restart.cfg", timeout=1500)
    # the design WITHOUT O_EXCL for gzip (re-open the existing file and append after a restart) must be refuted:
    # kill with an open member, restart, append behind the torn member, fsync, FIN
    rg = ctx.model_check("FileLogger", "FileLogger_gzappend.cfg", expect_ok=False, timeout=1500)
    if rg.violated not in ("FinOnlyAfterDurable", "NothingOwedIsMissing"):
        raise Inconclusive("FileLogger_gzappend.cfg (gzip files re-opened in append mode) should violate FinOnlyAfterDurable, "
                           "TLC says: %s" % (rg.violated,))
    ctx.notes["append_on_restart_design_refuted_by"] = rg.violated
    if not quick:
        ctx.model_check("FileLogger", "FileLogger_thorough.cfg", timeout=3000)
        ctx.model_check("FileLogger", "FileLogger_restart_thorough.cfg", timeout=3000)
    ctx.cov["exhaustive"] = True
    # 2. binding A: the (options, program counter) pairs at which TLC killed the model's process
    kps = {}
    for t in r1.prints("KILLPT"):
        v = [x.strip('"') for x in t]
        if len(v) != 6:
            raise Inconclusive("cannot parse kill point %r" % (t,))
        k = {"gzip": v[0] == "TRUE", "workdir": v[1] == "TRUE", "skip_empty": v[2] == "TRUE",
             "rot_size": int(v[3]), "rot_int": int(v[4]), "pc": v[5]}
        kps[json.dumps(k, sort_keys=True)] = k
    if len(kps) < 100:
        raise Inconclusive("only %d kill points extracted from TLC" % len(kps))
    ctx.notes["tlc_kill_points"] = len(kps)
    kpath = os.path.join(ctx.scratch, "killpts.json")
    with open(kpath, "w") as f:
        json.dump(list(kps.values()), f)
    # 3. the real binary under strace against a real nsqd
    tool = ctx.repo_bin("nsq_to_file")
    trace = os.path.join(ctx.scratch, "filelogger.ndjson")
    rep = os.path.join(ctx.scratch, "filelogger-report.json")
    work = os.path.join(ctx.scratch, "runs")
    os.makedirs(work, exist_ok=True)
    rc, out, err = ctx.run_harness(["run", "--bin", tool, "--scratch", work, "--seed", ctx.seed, "--tier", ctx.tier,
                                    "--killpts", kpath, "--out", trace, "--report", rep, "--parallel", 8],
                                   timeout=3000, name="filelogger")
    if rc != 0 or not os.path.exists(rep):
        raise Inconclusive("filelogger harness failed (rc=%s): %s %s" % (rc, out[-1500:], err[-1500:]))
    R = json.load(open(rep))
    log(out.strip())
    ctx.cov["evaluations"] += R["scenarios"]
    ctx.cov["distinct_nontrivial"] += R["distinct_nontrivial"]
    ctx.cov["rule"] = ("evaluations = runs of the real nsq_to_file binary under strace against a real nsqd (options lattice x "
                       "stop kind, plus TLC kill points); a run is non-trivial when at least one message was acknowledged "
                       "and a data file was written; distinct by (gzip, work-dir, skip-empty, rotate-size on, rotate-interval "
                       "on, datetime format, sync interval, max-in-flight, stop kind, kill-point pc, exit code, rotated, "
                       "link EEXIST, open EEXIST, appended to an existing file, number of SIGHUPs)")
    for k in ("published", "not_owed_checked", "fins", "fsyncs", "files_inspected", "gzip_files_with_torn_tail",
              "gzip_members_left_torn_by_a_dead_process", "stops",
              "exit_codes", "kill_point_runs", "kill_point_fired", "kill_point_pcs_fired", "runs_with_rotation",
              "tool_fatal_exits", "runs_with_restart", "runs_with_link_eexist", "runs_with_open_eexist", "runs_appending_to_existing_file", "stuck_after_stop",
              "trace_events"):
        ctx.notes[k] = R.get(k)
    for s in (R.get("samples") or [])[:4]:
        ctx.sample(s)
    if R.get("notes"):
        ctx.notes["harness_notes"] = R["notes"][:20]
    bykey = {}
    for v in R.get("violations") or []:
        bykey.setdefault(v["key"], []).append(v)
    for key, vs in sorted(bykey.items()):
        v = vs[0]
        ctx.violation("%d run(s) of the real binary: %s [e.g. options %s, stop %s%s]" % (
            len(vs), v["what"], json.dumps(v["scenario"]["opts"]), v["scenario"]["stop"],
            " at " + v["scenario"]["inject"] if v["scenario"].get("inject") else ""),
            ctx.save_replay(re.sub(r"\W+", "_", key), vs), key=key)
    incon = R.get("inconclusive") or []
    if incon:
        ctx.notes["inconclusive_scenarios"] = incon[:10]
        for x in incon[:3]:
            log("scenario not judged: " + x[:700])
    if len(incon) > max(3, R["scenarios"] // 5):
        raise Inconclusive("%d of %d scenarios could not be judged, e.g. %s" % (len(incon), R["scenarios"], incon[0][:600]))
    if R["traces"] == 0 or R["fins"] == 0:
        raise Inconclusive("no usable syscall trace was recorded")
    # 4. binding B: the syscall logs are behaviours of FileLoggerAbs satisfying the property at every step
    validate(ctx, trace, R["traces"], "strace")
    ctx.assumptions += [
        "fsync returning 0 is taken as 'durable' (ordering of fsync before FIN is what is shown; SIGKILL cannot show media loss)",
        "directory entries are not fsynced by nsq_to_file; the statement speaks of the file, and so do spec and check",
        "a message's record is 'body + newline' found in the readable bytes of a file (for gzip: inside complete members)",
        "strace-injected SIGKILL stands for the TLC kill point of the same syscall class (n-th call, not an exact program counter)",
        "nsqd (in-process, real) is the judge of what is still owed: everything it delivers to a drain consumer after the stop",
    ]
