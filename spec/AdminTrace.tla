----------------------------- MODULE AdminTrace -----------------------------
(* Binding B for C17: recorded requests to the real nsqadmin (identity,     *)
(* route, every upstream request it caused, its answer) must satisfy the    *)
(* property-level predicates of Admin.tla -- HasAdminIdentity, RelevantPosts *)
(* and ConfigAllowed are evaluated by TLC on the recorded strings.          *)
EXTENDS Admin

Trace == ndJsonDeserialize("trace.ndjson")
VARIABLE l
tvars == <<vars, l>>

ToSet(s) == {s[i] : i \in 1..Len(s)}
IsEvent(e) == l <= Len(Trace) /\ Trace[l].ev = e /\ l' = l + 1

TraceInit ==
  /\ cfg = Cfg("gate", {}, "X-Forwarded-User", "lookupd", "", "none", {})
  /\ lk = {} /\ lkPre = {} /\ req = NoReq /\ pc = "idle" /\ ups = {} /\ status = 0 /\ warn = FALSE /\ prods = {}
  /\ l = 1 /\ TLCSet(1, 1)

\* a new nsqadmin with a new configuration
TCfg ==
  /\ IsEvent("Cfg")
  /\ LET e == Trace[l] IN
     /\ cfg' = Cfg("gate", ToSet(e.admins), e.header, e.mode, e.cidr, "none", ToSet(e.lk))
     /\ lk' = ToSet(e.lk) /\ lkPre' = ToSet(e.lk)
  /\ req' = NoReq /\ pc' = "idle" /\ ups' = {} /\ status' = 0 /\ warn' = FALSE /\ prods' = {}

TReq ==
  /\ IsEvent("Req") /\ pc \in {"idle", "done"}
  /\ LET e == Trace[l] IN
     req' = Req(e.route, e.method, e.hname, e.hval, e.topic, e.channel, e.action, e.body, e.node, e.opt, e.src, e.put)
  /\ pc' = "route" /\ ups' = {} /\ status' = 0
  /\ UNCHANGED <<cfg, lk, lkPre, warn, prods>>

\* nsqadmin made a request to an upstream while handling req
TUp ==
  /\ IsEvent("Up") /\ pc = "route"
  /\ LET e == Trace[l] IN ups' = ups \cup {Up(e.to, e.m, e.path, e.topic, e.channel, e.node)}
  /\ UNCHANGED <<cfg, lk, lkPre, req, pc, status, warn, prods>>

TResp ==
  /\ IsEvent("Resp") /\ pc = "route"
  /\ status' = Trace[l].status /\ pc' = "done"
  /\ UNCHANGED <<cfg, lk, lkPre, req, ups, warn, prods>>

TraceNext == TCfg \/ TReq \/ TUp \/ TResp
TraceSpec == TraceInit /\ [][TraceNext]_tvars

\* the C17 predicates that are about observable behaviour only (what the answer to a well-formed admin
\* request is beyond "not 403, and it reached everyone when it said 200" is not part of the property)
TraceProperty ==
  /\ ForbiddenMeansSilent
  /\ NonAdminRefused
  /\ OnlyAdminsMutate
  /\ ForwardReachesAllRelevant
  /\ AdminNeverForbidden
  /\ (Finished /\ IsReadOnly(req) => status # 403)
  /\ ConfigGate

HW == IF l > TLCGet(1) THEN TLCSet(1, l) ELSE TRUE
TraceAccepted ==
  LET hw == TLCGet(1) IN
  IF hw = Len(Trace) + 1 THEN PrintT(<<"TRACE_OK", Len(Trace)>>)
  ELSE PrintT(<<"TRACE_REJECTED", hw, Trace[hw]>>) /\ FALSE
=============================================================================
