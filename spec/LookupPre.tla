----------------------------- MODULE LookupPre -----------------------------
(***************************************************************************)
(* C16, second sentence: "a topic first created on an nsqd starts with      *)
(* every non-ephemeral channel its nsqlookupds already know for it".        *)
(*                                                                         *)
(* nsqd keeps, per configured nsqlookupd, a TCP connection (lazy: it is     *)
(* re-established only when the lookup loop has its next command to send)   *)
(* and the peer info it learnt from the last IDENTIFY answer -- among it    *)
(* the HTTP address that NSQD.GetTopic asks for the topic's channels, in    *)
(* the caller's goroutine, before the topic's pump is started.              *)
(*                                                                         *)
(* ForgetOnClose = TRUE drops the cached info together with the connection  *)
(* ("it belongs to the connection"): refuted -- between a failed command    *)
(* and the next one the healthy nsqlookupd is not asked.                    *)
(***************************************************************************)
EXTENDS Integers, FiniteSets, TLC
CONSTANTS Peers, Chans, ForgetOnClose
VARIABLES conn,     \* peer -> "up" | "down"
          info,     \* peer -> TRUE once an IDENTIFY answer told nsqd the peer's HTTP address
          httpUp,   \* peer -> its HTTP API answers
          reg,      \* peer -> channels it has registered for the topic
          created,  \* the topic exists on this nsqd
          got,      \* the channels it started with
          healthy,  \* history: peers whose HTTP API has been up ever since nsqd first learnt their address
          healthyAt \* ... at the moment the topic was created
vars == <<conn, info, httpUp, reg, created, got, healthy, healthyAt>>

Init == /\ conn = [p \in Peers |-> "down"] /\ info = [p \in Peers |-> FALSE] /\ httpUp = [p \in Peers |-> TRUE]
        /\ reg = [p \in Peers |-> {}] /\ created = FALSE /\ got = {} /\ healthy = {} /\ healthyAt = {}

\* the lookup loop has a command for p: connect + IDENTIFY first if need be
Connect(p)  == /\ conn[p] = "down" /\ httpUp[p]
               /\ conn' = [conn EXCEPT ![p] = "up"] /\ info' = [info EXCEPT ![p] = TRUE]
               /\ healthy' = healthy \cup {p}
               /\ UNCHANGED <<httpUp, reg, created, got, healthyAt>>
\* a command fails (connection dropped, bad answer, time-out): lookupPeer.Close()
CmdFails(p) == /\ conn[p] = "up"
               /\ conn' = [conn EXCEPT ![p] = "down"]
               /\ info' = IF ForgetOnClose THEN [info EXCEPT ![p] = FALSE] ELSE info
               /\ UNCHANGED <<httpUp, reg, created, got, healthy, healthyAt>>
\* the nsqlookupd goes away altogether / comes back
Down(p)     == httpUp[p] /\ httpUp' = [httpUp EXCEPT ![p] = FALSE] /\ conn' = [conn EXCEPT ![p] = "down"]
               /\ healthy' = healthy \ {p} /\ UNCHANGED <<info, reg, created, got, healthyAt>>
\* another nsqd registers a channel of the topic there
Register(p, c) == httpUp[p] /\ ~created /\ reg' = [reg EXCEPT ![p] = @ \cup {c}] /\ UNCHANGED <<conn, info, httpUp, created, got, healthy, healthyAt>>
\* NSQD.GetTopic for a new topic: ask every peer whose HTTP address is known
GetTopic    == /\ ~created /\ created' = TRUE
               /\ got' = UNION {reg[p] : p \in {q \in Peers : info[q] /\ httpUp[q]}}
               /\ healthyAt' = healthy
               /\ UNCHANGED <<conn, info, httpUp, reg, healthy>>

Next == \/ \E p \in Peers : Connect(p) \/ CmdFails(p) \/ Down(p)
        \/ \E p \in Peers, c \in Chans : Register(p, c)
        \/ GetTopic
Spec == Init /\ [][Next]_vars

\* every channel known to an nsqlookupd that has been reachable since nsqd learnt its address is there from the start
PreCreated == created => \A p \in healthyAt : reg[p] \subseteq got
=============================================================================
