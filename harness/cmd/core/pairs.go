package main

import (
	"encoding/json"
	"flag"
	"fmt"
	"os"
	"runtime"
	"strings"
	"sync"
	"time"

	"github.com/nsqio/nsq/internal/verif"
	"github.com/nsqio/nsq/nsqd"
	"github.com/nsqio/nsq/verifharness/hlib"
)

// Binding A': TLC (NsqdCore) enumerates every interleaving of the critical sections of two operations; the
// replayer forces each schedule on the real daemon through the verif yield points and observes the outcome.

type earlyRelease struct {
	After  int    `json:"after"`  // after this many schedule entries ...
	Actor  string `json:"actor"`  // ... this actor is let go without waiting for it (it will block on a lock)
	Launch bool   `json:"launch"` // ... it has not been started yet: it is started (and must then block before its first yield point)
}

type pairCase struct {
	OpA       string          `json:"opA"`
	OpB       string          `json:"opB"`
	OpC       string          `json:"opC"`
	Situation string          `json:"situation"`
	Sched     []string        `json:"sched"`
	Early     []earlyRelease  `json:"early"`
	Free      []string        `json:"free"`                   // actors that are not gated: they run as the Go scheduler lets them
	Alts      json.RawMessage `json:"alternatives,omitempty"` // TLC's outcomes for this replay (passed through)
	// TLC's prediction
	Crashed bool `json:"crashed"`
	NIfm    int  `json:"nifm"`
	NQ      int  `json:"nq"`
	Cnt1    int  `json:"cnt1"`
	Cnt2    int  `json:"cnt2"`
	NHeap   int  `json:"nheap"`
	FinM1   bool `json:"fin_m1"`
	DiskM1  bool `json:"disk_m1"`
	DiskM2  bool `json:"disk_m2"`
}

type pairObs struct {
	BackM1    bool     `json:"back_m1"`
	BackM2    bool     `json:"back_m2"`
	Restarted bool     `json:"restarted"`
	Case      pairCase `json:"case"`
	Done      bool     `json:"done"`
	Blocked   string   `json:"blocked,omitempty"`
	Breach    string   `json:"breach,omitempty"` // an operation that NsqdCore says waits for a lock went ahead
	Incon     string   `json:"inconclusive,omitempty"`
	NIfm      int      `json:"nifm"`
	NIfm1     int      `json:"nifm1"`
	NIfm2     int      `json:"nifm2"`
	NHeap     int      `json:"nheap"`
	NQ        int64    `json:"nq"`
	Cnt1      int64    `json:"cnt1"`
	Cnt2      int64    `json:"cnt2"`
	FinM1     bool     `json:"fin_m1"`
	AfterScan int      `json:"inflight_after_forced_timeouts"`
	StatsIF   int64    `json:"stats_in_flight"`
	Events    int      `json:"events"`
}

type gateCtl struct {
	mu      sync.Mutex
	armed   map[string]bool
	waiting map[string]chan struct{}
	arrived chan string
}

func newGateCtl() *gateCtl {
	return &gateCtl{armed: map[string]bool{}, waiting: map[string]chan struct{}{}, arrived: make(chan string, 64)}
}

func (g *gateCtl) fn(point string, key interface{}) {
	id := point + "|" + fmt.Sprint(key)
	g.mu.Lock()
	if !g.armed[id] {
		g.mu.Unlock()
		return
	}
	g.armed[id] = false
	ch := make(chan struct{})
	g.waiting[id] = ch
	g.mu.Unlock()
	g.arrived <- id
	<-ch
}

func (g *gateCtl) arm(id string) { g.mu.Lock(); g.armed[id] = true; g.mu.Unlock() }

func (g *gateCtl) release(id string) {
	g.mu.Lock()
	if ch, ok := g.waiting[id]; ok {
		close(ch)
		delete(g.waiting, id)
	}
	g.armed[id] = false
	g.mu.Unlock()
}

func (g *gateCtl) releaseAll() {
	g.mu.Lock()
	for id, ch := range g.waiting {
		close(ch)
		delete(g.waiting, id)
	}
	for id := range g.armed {
		g.armed[id] = false
	}
	g.mu.Unlock()
}

type actor struct {
	op       string
	gates    []string // gate ids in the order the operation passes them
	pos      int      // index of the gate the actor is parked at (-1: not launched)
	launched bool
	parked   bool // launched during the set-up and waiting for input: its first segment ENDS at gate 0
	taken    bool // ... and that first segment has been accounted for
	free     bool // not gated
	early    bool // started ahead of its turn (it waits on a lock): its first segment ENDS when it shows up at gate 0
	done     chan struct{}
	finished bool
	launch   func()
}

func pairsMain(args []string) int {
	fs := flag.NewFlagSet("pairs", flag.ExitOnError)
	in := fs.String("cases", "cases.json", "schedules from TLC")
	out := fs.String("out", "obs.ndjson", "observations")
	progress := fs.String("progress", "progress.txt", "index of the case being replayed (for crash attribution)")
	from := fs.Int("from", 0, "first case index")
	dir := fs.String("dir", "", "scratch dir")
	fs.Parse(args)
	data, err := os.ReadFile(*in)
	if err != nil {
		fmt.Fprintln(os.Stderr, err)
		return 2
	}
	var cases []pairCase
	if err := json.Unmarshal(data, &cases); err != nil {
		fmt.Fprintln(os.Stderr, err)
		return 2
	}
	f, err := os.OpenFile(*out, os.O_WRONLY|os.O_CREATE|os.O_APPEND, 0644)
	if err != nil {
		return 2
	}
	defer f.Close()
	for i := *from; i < len(cases); i++ {
		os.WriteFile(*progress, []byte(fmt.Sprint(i)), 0644)
		d := fmt.Sprintf("%s/case%d", *dir, i)
		os.MkdirAll(d, 0755)
		obs := replayPair(cases[i], d)
		os.RemoveAll(d)
		b, _ := json.Marshal(obs)
		f.Write(append(b, '\n'))
		f.Sync()
	}
	os.WriteFile(*progress, []byte(fmt.Sprint(len(cases))), 0644)
	return 0
}

func replayPair(pc pairCase, dir string) *pairObs {
	obs := &pairObs{Case: pc}
	var evmu sync.Mutex
	var evs []verif.Event
	cmdDone := map[string]chan struct{}{} // "k|CMD" -> closed when KCmd seen
	sentTo := map[int64]chan struct{}{}
	var sinkMu sync.Mutex
	watchCmd := func(k int64, cmd string) chan struct{} {
		sinkMu.Lock()
		defer sinkMu.Unlock()
		ch := make(chan struct{})
		cmdDone[fmt.Sprintf("%d|%s", k, cmd)] = ch
		return ch
	}
	verif.SetSink(func(e verif.Event) {
		evmu.Lock()
		evs = append(evs, e)
		evmu.Unlock()
		switch e.Ev {
		case "KCmd":
			key := fmt.Sprintf("%d|%s", hlib.KVInt(e, "k"), hlib.KVStr(e, "cmd"))
			sinkMu.Lock()
			if ch, ok := cmdDone[key]; ok {
				close(ch)
				delete(cmdDone, key)
			}
			sinkMu.Unlock()
		case "CClosed":
			sinkMu.Lock()
			if ch, ok := cmdDone["closed|"+hlib.KVStr(e, "c")]; ok {
				close(ch)
				delete(cmdDone, "closed|"+hlib.KVStr(e, "c"))
			}
			sinkMu.Unlock()
		case "Sent":
			sinkMu.Lock()
			if ch, ok := sentTo[hlib.KVInt(e, "k")]; ok {
				close(ch)
				delete(sentTo, hlib.KVInt(e, "k"))
			}
			sinkMu.Unlock()
		}
	})
	defer verif.SetSink(nil)
	g := newGateCtl()
	verif.SetGate(g.fn)
	defer verif.SetGate(nil)

	nd, err := startNode(dir, func(o *nsqd.Options) {
		o.MemQueueSize = 10
		o.MsgTimeout = 10 * time.Minute
		o.MaxMsgTimeout = 20 * time.Minute
		o.QueueScanInterval = time.Hour // the real scan loop is parked; the scan is an explicit operation
		o.QueueScanRefreshInterval = time.Hour
	})
	if err != nil {
		obs.Incon = "start: " + err.Error()
		return obs
	}
	defer func() {
		g.releaseAll()
		nd.stop(20 * time.Second)
	}()
	fail := func(f string, a ...interface{}) *pairObs { obs.Incon = fmt.Sprintf(f, a...); return obs }
	if st, _, err := nd.post("/topic/create?topic=t", nil); err != nil || st != 200 {
		return fail("create topic")
	}
	if st, _, err := nd.post("/channel/create?topic=t&channel=c", nil); err != nil || st != 200 {
		return fail("create channel")
	}
	c1, err := dial(nd.TCP, "k1")
	if err != nil {
		return fail("dial")
	}
	defer c1.close()
	c2, err := dial(nd.TCP, "k2")
	if err != nil {
		return fail("dial")
	}
	defer c2.close()
	for _, c := range []*Conn{c1, c2} {
		if _, err := c.identify(nil); err != nil {
			return fail("identify: %v", err)
		}
		if err := c.sub("t", "c"); err != nil {
			return fail("sub: %v", err)
		}
	}
	kOf := func(name string) int64 {
		evmu.Lock()
		defer evmu.Unlock()
		for _, e := range evs {
			if e.Ev == "KIdent" && hlib.KVStr(e, "cid") == name {
				return hlib.KVInt(e, "k")
			}
		}
		return -1
	}
	k1, k2 := kOf("k1"), kOf("k2")
	topic, _ := nd.N.GetExistingTopic("t")
	ch, _ := topic.GetExistingChannel("c")
	cname := nsqd.VerifName(ch)
	// situation: m1 in flight to k1, m2 queued, k2 subscribed with RDY 0
	c1.cmd("RDY", "", "1")
	if st, _, err := nd.post("/pub?topic=t", []byte("m1")); err != nil || st != 200 {
		return fail("pub m1")
	}
	f, ok := c1.next(10 * time.Second)
	if !ok || f.Type != 2 {
		return fail("m1 not delivered to k1")
	}
	m1 := f.ID
	c1.cmd("RDY", "", "0")
	if _, err := c1.barrier(10 * time.Second); err != nil {
		return fail("barrier: %v", err)
	}
	if pc.Situation == "twoflight" {
		// m2 goes in flight to k2 (m1 stays in flight to k1): two messages for one scan
		c2.cmd("RDY", "", "1")
		if st, _, err := nd.post("/pub?topic=t", []byte("m2")); err != nil || st != 200 {
			return fail("pub m2")
		}
		f2, ok := c2.next(10 * time.Second)
		if !ok || f2.Type != 2 {
			return fail("m2 not delivered to k2")
		}
		c2.cmd("RDY", "", "0")
		if _, err := c2.barrier(10 * time.Second); err != nil {
			return fail("barrier: %v", err)
		}
	}
	if pc.Situation == "k1deferred" {
		// k1 requeues m1 with a long delay: it waits in the deferred map, k1 stays connected
		c1.cmd("REQ", m1, "600000")
		if _, err := c1.barrier(10 * time.Second); err != nil {
			return fail("barrier: %v", err)
		}
		for i := 0; ; i++ {
			_, _, dm, _, _ := nsqd.VerifChannelSnapshot(ch)
			if dm == 1 {
				break
			}
			if i > 2000 {
				return fail("m1 did not reach the deferred map")
			}
			time.Sleep(2 * time.Millisecond)
		}
	}
	if pc.Situation != "k2waiting" && pc.Situation != "twoflight" {
		if st, _, err := nd.post("/pub?topic=t", []byte("m2")); err != nil || st != 200 {
			return fail("pub m2")
		}
		// wait until m2 sits in the channel queue
		for i := 0; ; i++ {
			_, _, _, _, mem := nsqd.VerifChannelSnapshot(ch)
			if mem == 1 {
				break
			}
			if i > 2000 {
				return fail("m2 did not reach the channel queue")
			}
			time.Sleep(2 * time.Millisecond)
		}
	}

	exitReturned := make(chan struct{})
	mk := func(op string) *actor {
		a := &actor{op: op, pos: -1, done: make(chan struct{})}
		gid := func(point string, key interface{}) string { return point + "|" + fmt.Sprint(key) }
		switch op {
		case "FIN":
			a.gates = []string{gid("fin.afterPop", k1), gid("fin.beforeClientCount", k1)}
			w := watchCmd(k1, "FIN")
			a.launch = func() { c1.cmd("FIN", m1, ""); go func() { <-w; close(a.done) }() }
		case "FIN2":
			w := watchCmd(k2, "FIN")
			a.launch = func() { c2.cmd("FIN", m1, ""); go func() { <-w; close(a.done) }() }
		case "REQ0":
			a.gates = []string{gid("req.afterPop", k1), gid("req.beforePut", k1), gid("req.beforeClientCount", k1)}
			w := watchCmd(k1, "REQ")
			a.launch = func() { c1.cmd("REQ", m1, "0"); go func() { <-w; close(a.done) }() }
		case "TOUCH":
			a.gates = []string{gid("touch.afterPop", k1), gid("touch.afterHeapRem", k1), gid("touch.afterPush", k1)}
			w := watchCmd(k1, "TOUCH")
			a.launch = func() { c1.cmd("TOUCH", m1, ""); go func() { <-w; close(a.done) }() }
		case "SCAN":
			a.gates = []string{gid("scan.afterPeek", cname), gid("scan.afterPop", cname)}
			a.launch = func() {
				// (the in-flight half only: the worker's deferred half is a critical section of its own, which a waiting
				// Channel.Close may get in front of)
				go func() { nsqd.VerifScanInFlight(ch, time.Now().Add(time.Hour).UnixNano()); close(a.done) }()
			}
		case "DELIVER":
			a.gates = []string{gid("pump.afterRecv", k2), gid("sift.afterMapPush", k2), gid("pump.afterStart", k2)}
			sinkMu.Lock()
			w := make(chan struct{})
			sentTo[k2] = w
			sinkMu.Unlock()
			a.launch = func() {
				c2.cmd("RDY", "", "1")
				go func() {
					select {
					case <-w:
					case <-time.After(400 * time.Millisecond):
						// nothing was there to deliver (only if no gate was reached either)
						if a.pos != -1 {
							<-w
						}
					}
					close(a.done)
				}()
			}
		case "DELIVERQ":
			// k2 is parked in its pump's receive with RDY 1 before anything else starts
			a.gates = []string{gid("pump.afterRecv", k2), gid("sift.afterMapPush", k2), gid("pump.afterStart", k2)}
			sinkMu.Lock()
			w := make(chan struct{})
			sentTo[k2] = w
			sinkMu.Unlock()
			a.parked = true
			a.launched = true
			a.launch = func() {}
			go func() { <-w; close(a.done) }()
		case "EXIT":
			a.gates = []string{gid("chan.exit.flag", cname), gid("chan.exit.clientsClosed", cname), gid("chan.flush.afterMem", cname)}
			// the operation modelled is the channel's Close (flag .. flush); nsqd.Exit itself returns only after
			// every connection goroutine has ended, i.e. after the other operation was released
			sinkMu.Lock()
			w := make(chan struct{})
			cmdDone["closed|"+cname] = w
			sinkMu.Unlock()
			a.launch = func() {
				go func() { nd.N.Exit(); close(exitReturned) }()
				go func() { <-w; close(a.done) }()
			}
		case "EMPTY":
			a.gates = []string{gid("empty.afterReset", cname), gid("empty.afterClients", cname)}
			a.launch = func() {
				go func() { nd.post("/channel/empty?topic=t&channel=c", nil); close(a.done) }()
			}
		}
		for _, id := range a.gates {
			g.arm(id)
		}
		return a
	}
	actors := map[string]*actor{"A": mk(pc.OpA), "B": mk(pc.OpB)}
	if pc.OpC != "" && pc.OpC != "NONE" {
		actors["C"] = mk(pc.OpC)
	}
	for _, a := range actors {
		if a.parked {
			c2.cmd("RDY", "", "1")
			if _, err := c2.barrier(10 * time.Second); err != nil {
				return fail("barrier k2: %v", err)
			}
		}
	}
	for _, x := range pc.Free {
		if a := actors[x]; a != nil {
			a.free = true
			for _, id := range a.gates {
				g.release(id) // disarm
			}
		}
	}
	note := func(id string) {
		for _, b := range actors {
			for i, gg := range b.gates {
				if gg == id {
					b.pos = i
				}
			}
		}
	}

	// step: run actor x for one segment: until it parks at its next gate or completes
	step := func(x string) string {
		a := actors[x]
		if a.finished {
			if obs.Breach != "" {
				return "" // it was let run to its end when it went past the lock (see Early)
			}
			return "already finished"
		}
		if a.parked && !a.taken {
			// its first segment (the receive) needs no release: it is over when the actor shows up at gate 0
			a.taken = true
			if a.pos >= 0 {
				return ""
			}
		} else if !a.launched {
			a.launched = true
			a.launch()
		} else if a.early {
			// started ahead of its turn: this step is its first segment, over once it shows up at its first yield point
			a.early = false
			if a.pos >= 0 {
				return ""
			}
		} else {
			g.release(a.gates[a.pos])
		}
		deadline := time.After(5 * time.Second)
		for {
			select {
			case id := <-g.arrived:
				note(id) // which actor parked?
				if a.pos >= 0 && a.gates[a.pos] == id {
					return ""
				}
			case <-a.done:
				a.finished = true
				return ""
			case <-deadline:
				return "segment of " + a.op + " neither reached its next yield point nor completed within 5s"
			}
		}
	}
	for i, x := range pc.Sched {
		for _, e := range pc.Early {
			if e.After == i {
				if b := actors[e.Actor]; b != nil && b.launched && !b.finished && b.pos >= 0 && !e.Launch {
					g.release(b.gates[b.pos]) // it runs up to the lock somebody else holds
					time.Sleep(5 * time.Millisecond)
				}
				if b := actors[e.Actor]; b != nil && e.Launch && !b.launched {
					// started while the other operation holds the lock it needs: it has to sit on that lock.  If it
					// reaches its first yield point all the same, the lock did not hold it: it is then let run to its end
					// BEFORE the other operation goes on -- the execution the lock exists to rule out -- and the outcome
					// is judged like any other
					b.launched = true
					b.early = true
					b.launch()
					arrived := false
					tmo := time.After(400 * time.Millisecond)
				waitEarly:
					for {
						select {
						case id := <-g.arrived:
							note(id)
							if b.pos >= 0 {
								arrived = true
								break waitEarly
							}
						case <-b.done:
							b.finished = true
							arrived = true
							break waitEarly
						case <-tmo:
							break waitEarly
						}
					}
					if arrived {
						obs.Breach = "operation " + b.op + " went ahead although " + pc.OpA + " was inside the section that holds it off"
						for !b.finished {
							if b.pos >= 0 {
								g.release(b.gates[b.pos])
							}
							adv := false
							t2 := time.After(5 * time.Second)
						waitRun:
							for {
								select {
								case id := <-g.arrived:
									note(id)
									adv = true
									break waitRun
								case <-b.done:
									b.finished = true
									adv = true
									break waitRun
								case <-t2:
									break waitRun
								}
							}
							if !adv {
								break
							}
						}
					}
				}
			}
		}
		if a := actors[x]; a != nil && a.free {
			continue
		}
		if msg := step(x); msg != "" {
			obs.Blocked = fmt.Sprintf("step %d (%s): %s", i, x, msg)
			if os.Getenv("VERIF_DUMP") != "" {
				buf := make([]byte, 1<<20)
				buf = buf[:runtime.Stack(buf, true)]
				os.Stderr.Write(buf)
			}
			break
		}
	}
	g.releaseAll()
	// let both operations run to completion
	for _, a := range actors {
		if a.free {
			a.finished = true // whatever it did shows in the settled outcome
			continue
		}
		if a.parked && !a.taken && a.pos < 0 {
			// nothing ever reached the parked receiver: it is still waiting, which is where NsqdCore leaves it
			select {
			case id := <-g.arrived:
				note(id)
			case <-time.After(50 * time.Millisecond):
			}
			if a.pos < 0 {
				a.finished = true
				continue
			}
		}
		if a.launched && !a.finished {
			select {
			case <-a.done:
				a.finished = true
			case <-time.After(10 * time.Second):
				if obs.Blocked == "" {
					obs.Blocked = "operation " + a.op + " never completed after all gates were released"
				}
			}
		}
	}
	obs.Done = obs.Blocked == ""
	time.Sleep(30 * time.Millisecond)
	evmu.Lock()
	for _, e := range evs {
		if e.Ev == "FinDone" && hlib.KVStr(e, "id") == m1 {
			obs.FinM1 = true
		}
	}
	obs.Events = len(evs)
	evmu.Unlock()
	if pc.OpA == "EXIT" || pc.OpB == "EXIT" {
		// graceful shutdown was one of the two operations: restart on the same data path and see what comes back
		if !obs.Done {
			return obs
		}
		select {
		case <-exitReturned:
		case <-time.After(20 * time.Second):
			obs.Blocked = "nsqd.Exit did not return within 20s after all yield points were released"
			obs.Done = false
			return obs
		}
		verif.SetGate(nil)
		c1.close()
		c2.close()
		nd2, err := startNode(dir, func(o *nsqd.Options) { o.MemQueueSize = 10 })
		if err != nil {
			obs.Incon = "restart: " + err.Error()
			return obs
		}
		defer nd2.stop(20 * time.Second)
		obs.Restarted = true
		dc, err := dial(nd2.TCP, "drain")
		if err != nil {
			obs.Incon = "restart dial: " + err.Error()
			return obs
		}
		defer dc.close()
		if _, err := dc.identify(nil); err != nil {
			obs.Incon = "restart identify: " + err.Error()
			return obs
		}
		if err := dc.sub("t", "c"); err != nil {
			obs.Incon = "restart sub: " + err.Error()
			return obs
		}
		dc.cmd("RDY", "", "10")
		idle := 0
		for idle < 12 {
			f, ok := dc.next(25 * time.Millisecond)
			if !ok {
				idle++
				continue
			}
			idle = 0
			if f.Type == 2 {
				switch string(f.Body) {
				case "m1":
					obs.BackM1 = true
				case "m2":
					obs.BackM2 = true
				}
				dc.cmd("FIN", f.ID, "")
			}
		}
		return obs
	}
	// ---- observe: two consecutive identical readings (the channel's structures and the connections' counters are
	// updated by different goroutines; a reading taken while one of them is between the two is not an outcome)
	read := func() [8]int64 {
		var r [8]int64
		nifm, nheap, _, _, _ := nsqd.VerifChannelSnapshot(ch)
		own := nsqd.VerifInFlightOwners(ch)
		r[0], r[1], r[2], r[3] = int64(nifm), int64(nheap), int64(own[k1]), int64(own[k2])
		if st, _, err := nd.stats(""); err == nil {
			for _, ts := range st.Topics {
				for _, cs := range ts.Channels {
					r[4] = cs.Depth
					r[5] = cs.InFlightCount
					for _, k := range cs.Clients {
						if k.ClientID == "k1" {
							r[6] = k.InFlightCount
						}
						if k.ClientID == "k2" {
							r[7] = k.InFlightCount
						}
					}
				}
			}
		}
		return r
	}
	prev := read()
	stable := false
	for i := 0; i < 100; i++ {
		time.Sleep(10 * time.Millisecond)
		cur := read()
		if cur == prev {
			stable = true
			break
		}
		prev = cur
	}
	if !stable {
		obs.Incon = "the channel did not settle within 1s after both operations completed"
		return obs
	}
	obs.NIfm, obs.NHeap, obs.NIfm1, obs.NIfm2 = int(prev[0]), int(prev[1]), int(prev[2]), int(prev[3])
	obs.NQ, obs.StatsIF, obs.Cnt1, obs.Cnt2 = prev[4], prev[5], prev[6], prev[7]
	// every message still in flight must have a deadline: force all timeouts and look again
	c1.cmd("RDY", "", "0")
	c2.cmd("RDY", "", "0")
	c1.barrier(5 * time.Second)
	c2.barrier(5 * time.Second)
	nsqd.VerifScan(ch, time.Now().Add(time.Hour).UnixNano())
	obs.AfterScan, _, _, _, _ = nsqd.VerifChannelSnapshot(ch)
	_ = strings.TrimSpace
	return obs
}
