------------------------------ MODULE NsqdTcp ------------------------------
(* C09 -- nsqd TCP protocol (V2): every input gets its defined answer; limits hold.  *)
(*                                                                                  *)
(* One client connection talking to one nsqd (TLS not required, auth off).  The     *)
(* daemon's limits (max-msg-size, max-body-size, max-rdy-count, max-req-timeout,    *)
(* heartbeat / output-buffer / msg-timeout / sample-rate ranges, name rules, the    *)
(* 16 KiB command line buffer) are SYMBOLIC THRESHOLDS: commands carry ARGUMENT     *)
(* CLASSES positioned relative to the thresholds ("max", "maxp1", ...).  A trusted  *)
(* concretiser in the harness (harness/cmd/api09) maps every class to boundary      *)
(* members + seeded random members for the limits the real daemon was started with. *)
(*                                                                                  *)
(* The specification is a TOTAL TABLE: for every connection state and every command *)
(* class there is exactly one outcome [frame, body, codes, fatal, echo] and one     *)
(* effect (state change, messages enqueued, topics created).  Where one input has   *)
(* several faults, `codes` holds the documented code of each of them.               *)
(*                                                                                  *)
(* Anchors: nsqd/protocol_v2.go IOLoop/Exec/IDENTIFY/AUTH/SUB/RDY/FIN/REQ/CLS/NOP/  *)
(* PUB/MPUB/DPUB/TOUCH/readMPUB, nsqd/client_v2.go Identify/Set*, nsqd/tcp.go       *)
(* Handle, internal/protocol/names.go, byte_base10.go; nsqd/nsqd.go                 *)
(* DeleteExistingTopic + nsqd/topic.go PutMessage(s) (publish to a topic that is    *)
(* being deleted: name class "dying").                                              *)
EXTENDS Naturals, Sequences, FiniteSets, TLC

CONSTANTS Setups,       \* set of [pre |-> prepared prefix (sequence of Core commands), d |-> depth explored after it]
          PrefixFine,   \* TRUE: every class at every position; FALSE: non-final positions use Core only
          Backlog       \* messages waiting in the channel the connection subscribes to (<= 2)

ASSUME Backlog \in 0..2 /\ PrefixFine \in BOOLEAN

VARIABLES st,       \* "new" (no magic yet) / "init" / "sub" / "closing" / "closed"
          hbOff,    \* heartbeats disabled by IDENTIFY heartbeat_interval=-1 (SUB is then refused)
          sampled,  \* some IDENTIFY asked for a sample rate (deliveries are then not predicted)
          zip,      \* "none" / "snappy" / "deflate" negotiated
          rdy,      \* 0, 1, 2 (= two or more)
          held,     \* messages in flight to this connection
          avail,    \* messages queued in the subscribed channel
          cmd,      \* the command class just sent
          last,     \* its outcome
          enq,      \* abstract sequence of Enqueue(topic class, count class, deferred)
          topics,   \* name classes of topics this connection has caused to exist
          hist,     \* the commands sent so far (after the magic)
          pre,      \* what is left of the prepared prefix
          left,     \* how many more commands may be explored
          stop,     \* the last command was a non-Core class: the sequence ends here (PrefixFine = FALSE)
          ost       \* state of every OTHER connection (bystander): never touched

fsm  == <<st, hbOff, sampled, zip, rdy, held, avail>>
vars == <<st, hbOff, sampled, zip, rdy, held, avail, cmd, last, enq, topics, hist, pre, left, stop, ost>>

Min(a, b) == IF a < b THEN a ELSE b
Max(a, b) == IF a > b THEN a ELSE b

(* ------------------------------------------------------------------ classes *)
\* topic / channel names: ^[.a-zA-Z0-9_-]+(#ephemeral)?$ and 1..64 bytes
NameOK  == {"valid", "valid1", "valid64", "eph", "eph64"}
NameBad == {"badchar", "toolong", "eph65", "emptyname", "onlyeph", "ephmid"}
Names   == NameOK \cup NameBad
\* "dying": a VALID name of a topic whose deletion has begun and is not finished.  Anchor: the ordering
\* comment in NSQD.DeleteExistingTopic (nsqd/nsqd.go) -- topic.Delete() sets the exit flag, stops the pump
\* and removes the files BEFORE the topic is unlinked from topicMap, "so that any incoming writes will
\* error and not create a new topic".  In between GetTopic(name) still returns the exiting topic and
\* Topic.PutMessage / PutMessages refuse ("exiting"); PUB / MPUB / DPUB (nsqd/protocol_v2.go) wrap that
\* into the fatal E_PUB_FAILED / E_MPUB_FAILED / E_DPUB_FAILED.  The class is used by the three publish
\* commands only, with otherwise valid arguments (combined faults are not tabulated: the name is looked
\* at last).  The harness holds the window open at the verif yield point "topicdelete.afterDelete".
NameDying == {"dying"}
PubNames  == Names \cup NameDying

\* 4-byte big-endian size prefix + body, against max-msg-size
SizeOK  == {"one", "mid", "max"}
SizeBad == {"zero", "neg", "negone", "maxp1", "huge", "trunclen", "truncbody"}
Sizes   == SizeOK \cup SizeBad

\* decimal numbers.  "empty" is a zero-length parameter (parses as 0), "absent" no parameter at all,
\* "leadzero" an in-range value padded with zeros, "i63" 2^63-1..2^63+k, "u64max" 2^64-1,
\* "ovf64" >= 2^64 (including spellings that wrap to an in-range value), "durovf" a millisecond
\* count whose nanosecond value does not fit 63 bits
RdyOK    == {"absent", "zero", "one", "mid", "max", "empty", "leadzero"}
RdyBad   == {"maxp1", "big", "i63", "u64max", "ovf64", "nondigit"}
RdyVal(c) == IF c \in {"zero", "empty"} THEN 0 ELSE IF c \in {"absent", "one"} THEN 1 ELSE 2

DelayOK  == {"zero", "one", "mid", "max", "empty", "leadzero"}            \* DPUB accepts
DelayBad == {"maxp1", "durovf", "i63", "u64max", "ovf64", "nondigit"}     \* DPUB: E_INVALID
ReqNow   == {"zero", "one", "empty"}                                       \* REQ: back in the queue (now or within 1 ms)
ReqDefer == {"mid", "max", "leadzero", "maxp1", "durovf", "i63", "u64max"} \* REQ: deferred (clamped to max-req-timeout)
ReqBad   == {"ovf64", "nondigit", "missing"}                               \* REQ: E_INVALID
Delays   == DelayOK \cup DelayBad

\* message ids
IdLen16  == {"held", "other", "never"}
IdBadLen == {"short", "long", "emptyid", "missing"}
Ids      == IdLen16 \cup IdBadLen

\* IDENTIFY: one JSON field varied at a time (the rest default), or the body as a whole
IdOK == [ hb   |-> {"def0", "off", "min", "mid", "max"},
          obs  |-> {"def0", "off", "min", "mid", "max"},
          obt  |-> {"def0", "off", "min", "mid", "max"},
          mt   |-> {"def0", "min", "mid", "max"},
          sr   |-> {"def0", "min", "mid", "max"},
          dl   |-> {"def0", "mid", "max", "maxp1", "above9", "neg"},
          comp |-> {"snappy", "deflate", "bothnofn", "tls", "nofn"},
          body |-> {"empty", "null", "big"} ]
IdBad == [ hb   |-> {"belowmin", "maxp1", "neg", "huge", "ovf", "float", "str"},
           obs  |-> {"belowmin", "maxp1", "neg", "huge", "ovf", "float", "str"},
           obt  |-> {"belowmin", "maxp1", "neg", "huge", "ovf", "float", "str"},
           mt   |-> {"belowmin", "maxp1", "off", "neg", "huge", "ovf", "float", "str"},
           sr   |-> {"maxp1", "neg", "huge", "ovf", "float", "str"},
           dl   |-> {"ovf", "float", "str"},
           comp |-> {"both"},
           body |-> {"array", "badjson", "zero", "neg", "negone", "maxp1", "huge", "trunclen", "truncbody"} ]
IdFields == {"hb", "obs", "obt", "mt", "sr", "dl", "comp", "body"}

\* MPUB body: [4 body size][4 count] count * ([4 size][body]); body size against max-body-size,
\* count against (max-body-size - 4) / 5, each message against max-msg-size.  The body size is NOT
\* compared with what follows ("lensmall", "lenmax" are accepted).
MpubOK      == {"ok1", "ok2", "okmaxsize", "okmaxcount", "lensmall", "lenmax"}
MpubBadBody == {"lenzero", "lenneg", "lenmaxp1", "lenhuge", "lentrunc",
                "cntzero", "cntneg", "cntmaxp1", "cnthuge", "cnttrunc"}
MpubBadMsg  == {"msgzero_first", "msgzero_last", "msgneg_mid", "msgmaxp1_first", "msgmaxp1_last",
                "msgtrunclen_last", "msgtruncbody_first", "msgtruncbody_last"}
Mpubs       == MpubOK \cup MpubBadBody \cup MpubBadMsg

AuthBodies == {"ok", "zero", "neg", "maxp1", "huge", "trunclen", "truncbody"}

C(op, a, b, c) == [op |-> op, a |-> a, b |-> b, c |-> c]

MagicCmds == {C("MAGIC", x, "-", "-") : x \in {"v2", "bad", "short"}}
Cmds ==
  {C("NOP", x, "-", "-") : x \in {"plain", "params", "crlf"}}
  \cup {C("BADCMD", x, "-", "-") : x \in {"unknown", "lower", "emptyline", "spaces", "crlfonly", "binary"}}
  \cup {C("LINE", x, "-", "-") : x \in {"maxfit", "toolong", "toolongnl"}}
  \cup {C("EOF", x, "-", "-") : x \in {"clean", "partial"}}
  \cup UNION {{C("IDENTIFY", f, x, "-") : x \in IdOK[f] \cup IdBad[f]} : f \in IdFields}
  \cup {C("AUTH", x, "-", "-") : x \in AuthBodies} \cup {C("AUTH", "ok", "extra", "-")}
  \cup {C("SUB", x, "eph", "-") : x \in Names} \cup {C("SUB", "eph", x, "-") : x \in Names}
  \cup {C("SUB", "valid", "valid", "-"), C("SUB", "badchar", "badchar", "-"),
        C("SUB", "missing", "missing", "-"), C("SUB", "eph", "missing", "-")}
  \cup {C("RDY", x, "-", "-") : x \in RdyOK \cup RdyBad}
  \cup {C("FIN", x, "-", "-") : x \in Ids} \cup {C("TOUCH", x, "-", "-") : x \in Ids}
  \cup {C("REQ", "held", x, "-") : x \in ReqNow \cup ReqDefer \cup ReqBad}
  \cup {C("REQ", x, "zero", "-") : x \in Ids} \cup {C("REQ", "never", "nondigit", "-"), C("REQ", "short", "ovf64", "-")}
  \cup {C("CLS", x, "-", "-") : x \in {"plain", "params"}}
  \cup {C("PUB", x, "one", "-") : x \in PubNames} \cup {C("PUB", "valid", x, "-") : x \in Sizes}
  \cup {C("PUB", "missing", "-", "-"), C("PUB", "badchar", "zero", "-"), C("PUB", "eph", "max", "-")}
  \cup {C("MPUB", x, "ok2", "-") : x \in PubNames} \cup {C("MPUB", "valid", x, "-") : x \in Mpubs}
  \cup {C("MPUB", "missing", "-", "-"), C("MPUB", "toolong", "cntzero", "-")}
  \cup {C("DPUB", x, "mid", "one") : x \in PubNames} \cup {C("DPUB", "valid", x, "one") : x \in Delays}
  \cup {C("DPUB", "valid", "mid", x) : x \in Sizes}
  \cup {C("DPUB", "missing", "missing", "-"), C("DPUB", "valid", "missing", "-"),
        C("DPUB", "badchar", "nondigit", "zero"), C("DPUB", "valid", "ovf64", "maxp1")}

\* one representative per distinct (outcome, effect): the only classes used at non-final positions
\* when PrefixFine = FALSE
Core ==
  { C("NOP", "plain", "-", "-"),
    C("IDENTIFY", "body", "empty", "-"), C("IDENTIFY", "hb", "off", "-"), C("IDENTIFY", "hb", "mid", "-"),
    C("IDENTIFY", "comp", "tls", "-"), C("IDENTIFY", "sr", "mid", "-"), C("IDENTIFY", "comp", "snappy", "-"),
    C("SUB", "eph", "eph", "-"),
    C("RDY", "zero", "-", "-"), C("RDY", "one", "-", "-"), C("RDY", "mid", "-", "-"),
    C("FIN", "held", "-", "-"), C("FIN", "never", "-", "-"),
    C("REQ", "held", "zero", "-"), C("REQ", "held", "mid", "-"), C("TOUCH", "held", "-", "-"),
    C("CLS", "plain", "-", "-"),
    C("PUB", "valid", "one", "-"), C("MPUB", "valid", "ok2", "-"), C("DPUB", "valid", "mid", "one") }

Live == {"init", "sub", "closing"}
Pubs == {"PUB", "MPUB", "DPUB"}

\* which classes exist in the current state
Enabled(c) ==
  IF st = "new" THEN c \in MagicCmds
  ELSE /\ st \in Live
       /\ c \in Cmds
       /\ (c.op \in {"FIN", "REQ", "TOUCH"} /\ c.a = "held") => (held > 0)
       /\ (c.op \in {"FIN", "REQ", "TOUCH"} /\ c.a = "other") => (st \in {"sub", "closing"})
       \* IDENTIFY may be repeated while the connection is in state init (the code's rule), also on a
       \* compressed connection; only negotiating compression a second time is not defined: not explored
       /\ (c.op = "IDENTIFY" /\ zip # "none") => ~(c.a = "dl" \/ (c.a = "comp" /\ c.b \in {"snappy", "deflate", "both"}))

(* ------------------------------------------------------------------ outcomes *)
Err(codes)   == [frame |-> "err",   body |-> "-", codes |-> codes, fatal |-> TRUE,  echo |-> "-"]
Soft(code)   == [frame |-> "err",   body |-> "-", codes |-> {code}, fatal |-> FALSE, echo |-> "-"]
Resp(b, e)   == [frame |-> "resp",  body |-> b,   codes |-> {},    fatal |-> FALSE, echo |-> e]
Silent       == [frame |-> "none",  body |-> "-", codes |-> {},    fatal |-> FALSE, echo |-> "-"]
Hangup       == [frame |-> "close", body |-> "-", codes |-> {},    fatal |-> TRUE,  echo |-> "-"]

If(p, code) == IF p THEN {code} ELSE {}
NotIn(states) == If(st \notin states, "E_INVALID")      \* "cannot X in current state"
BadName(n, code) == If(n \in NameBad, code)
BadSize(s, code) == If(s \in SizeBad, code)
\* the topic is being deleted: the put is refused after everything else was found in order
Dying(c) == If(c.a \in NameDying, "E_" \o c.op \o "_FAILED")

\* the faults that make the daemon answer a FATAL error: each contributes its documented code
Fatal(c) ==
  CASE c.op = "MAGIC"    -> If(c.a = "bad", "E_BAD_PROTOCOL")
    [] c.op = "NOP"      -> {}
    [] c.op = "BADCMD"   -> {"E_INVALID"}
    [] c.op = "LINE"     -> {}
    [] c.op = "EOF"      -> {}
    [] c.op = "IDENTIFY" -> NotIn({"init"})
                            \cup If(c.b \in IdBad[c.a], IF c.a = "comp" THEN "E_IDENTIFY_FAILED" ELSE "E_BAD_BODY")
    [] c.op = "AUTH"     -> NotIn({"init"}) \cup If(c.b = "extra", "E_INVALID")
                            \cup If(c.a # "ok", "E_BAD_BODY") \cup If(c.a = "ok" /\ c.b # "extra", "E_AUTH_DISABLED")
    [] c.op = "SUB"      -> NotIn({"init"}) \cup If(hbOff, "E_INVALID")
                            \cup If("missing" \in {c.a, c.b}, "E_INVALID")
                            \cup BadName(c.a, "E_BAD_TOPIC") \cup BadName(c.b, "E_BAD_CHANNEL")
    [] c.op = "RDY"      -> NotIn({"sub", "closing"}) \cup If(st = "sub" /\ c.a \in RdyBad, "E_INVALID")
    [] c.op = "FIN"      -> NotIn({"sub", "closing"}) \cup If(c.a \in IdBadLen, "E_INVALID")
    [] c.op = "TOUCH"    -> NotIn({"sub", "closing"}) \cup If(c.a \in IdBadLen, "E_INVALID")
    [] c.op = "REQ"      -> NotIn({"sub", "closing"}) \cup If(c.a \in IdBadLen, "E_INVALID") \cup If(c.b \in ReqBad, "E_INVALID")
    [] c.op = "CLS"      -> NotIn({"sub"})
    [] c.op = "PUB"      -> If(c.a = "missing", "E_INVALID") \cup BadName(c.a, "E_BAD_TOPIC") \cup BadSize(c.b, "E_BAD_MESSAGE")
                            \cup Dying(c)
    [] c.op = "MPUB"     -> If(c.a = "missing", "E_INVALID") \cup BadName(c.a, "E_BAD_TOPIC")
                            \cup If(c.b \in MpubBadBody, "E_BAD_BODY") \cup If(c.b \in MpubBadMsg, "E_BAD_MESSAGE")
                            \cup Dying(c)
    [] c.op = "DPUB"     -> If("missing" \in {c.a, c.b}, "E_INVALID") \cup BadName(c.a, "E_BAD_TOPIC")
                            \cup If(c.b \in DelayBad, "E_INVALID") \cup BadSize(c.c, "E_BAD_MESSAGE")
                            \cup Dying(c)

\* non-fatal errors (only when nothing fatal applies): the id is well-formed but not in flight to THIS connection
SoftErr(c) ==
  IF c.op \in {"FIN", "REQ", "TOUCH"} /\ c.a \in {"other", "never"}
  THEN {Soft("E_" \o c.op \o "_FAILED")} ELSE {}

\* what the negotiated value echoed by IDENTIFY (feature_negotiation) must be
Echo(c) == IF c.a \in {"hb", "body", "comp"} THEN "-"
           ELSE IF c.b = "def0" THEN "keep"
           ELSE IF c.b = "off" THEN "off"
           ELSE IF c.a = "dl" /\ c.b \in {"maxp1", "above9"} THEN "clamp"
           ELSE IF c.a = "dl" /\ c.b = "neg" THEN "keep"
           ELSE "asked"

\* success rows: every rule yields {} or one outcome; TableTotal demands exactly one overall
Success(c) ==
  CASE c.op = "MAGIC"    -> (IF c.a = "v2" THEN {Silent} ELSE {}) \cup (IF c.a = "short" THEN {Hangup} ELSE {})
    [] c.op = "NOP"      -> {Silent}
    [] c.op = "BADCMD"   -> {}
    [] c.op = "LINE"     -> (IF c.a = "maxfit" THEN {Silent} ELSE {}) \cup (IF c.a \in {"toolong", "toolongnl"} THEN {Hangup} ELSE {})
    [] c.op = "EOF"      -> {Hangup}
    [] c.op = "IDENTIFY" -> (IF c.a = "comp" /\ c.b \in {"snappy", "deflate"} THEN {Resp("JSON+" \o c.b, "-")} ELSE {})
                            \cup (IF c.a = "comp" /\ c.b = "tls" THEN {Resp("JSON", "-")} ELSE {})
                            \cup (IF c.a = "comp" /\ c.b \in {"bothnofn", "nofn"} THEN {Resp("OK", "-")} ELSE {})
                            \cup (IF c.a = "body" THEN {Resp("OK", "-")} ELSE {})
                            \cup (IF c.a \in {"hb", "obs", "obt", "mt", "sr"} THEN {Resp("JSON", Echo(c))} ELSE {})
                            \cup (IF c.a = "dl" THEN {Resp("JSON+deflate", Echo(c))} ELSE {})  \* sent with deflate=true
    [] c.op = "AUTH"     -> {}
    [] c.op = "SUB"      -> {Resp("OK", "-")}
    [] c.op = "RDY"      -> (IF st = "closing" THEN {Silent} ELSE {}) \cup (IF st = "sub" /\ c.a \in RdyOK THEN {Silent} ELSE {})
    [] c.op \in {"FIN", "TOUCH", "REQ"} -> IF c.a = "held" THEN {Silent} ELSE {}
    [] c.op = "CLS"      -> {Resp("CLOSE_WAIT", "-")}
    [] c.op \in Pubs     -> {Resp("OK", "-")}

Out(c) == IF Fatal(c) # {} THEN {Err(Fatal(c))}
          ELSE IF SoftErr(c) # {} THEN SoftErr(c)
          ELSE Success(c)

(* ------------------------------------------------------------------ effects *)
Accepted(o) == o.frame \in {"resp", "none"}

\* the abstract Enqueue this command performs
Enqueued(c, o) ==
  IF c.op \notin Pubs \/ ~Accepted(o) THEN <<>>
  ELSE IF c.op = "PUB"  THEN <<[t |-> c.a, n |-> "1", d |-> FALSE]>>
  ELSE IF c.op = "DPUB" THEN <<[t |-> c.a, n |-> "1", d |-> (c.b \notin {"zero", "empty"})]>>
  ELSE <<[t |-> c.a, n |-> c.b, d |-> FALSE]>>

\* topics that exist afterwards because of this command.  MPUB creates its topic before it reads
\* the body (the code's order; a rejected MPUB body may leave an empty topic behind -- it never enqueues).
\* A publish to a "dying" topic creates nothing: GetTopic finds the exiting topic, which then disappears.
Created(c, o) ==
  IF c.op \in {"PUB", "DPUB", "SUB"} /\ Accepted(o) THEN {c.a}
  ELSE IF c.op = "MPUB" /\ c.a \in NameOK THEN {c.a}
  ELSE {}

\* deliveries that follow: the pump sends while rdy > in-flight and the channel has messages
Deliver(r, h, a) == IF sampled THEN 0 ELSE Min(a, Max(0, r - h))

\* what command class c does to the connection (the table applied), whether or not the exhaustive
\* configurations enumerate c in this state (trace validation applies it to whatever was observed)
Apply(c) ==
  LET o == CHOOSE x \in Out(c) : TRUE IN
  /\ cmd' = c
  /\ last' = o
  /\ ost' = ost
  /\ IF o.fatal THEN st' = "closed" /\ UNCHANGED <<hbOff, sampled, zip, rdy, held, avail>>
     ELSE IF o.frame = "err" THEN UNCHANGED fsm                    \* a failed FIN/REQ/TOUCH is a stutter
     ELSE CASE c.op = "MAGIC" -> st' = "init" /\ UNCHANGED <<hbOff, sampled, zip, rdy, held, avail>>
            [] c.op \in {"NOP", "LINE", "TOUCH"} \cup Pubs -> UNCHANGED fsm
            [] c.op = "IDENTIFY" ->
                 /\ hbOff' = IF c.a = "hb" THEN (IF c.b = "off" THEN TRUE ELSE IF c.b = "def0" THEN hbOff ELSE FALSE) ELSE hbOff
                 /\ sampled' = (sampled \/ (c.a = "sr" /\ c.b # "def0"))
                 /\ zip' = IF c.a = "comp" /\ c.b \in {"snappy", "deflate"} THEN c.b ELSE IF c.a = "dl" THEN "deflate" ELSE zip
                 /\ UNCHANGED <<st, rdy, held, avail>>
            [] c.op = "SUB" -> st' = "sub" /\ rdy' = 0 /\ held' = 0 /\ avail' = (IF sampled THEN 0 ELSE Backlog)
                               /\ UNCHANGED <<hbOff, sampled, zip>>
            [] c.op = "RDY" -> IF st = "closing" THEN UNCHANGED fsm
                               ELSE LET d == Deliver(RdyVal(c.a), held, avail) IN
                                    rdy' = RdyVal(c.a) /\ held' = held + d /\ avail' = avail - d
                                    /\ UNCHANGED <<st, hbOff, sampled, zip>>
            [] c.op = "FIN" -> LET d == Deliver(rdy, held - 1, avail) IN
                                    held' = held - 1 + d /\ avail' = avail - d /\ UNCHANGED <<st, hbOff, sampled, zip, rdy>>
            [] c.op = "REQ" -> LET a2 == IF c.b \in ReqNow THEN avail + 1 ELSE avail
                                   d  == Deliver(rdy, held - 1, a2) IN
                                    held' = held - 1 + d /\ avail' = a2 - d /\ UNCHANGED <<st, hbOff, sampled, zip, rdy>>
            [] c.op = "CLS" -> st' = "closing" /\ rdy' = 0 /\ UNCHANGED <<hbOff, sampled, zip, held, avail>>

StepFSM(c) == Enabled(c) /\ Apply(c)

\* ----- exhaustive enumeration of command-class sequences on one connection
InitFSM ==
  /\ st = "new" /\ hbOff = FALSE /\ sampled = FALSE /\ zip = "none" /\ rdy = 0 /\ held = 0 /\ avail = 0
  /\ cmd = C("-", "-", "-", "-") /\ last = Silent /\ ost = "sub"

Init ==
  /\ InitFSM
  /\ enq = <<>> /\ topics = {} /\ hist = <<>> /\ stop = FALSE
  /\ \E s \in Setups : pre = s.pre /\ left = s.d

\* the magic is not counted; a prepared prefix is replayed first (not counted either); then every
\* enabled class is tried at every position (non-final positions restricted to Core unless PrefixFine)
Step(c) ==
  /\ StepFSM(c)
  /\ enq' = enq \o Enqueued(c, last')
  /\ topics' = topics \cup Created(c, last')
  /\ hist' = IF c.op = "MAGIC" THEN hist ELSE Append(hist, c)
  /\ IF pre # <<>> THEN c = Head(pre) /\ pre' = Tail(pre) /\ UNCHANGED <<left, stop>>
     ELSE /\ ~stop /\ left > 0
          /\ pre' = pre
          /\ left' = IF c.op = "MAGIC" THEN left ELSE left - 1
          /\ stop' = (~PrefixFine /\ c \notin Core /\ c.op # "MAGIC")

Magic == C("MAGIC", "v2", "-", "-")
SubEph == C("SUB", "eph", "eph", "-")
RdyMid == C("RDY", "mid", "-", "-")
RdyOne == C("RDY", "one", "-", "-")
ClsCmd == C("CLS", "plain", "-", "-")
\* quick: everything to depth 3 from a fresh connection, depth 2 from three prepared consumer states
SetupsQuick ==
  { [pre |-> <<>>, d |-> 3],
    [pre |-> <<Magic, SubEph, RdyMid>>, d |-> 2],           \* subscribed, two messages in flight
    [pre |-> <<Magic, SubEph, RdyOne>>, d |-> 2],           \* subscribed, one in flight, one queued
    [pre |-> <<Magic, SubEph, RdyMid, ClsCmd>>, d |-> 2] }  \* closing, two in flight
\* every class at BOTH positions (used with PrefixFine = TRUE): all pairs from a fresh connection and from
\* a subscribed one with two messages in flight
SetupsFine ==
  { [pre |-> <<>>, d |-> 2],
    [pre |-> <<Magic, SubEph, RdyMid>>, d |-> 2] }
SetupsThorough ==
  { [pre |-> <<>>, d |-> 4],
    [pre |-> <<Magic, SubEph, RdyMid>>, d |-> 3],
    [pre |-> <<Magic, SubEph, RdyOne>>, d |-> 3],
    [pre |-> <<Magic, SubEph, RdyMid, ClsCmd>>, d |-> 3],
    [pre |-> <<Magic, C("IDENTIFY", "comp", "snappy", "-"), SubEph, RdyMid>>, d |-> 2],
    [pre |-> <<Magic, C("IDENTIFY", "comp", "deflate", "-"), SubEph, RdyOne>>, d |-> 2] }

Next == \E c \in MagicCmds \cup Cmds : Step(c)
Spec == Init /\ [][Next]_vars

(* ------------------------------------------------------------------ properties *)
TypeOK ==
  /\ st \in {"new", "init", "sub", "closing", "closed"}
  /\ hbOff \in BOOLEAN /\ sampled \in BOOLEAN /\ zip \in {"none", "snappy", "deflate"}
  /\ rdy \in 0..2 /\ held \in 0..Backlog /\ avail \in 0..Backlog /\ held + avail <= Backlog
  /\ (st \in {"new", "init"}) => (held = 0 /\ avail = 0 /\ rdy = 0)

\* every (state, command class) has exactly one outcome
TableTotal == \A c \in MagicCmds \cup Cmds : Enabled(c) => Cardinality(Out(c)) = 1

Rank(s) == CASE s = "new" -> 0 [] s = "init" -> 1 [] s = "sub" -> 2 [] s = "closing" -> 3 [] s = "closed" -> 4
StateMonotone == [][Rank(st') >= Rank(st)]_vars

\* a fatal answer (or a hang-up) closes this connection, nothing else closes it, and no other
\* connection is touched by anything this one sends
FatalClosesOnlySelf ==
  [][ /\ ost' = ost
      /\ (st' = "closed") <=> (last'.fatal)
      /\ last'.fatal => last'.frame \in {"err", "close"} ]_vars

\* a publish that was not answered OK enqueues nothing; an accepted one enqueues exactly its batch
\* (MPUB: all of it or none of it).  A publish to a topic that is being deleted is always rejected
\* (the command's own *_FAILED code, fatal), enqueues nothing and (re)creates no topic.
RejectedPublishEnqueuesNothing ==
  [][ /\ (~(cmd'.op \in Pubs /\ last'.frame = "resp")) => enq' = enq
      /\ (cmd'.op \in Pubs /\ cmd'.a \in NameDying) =>
            /\ last'.frame = "err" /\ last'.fatal /\ last'.codes = {"E_" \o cmd'.op \o "_FAILED"}
            /\ enq' = enq /\ topics' = topics
      /\ (cmd'.op \in Pubs /\ last'.frame = "resp") =>
            /\ Len(enq') = Len(enq) + 1 /\ SubSeq(enq', 1, Len(enq)) = enq
            /\ enq'[Len(enq')].t = cmd'.a /\ cmd'.a \in NameOK ]_vars

\* the limits, one line each: accepted iff the class is inside the range
LimitsHold ==
  [][ /\ (cmd'.op = "RDY" /\ st = "sub") => ((last'.frame = "none") <=> (cmd'.a \in RdyOK))
      /\ (cmd'.op = "PUB" /\ cmd'.a \in NameOK) => ((last'.frame = "resp") <=> (cmd'.b \in SizeOK))
      /\ (cmd'.op = "DPUB" /\ cmd'.a \in NameOK /\ cmd'.c \in SizeOK) => ((last'.frame = "resp") <=> (cmd'.b \in DelayOK))
      /\ (cmd'.op = "MPUB" /\ cmd'.a \in NameOK) => ((last'.frame = "resp") <=> (cmd'.b \in MpubOK))
      /\ (cmd'.op \in Pubs \cup {"SUB"} /\ cmd'.a \in NameBad) => (last'.frame = "err" /\ last'.fatal)
      /\ (cmd'.a \in NameDying \/ cmd'.b \in NameDying) => cmd'.op \in Pubs    \* no other command has the class
      /\ (cmd'.op = "SUB" /\ cmd'.b \in NameBad) => (last'.frame = "err" /\ last'.fatal)
      /\ (cmd'.op = "IDENTIFY" /\ st = "init") => ((last'.frame = "resp") <=> (cmd'.b \in IdOK[cmd'.a]))
      /\ topics' \subseteq NameOK ]_vars
=============================================================================
