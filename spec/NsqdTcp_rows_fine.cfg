SPECIFICATION RowsSpec
CONSTANTS
  Setups <- SetupsFine
  PrefixFine = TRUE
  Backlog = 2
VIEW RowView
ACTION_CONSTRAINT RowOut
CHECK_DEADLOCK FALSE
