"""C13 -- stats account for every message (spec: NsqdAbs)."""
import corelib

META = {
    "technique": "TLC model checking of NsqdAbs/NsqdAbsMC and NsqdCore; every TLC-enumerated interleaving of operation pairs "
                 "forced on the real daemon through yield points (gated replay) and compared with the model's prediction; traces of a real in-process nsqd (verif hooks + client-side "
                 "observations) from the seeded 'core' and 'contend' drivers validated against NsqdAbs by TLC; black-box "
                 "ledger on client-visible frames and /stats; NsqdTopic forced interleavings: topic message_count vs acknowledged publishes",
    "design_ref": "5/C13",
}


def run(ctx):
    import nsqdmc
    nsqdmc.model_check(ctx)
    import pairs
    # binding A': every interleaving (TLC, NsqdCore) of two operations' critical sections forced on the real daemon
    pairs.run_pairs(ctx, "C13", pairs=[p for p in pairs.all_pairs() if "EMPTY" in p or "SCAN" in p] + pairs.TRIPLES, sample=None if not ctx.quick else 230)
    import tpairs
    # topic level (NsqdTopic): message_count equals the acknowledged publishes under every forced interleaving (sample)
    tpairs.run_tpairs(ctx, "C13", only=lambda t: "PUT" in t and "TDELETE" not in t and "TEXIT" not in t, sample=150 if ctx.quick else None)
    n = 16 if ctx.quick else 120
    # (timing: TOUCH patterns that run into max-msg-timeout, REQ beyond max-req-timeout, mixed msg_timeouts)
    corelib.run_modes(ctx, "C13", [("core", n), ("contend", n // 2), ("timing", n // 2), ("flow", n // 2)])
    corelib.repo_tests(ctx, "C13")
    ctx.cov["distinct_nontrivial"] = len(ctx.notes.get("event_kinds", {}))
    ctx.cov["rule"] = ("evaluations = hook/harness events of real executions checked step by step by TLC against "
                       "NsqdAbs; distinct = event kinds (spec actions) exercised")
    ctx.assumptions += [
        "hook events are emitted inside the critical section performing the change (DESIGN.md appendix A)",
        "a rejection is attributed to the property whose clause the failing guard stands for (lib/corelib.py)",
    ]
