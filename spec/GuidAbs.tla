------------------------------ MODULE GuidAbs ------------------------------
(***************************************************************************)
(* C12 at the level a user relies on: an id source per generator.  A call  *)
(* either hands out an id strictly above every id this generator has ever  *)
(* handed out, or fails (the caller then waits and retries) and changes    *)
(* nothing a user can see.  Guid.tla (the code's algorithm) is checked by  *)
(* TLC to refine this spec; real traces are validated against BOTH: a      *)
(* rejection here is a property violation, a rejection by Guid/GuidTrace   *)
(* alone is only model drift.                                              *)
(***************************************************************************)
EXTENDS Integers

CONSTANT Nodes
VARIABLES high,   \* per generator: the greatest id handed out so far (ZeroId: none)
          out     \* last call result [node, err, id]

avars == <<high, out>>

AZero == <<0, 0, 0>>
ALess(a, b) == \/ a[1] < b[1]
               \/ a[1] = b[1] /\ a[2] < b[2]
               \/ a[1] = b[1] /\ a[2] = b[2] /\ a[3] < b[3]

AInit == high = [n \in Nodes |-> AZero] /\ out = [node |-> -1, err |-> "none", id |-> AZero]

\* written as predicates over the primed variables so that TLC can check
\* [][ANext]_avars as an action property of the refining spec
Issue(n) == /\ out'.node = n /\ out'.err = ""
            /\ ALess(high[n], out'.id)
            /\ high' = [high EXCEPT ![n] = out'.id]
Fail == out'.err \notin {"", "none"} /\ high' = high

ANext == Fail \/ \E n \in Nodes : Issue(n)
ASpec == AInit /\ [][ANext]_avars

\* the user-level statements, as consequences
Monotone == [][\A n \in Nodes : high'[n] = high[n] \/ ALess(high[n], high'[n])]_avars
=============================================================================
