------------------------------ MODULE QueueScan ------------------------------
(***************************************************************************)
(* nsqd/nsqd.go queueScanLoop + queueScanWorker: the scheduler behind       *)
(* every timeout and every deferral (C04 "delivered soon after").  One      *)
(* goroutine wakes up on a tick, picks min(SelectionCount, n) DISTINCT      *)
(* channels of its CACHED channel list (refreshed on another ticker, where  *)
(* the worker pool is resized to clamp(n/4, 1, PoolMax)), hands them to the *)
(* workers, counts the "dirty" answers, and goes round again without        *)
(* sleeping while more than DirtyPct % of the selected channels had work.   *)
(*                                                                         *)
(* Checked here (bounded): the selection is always a set of the right size  *)
(* inside the cache; with n <= SelectionCount every cached channel is       *)
(* visited on every tick (so lateness is at most one tick plus the work);   *)
(* a channel with due work is not passed over for ever by a fair sampler;   *)
(* the loop cannot spin without work.                                       *)
(***************************************************************************)
EXTENDS Integers, FiniteSets, TLC

CONSTANTS Chan,        \* channel ids
          Count,       \* QueueScanSelectionCount
          PoolMax,     \* QueueScanWorkerPoolMax
          DirtyPct     \* QueueScanDirtyPercent * 100
VARIABLES live,   \* channels that exist
          cached, \* the loop's list
          pool,   \* number of workers
          due,    \* channels with a message past its deadline
          phase,  \* "wait" | "ticked" | "again" | "collect"
          sel,    \* channels handed to the workers in this round
          busy,   \* ... being processed
          done,   \* ... answered
          nd      \* dirty answers of this round
vars == <<live, cached, pool, due, phase, sel, busy, done, nd>>

Min(a, b) == IF a <= b THEN a ELSE b
Clamp(n) == IF n \div 4 < 1 THEN 1 ELSE Min(n \div 4, PoolMax)

Init == /\ live = {} /\ cached = {} /\ pool = 1 /\ due = {} /\ phase = "wait"
        /\ sel = {} /\ busy = {} /\ done = {} /\ nd = 0

Create(c)  == c \notin live /\ live' = live \cup {c} /\ UNCHANGED <<cached, pool, due, phase, sel, busy, done, nd>>
Delete(c)  == c \in live /\ live' = live \ {c} /\ due' = due \ {c} /\ UNCHANGED <<cached, pool, phase, sel, busy, done, nd>>
Expire(c)  == c \in live /\ c \notin due /\ due' = due \cup {c} /\ UNCHANGED <<live, cached, pool, phase, sel, busy, done, nd>>

Refresh == /\ phase = "wait"
           /\ cached' = live /\ pool' = Clamp(Cardinality(live))
           /\ UNCHANGED <<live, due, phase, sel, busy, done, nd>>
Tick == /\ phase = "wait"
        /\ phase' = IF cached = {} THEN "wait" ELSE "ticked"
        /\ UNCHANGED <<live, cached, pool, due, sel, busy, done, nd>>
Begin == /\ phase \in {"ticked", "again"}
         /\ \E T \in SUBSET cached :
              /\ Cardinality(T) = Min(Count, Cardinality(cached))        \* util.UniqRands(num, len(channels))
              /\ sel' = T
         /\ phase' = "collect" /\ busy' = {} /\ done' = {} /\ nd' = 0
         /\ UNCHANGED <<live, cached, pool, due>>
Work(c) == /\ phase = "collect" /\ c \in sel \ (busy \cup done) /\ Cardinality(busy) < pool
           /\ busy' = busy \cup {c}
           /\ UNCHANGED <<live, cached, pool, due, phase, sel, done, nd>>
Done(c) == /\ c \in busy
           /\ busy' = busy \ {c} /\ done' = done \cup {c}
           /\ nd' = IF c \in due THEN nd + 1 ELSE nd                      \* dirty iff something was due (an exiting channel: not dirty)
           /\ due' = due \ {c}
           /\ UNCHANGED <<live, cached, pool, phase, sel>>
Round == /\ phase = "collect" /\ done = sel
         /\ phase' = IF nd * 100 > DirtyPct * Cardinality(sel) THEN "again" ELSE "wait"
         /\ UNCHANGED <<live, cached, pool, due, sel, busy, done, nd>>

Next == \/ \E c \in Chan : Create(c) \/ Delete(c) \/ Expire(c) \/ Work(c) \/ Done(c)
        \/ Refresh \/ Tick \/ Begin \/ Round
Spec == Init /\ [][Next]_vars
FairSpec == Spec /\ WF_vars(Tick) /\ WF_vars(Refresh) /\ WF_vars(Round) /\ WF_vars(Begin)
                 /\ \A c \in Chan : WF_vars(Work(c)) /\ WF_vars(Done(c)) /\ SF_vars(Begin /\ c \in sel')   \* the sampler is fair

---------------------------------------------------------------------------
SelectionOK == phase = "collect" =>
                 /\ sel \subseteq cached /\ Cardinality(sel) = Min(Count, Cardinality(cached))
                 /\ busy \subseteq sel /\ done \subseteq sel /\ busy \cap done = {} /\ Cardinality(busy) <= pool
PoolOK == pool >= 1 /\ pool <= IF PoolMax < 1 THEN 1 ELSE PoolMax
\* with no more channels than the selection count, a round visits every cached channel
SmallAllScanned == (phase = "collect" /\ Cardinality(cached) <= Count) => sel = cached
\* the loop goes round again only when the last round found enough work
NoIdleSpin == phase = "again" => nd * 100 > DirtyPct * Cardinality(sel)
\* C04 "soon after": a channel that stays alive with due work is eventually scanned
EventuallyScanned == \A c \in Chan : (c \in due /\ c \in cached) ~> (c \notin due)
=============================================================================
