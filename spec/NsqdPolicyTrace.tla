-------------------------- MODULE NsqdPolicyTrace --------------------------
(* Trace validation for C11 (binding B): executions of the REAL nsqd recorded *)
(* by harness/cmd/api11 (one Reset line per connection carrying the policy,   *)
(* then one line per command / HTTP request with what was OBSERVED: frame,    *)
(* error code, closure, completed TLS handshake, what the stub auth server    *)
(* was asked and answered, GET /stats) checked against NsqdPolicy.            *)
(*                                                                            *)
(* Exact = FALSE (property level): the state follows the OBSERVATIONS and the *)
(*   property-level predicates of NsqdPolicy (PropertyLevel) are evaluated as *)
(*   invariants on it.  A rejection is a violation of C11 by the real daemon. *)
(* Exact = TRUE (implementation level): every observed step must be exactly   *)
(*   the step of the table Out(c, a, n).  A rejection here alone is drift.    *)
(*                                                                            *)
(* The harness only records a step whose timing it has measured to be on the  *)
(* side of the cached answer's expiry that the logged time `n' says.          *)
EXTENDS NsqdPolicy, Json

CONSTANT Exact

Trace == ndJsonDeserialize("trace.ndjson")

VARIABLE l
tvars == <<vars, l>>

ToSet(s) == {s[i] : i \in DOMAIN s}
AnsOf(a) == [kind |-> a.kind, ttl |-> a.ttl,
             auths |-> {[tp |-> z.tp, ch |-> z.ch, perms |-> ToSet(z.perms)] : z \in ToSet(a.auths)}]
EnqOf(e) == [t \in Topics |-> e.enq[t]]
ChansOf(e) == {<<p[1], p[2]>> : p \in ToSet(e.chans)}

Fresh(p) == /\ policy' = p
            /\ st' = "init" /\ tls' = FALSE /\ peer' = "none"
            /\ authed' = FALSE /\ grants' = {} /\ exp' = 0 /\ now' = 0
            /\ topics' = {} /\ chans' = {} /\ enq' = [t \in Topics |-> 0] /\ nq' = 0
            /\ last' = [kind |-> "init", c |-> NoCmd, a |-> NoAns, w |-> 0,
                        pre |-> [st |-> "init", tls |-> FALSE, authed |-> FALSE, grants |-> {}, exp |-> 0, now |-> 0,
                                 topics |-> {}, chans |-> {}, enq |-> [t \in Topics |-> 0], nq |-> 0],
                        o |-> [frame |-> "none", code |-> "", fatal |-> FALSE, queried |-> FALSE, check |-> "n/a",
                               gate |-> FALSE], status |-> 0]
            /\ hist' = <<>>

TraceInit == /\ l = 1
             /\ policy = [tlsreq |-> "no", tlscfg |-> FALSE, auth |-> FALSE, certpol |-> "none"]
             /\ st = "init" /\ tls = FALSE /\ peer = "none"
             /\ authed = FALSE /\ grants = {} /\ exp = 0 /\ now = 0
             /\ topics = {} /\ chans = {} /\ enq = [t \in Topics |-> 0] /\ nq = 0
             /\ last = [kind |-> "init", c |-> NoCmd, a |-> NoAns, w |-> 0, pre |-> PreOf(0),
                        o |-> OutView(Base), status |-> 0]
             /\ hist = <<>>
             /\ TLCSet(1, 1) /\ TLCSet(2, <<>>)

IsEvent(e) == l <= Len(Trace) /\ Trace[l].ev = e /\ l' = l + 1

TReset == IsEvent("Reset") /\ Fresh(Trace[l].policy)

\* what was observed of the registry
ObsEffects(e) == topics' = ToSet(e.topics) /\ chans' = ChansOf(e) /\ enq' = EnqOf(e)

\* implementation level: the observed step is the table's step
ExactCmd(e) ==
  LET c == e.c
      a == IF WillQuery(c, e.n) THEN AnsOf(e.a) ELSE NoAns IN
  /\ st # "closed"
  /\ StepAt(c, a, e.n, 0)
  /\ last'.o.frame = e.frame /\ last'.o.code = e.code /\ last'.o.fatal = e.closed
  /\ tls' = e.tls /\ nq' = e.nq
  /\ ObsEffects(e)

\* property level: the state is what was observed
ObsCmd(e) ==
  LET c == e.c
      a == AnsOf(e.a)
      queried == e.nq > nq IN
  /\ st # "closed"
  /\ now' = e.n
  /\ st' = IF e.closed THEN "closed"
           ELSE IF c.op = "SUB" /\ e.frame = "response" THEN "subscribed"
           ELSE IF c.op = "CLS" /\ e.frame = "response" THEN "closing" ELSE st
  /\ tls' = e.tls
  /\ peer' = IF e.tls /\ ~tls THEN Seen(policy, c.cert) ELSE peer
  /\ authed' = (authed \/ (c.op = "AUTH" /\ e.frame = "response"))
  /\ grants' = IF queried THEN (IF a.kind = "ok" THEN a.auths ELSE {}) ELSE grants
  /\ exp' = IF queried THEN (IF a.kind = "ok" THEN e.n + a.ttl * SecondUnits ELSE 0) ELSE exp
  /\ nq' = e.nq
  /\ ObsEffects(e)
  /\ last' = [kind |-> "cmd", c |-> c, a |-> a, w |-> 0, pre |-> PreOf(e.n),
              o |-> [frame |-> e.frame, code |-> e.code, fatal |-> e.closed, queried |-> queried,
                     check |-> "n/a", gate |-> FALSE], status |-> 0]
  /\ UNCHANGED policy

TCmd == /\ IsEvent("Cmd")
        /\ IF Exact THEN ExactCmd(Trace[l]) ELSE ObsCmd(Trace[l])
        /\ UNCHANGED hist

HttpOf(e) == [port |-> e.c.t, cert |-> e.c.cert, route |-> e.c.c]

ExactHttp(e) == /\ HttpAt(HttpOf(e))
                /\ last'.status = e.status
                /\ ObsEffects(e)

ObsHttp(e) == /\ ObsEffects(e)
              /\ last' = [kind |-> "http", c |-> e.c, a |-> NoAns, w |-> 0, pre |-> PreOf(now),
                          o |-> OutView(Base), status |-> e.status]
              /\ UNCHANGED <<policy, st, tls, peer, authed, grants, exp, now, nq>>

THttp == /\ IsEvent("Http")
         /\ IF Exact THEN ExactHttp(Trace[l]) ELSE ObsHttp(Trace[l])
         /\ UNCHANGED hist

TraceNext == TReset \/ TCmd \/ THttp
TraceSpec == TraceInit /\ [][TraceNext]_tvars

\* invariants of the exact level (those of the property level are PropertyLevel alone)
ExactLevel == Exact => (RefetchIffExpired /\ CodeStricter /\ PlainHttpServed)

HW == IF l > TLCGet(1)
      THEN TLCSet(1, l) /\ TLCSet(2, [policy |-> policy, st |-> st, tls |-> tls, authed |-> authed, grants |-> grants,
                                       exp |-> exp, now |-> now, nq |-> nq, topics |-> topics, chans |-> chans, enq |-> enq])
      ELSE TRUE

TraceAccepted ==
  LET hw == TLCGet(1) IN
  IF hw = Len(Trace) + 1 THEN PrintT(<<"TRACE_OK", Len(Trace)>>)
  ELSE /\ PrintT(<<"TRACE_REJECTED", hw, Trace[hw], TLCGet(2)>>)
       /\ FALSE
=============================================================================
