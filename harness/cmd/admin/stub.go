package main

// Stub nsqd / nsqlookupd upstreams.  They serve exactly the cluster contents handed to them (the
// records printed by the TLA+ specs), play the failure classes, and record every request.

import (
	"bufio"
	"bytes"
	"encoding/json"
	"fmt"
	"hash/fnv"
	"net"
	"net/http"
	"os"
	"sort"
	"strconv"
	"strings"
	"sync"
	"sync/atomic"
	"syscall"
	"time"
)

// B is the unit of the "hi" component of a counter pair <<hi, lo>> of the specs.
const B = int64(1000000000000)

type Pair [2]int64

func (p Pair) V() int64 { return p[0]*B + p[1] }
func toPair(v int64) Pair {
	return Pair{v / B, v % B}
}

func isEmptyArr(b []byte) bool {
	s := strings.TrimSpace(string(b))
	return s == "[]" || s == "null"
}

// The specs print functions over strings as JSON objects, but the empty function as [].
type ChanC struct {
	Depth        Pair     `json:"depth"`
	BackendDepth Pair     `json:"backend_depth"`
	InFlight     Pair     `json:"in_flight_count"`
	Deferred     Pair     `json:"deferred_count"`
	Requeue      Pair     `json:"requeue_count"`
	Timeout      Pair     `json:"timeout_count"`
	MessageCount Pair     `json:"message_count"`
	Paused       bool     `json:"paused"`
	Clients      []string `json:"clients"`
}
type ChanMap map[string]ChanC

func (m *ChanMap) UnmarshalJSON(b []byte) error {
	if isEmptyArr(b) {
		*m = ChanMap{}
		return nil
	}
	x := map[string]ChanC{}
	err := json.Unmarshal(b, &x)
	*m = x
	return err
}

type TopicC struct {
	Depth        Pair    `json:"depth"`
	BackendDepth Pair    `json:"backend_depth"`
	MessageCount Pair    `json:"message_count"`
	Paused       bool    `json:"paused"`
	Channels     ChanMap `json:"channels"`
}
type TopicMap map[string]TopicC

func (m *TopicMap) UnmarshalJSON(b []byte) error {
	if isEmptyArr(b) {
		*m = TopicMap{}
		return nil
	}
	x := map[string]TopicC{}
	err := json.Unmarshal(b, &x)
	*m = x
	return err
}

type NsqdC struct {
	Ver    string   `json:"ver"`
	Topics TopicMap `json:"topics"`
}
type NsqdMap map[string]NsqdC

func (m *NsqdMap) UnmarshalJSON(b []byte) error {
	if isEmptyArr(b) {
		*m = NsqdMap{}
		return nil
	}
	x := map[string]NsqdC{}
	err := json.Unmarshal(b, &x)
	*m = x
	return err
}

type LNode struct {
	Topics []string `json:"topics"`
	Tomb   []string `json:"tomb"`
}
type LNodeMap map[string]LNode

func (m *LNodeMap) UnmarshalJSON(b []byte) error {
	if isEmptyArr(b) {
		*m = LNodeMap{}
		return nil
	}
	x := map[string]LNode{}
	err := json.Unmarshal(b, &x)
	*m = x
	return err
}

type LookupdC struct {
	Topics []string `json:"topics"`
	Nodes  LNodeMap `json:"nodes"`
}
type LookupdMap map[string]LookupdC

func (m *LookupdMap) UnmarshalJSON(b []byte) error {
	if isEmptyArr(b) {
		*m = LookupdMap{}
		return nil
	}
	x := map[string]LookupdC{}
	err := json.Unmarshal(b, &x)
	*m = x
	return err
}

type StrMap map[string]string

func (m *StrMap) UnmarshalJSON(b []byte) error {
	if isEmptyArr(b) {
		*m = StrMap{}
		return nil
	}
	x := map[string]string{}
	err := json.Unmarshal(b, &x)
	*m = x
	return err
}

// Cluster is the record `cl` of AdminView.tla.
type Cluster struct {
	Mode    string     `json:"mode"`
	L       []string   `json:"L"`
	N       []string   `json:"N"`
	Nsqd    NsqdMap    `json:"nsqd"`
	Lookupd LookupdMap `json:"lookupd"`
	Fail    StrMap     `json:"fail"`
	// C17 only: an upstream that answers 500 to every POST
	BadPost string `json:"-"`
}

func (c *Cluster) fail(u string) string {
	if c == nil {
		return "ok"
	}
	if f, ok := c.Fail[u]; ok {
		return f
	}
	return "ok"
}

func has(ss []string, s string) bool {
	for _, x := range ss {
		if x == s {
			return true
		}
	}
	return false
}

func sorted(ss []string) []string {
	r := append([]string{}, ss...)
	sort.Strings(r)
	return r
}

// UpReq is one request received by a stub.
type UpReq struct {
	To      string `json:"to"`
	M       string `json:"m"`
	Path    string `json:"path"`
	Topic   string `json:"topic"`
	Channel string `json:"channel"`
	Node    string `json:"node"`
}

// Cell: one set of stub upstreams (fixed ports) whose content can be swapped per case.
type Cell struct {
	eph      bool
	sameHost bool
	stubs    map[string]*Stub
	cur      atomic.Value // *Cluster
	mu       sync.Mutex
	log      []UpReq
	deadFd   int
	deadPrt  int
	barMu    sync.Mutex
	barLast  time.Time
}

type Stub struct {
	name  string
	cell  *Cell
	ln    net.Listener
	port  int
	srv   *http.Server
	slowN int64
}

var allStubNames = []string{"L1", "L2", "N1", "N2", "N3"}

func newCell() (*Cell, error) {
	c := &Cell{stubs: map[string]*Stub{}, deadFd: -1}
	for _, n := range allStubNames {
		ln, err := net.Listen("tcp", "127.0.0.1:0")
		if err != nil {
			c.Close()
			return nil, err
		}
		s := &Stub{name: n, cell: c, ln: ln, port: ln.Addr().(*net.TCPAddr).Port}
		s.srv = &http.Server{Handler: s}
		c.stubs[n] = s
		go s.srv.Serve(ln)
	}
	// a port that is reserved (bound) but not listening: connecting to it is refused
	fd, err := syscall.Socket(syscall.AF_INET, syscall.SOCK_STREAM, 0)
	if err != nil {
		c.Close()
		return nil, err
	}
	c.deadFd = fd
	if err := syscall.Bind(fd, &syscall.SockaddrInet4{Port: 0, Addr: [4]byte{127, 0, 0, 1}}); err != nil {
		c.Close()
		return nil, err
	}
	sa, err := syscall.Getsockname(fd)
	if err != nil {
		c.Close()
		return nil, err
	}
	c.deadPrt = sa.(*syscall.SockaddrInet4).Port
	c.cur.Store(&Cluster{})
	return c, nil
}

func (c *Cell) Close() {
	for _, s := range c.stubs {
		s.srv.Close()
	}
	if c.deadFd >= 0 {
		syscall.Close(c.deadFd)
	}
}

func (c *Cell) set(cl *Cluster) { c.cur.Store(cl) }
func (c *Cell) cluster() *Cluster {
	return c.cur.Load().(*Cluster)
}

// portOf: the HTTP port nsqadmin must use for upstream `name`; an nsqd that is not (any more) part
// of the cluster gets the dead port.
func (c *Cell) portOf(name string) int {
	cl := c.cluster()
	if strings.HasPrefix(name, "N") && cl != nil && len(cl.N) > 0 && !has(cl.N, name) {
		return c.deadPrt
	}
	if s, ok := c.stubs[name]; ok {
		return s.port
	}
	return c.deadPrt
}
func (c *Cell) addrOf(name string) string { return "127.0.0.1:" + strconv.Itoa(c.portOf(name)) }
func (c *Cell) stubAddr(name string) string {
	return "127.0.0.1:" + strconv.Itoa(c.stubs[name].port)
}
func (c *Cell) deadAddr() string { return "127.0.0.1:" + strconv.Itoa(c.deadPrt) }
func (c *Cell) nameOfAddr(addr string) string {
	for n, s := range c.stubs {
		if addr == "127.0.0.1:"+strconv.Itoa(s.port) {
			return n
		}
	}
	if addr == c.deadAddr() {
		return "DEAD"
	}
	return addr
}

func (c *Cell) takeLog() []UpReq {
	c.mu.Lock()
	defer c.mu.Unlock()
	l := c.log
	c.log = nil
	return l
}

func (s *Stub) record(r *http.Request) {
	q := r.URL.Query()
	u := UpReq{To: s.name, M: r.Method, Path: r.URL.Path, Topic: q.Get("topic"), Channel: q.Get("channel")}
	if n := q.Get("node"); n != "" {
		u.Node = s.cell.nameOfAddr(n)
	}
	s.cell.mu.Lock()
	s.cell.log = append(s.cell.log, u)
	s.cell.mu.Unlock()
}

func writeJSON(w http.ResponseWriter, code int, v interface{}) {
	b, _ := json.Marshal(v)
	w.Header().Set("Content-Type", "application/json; charset=utf-8")
	w.WriteHeader(code)
	w.Write(b)
}

type obj map[string]interface{}

// ephWriter / ephQuery: the wire names of a cell in "ephemeral names" mode (see newViewCell)
type ephWriter struct{ http.ResponseWriter }

func (e ephWriter) Write(b []byte) (int, error) {
	n := len(b)
	b = bytes.ReplaceAll(b, []byte(`"t3"`), []byte(`"t3#ephemeral"`))
	b = bytes.ReplaceAll(b, []byte(`"c2"`), []byte(`"c2#ephemeral"`))
	_, err := e.ResponseWriter.Write(b)
	return n, err
}
func (e ephWriter) Hijack() (net.Conn, *bufio.ReadWriter, error) {
	return e.ResponseWriter.(http.Hijacker).Hijack()
}
func (e ephWriter) Flush() {
	if fl, ok := e.ResponseWriter.(http.Flusher); ok {
		fl.Flush()
	}
}

func ephQuery(r *http.Request) {
	q := r.URL.Query()
	for key, plain := range map[string]string{"topic": "t3", "channel": "c2"} {
		if v, ok := q[key]; ok && len(v) == 1 {
			switch v[0] {
			case plain + "#ephemeral":
				q.Set(key, plain)
			case plain:
				q.Set(key, plain+"-is-not-its-name") // this upstream has no such topic / channel
			}
		}
	}
	r.URL.RawQuery = q.Encode()
}

func (s *Stub) ServeHTTP(w http.ResponseWriter, r *http.Request) {
	if s.cell.eph {
		ephQuery(r)
		w = ephWriter{w}
	}
	s.record(r)
	cl := s.cell.cluster()
	f := cl.fail(s.name)
	switch f {
	case "reset":
		if hj, ok := w.(http.Hijacker); ok {
			if conn, _, err := hj.Hijack(); err == nil {
				conn.Close()
				return
			}
		}
		w.WriteHeader(500)
		return
	case "e500":
		writeJSON(w, 500, obj{"message": "INTERNAL_ERROR"})
		return
	case "garbage":
		w.WriteHeader(200)
		w.Write([]byte("\x00\xff<html>not json {{{"))
		return
	case "wrongtype":
		writeJSON(w, 200, obj{"topics": 5, "producers": "x", "channels": 7, "version": 3, "http_port": "y"})
		return
	case "slow":
		// an answer that does not complete in time: every other time the status line, the headers and the beginning of a
		// well-formed body are there at once -- and then nothing more
		if atomic.AddInt64(&s.slowN, 1)%2 == 0 {
			w.Header().Set("Content-Type", "application/json; charset=utf-8")
			w.Header().Set("Content-Length", "4096")
			w.WriteHeader(200)
			w.Write([]byte(`{"version":"1.3.0","health":"OK","start_time":1,"topics":[`))
			if fl, ok := w.(http.Flusher); ok {
				fl.Flush()
			}
		}
		select {
		case <-r.Context().Done():
		case <-time.After(60 * time.Second):
		}
		return
	}
	if r.Method == "POST" {
		if cl.BadPost == s.name {
			writeJSON(w, 500, obj{"message": "INTERNAL_ERROR"})
			return
		}
		w.WriteHeader(200)
		return
	}
	if strings.HasPrefix(s.name, "L") {
		s.serveLookupd(w, r, cl, f)
	} else {
		s.serveNsqd(w, r, cl, f)
	}
}

func (s *Stub) peerInfo(cl *Cluster, n string) obj {
	port := s.cell.portOf(n)
	ver := "1.3.0"
	if d, ok := cl.Nsqd[n]; ok && d.Ver != "" {
		ver = d.Ver
	} else if n == "N1" {
		ver = "1.2.0" // Ver(n) of AdminView.tla for an nsqd that is gone
	}
	host := n
	if s.cell.sameHost && n == "N3" && port != s.cell.deadPrt {
		host = "N2"
	}
	return obj{"remote_address": "127.0.0.1:5" + n[1:], "hostname": host, "broadcast_address": "127.0.0.1",
		"tcp_port": port, "http_port": port, "version": ver}
}

func (s *Stub) serveLookupd(w http.ResponseWriter, r *http.Request, cl *Cluster, f string) {
	me := cl.Lookupd[s.name]
	q := r.URL.Query()
	switch r.URL.Path {
	case "/topics":
		writeJSON(w, 200, obj{"topics": sorted(me.Topics)})
	case "/channels":
		// AdminView.tla LChans: the channels of the nsqd this lookupd lists for the topic (t3: left behind by nsqd that are
		// gone); nsqlookupd builds the list from a map, so the order is arbitrary
		t := q.Get("topic")
		set := map[string]bool{}
		for n, nd := range me.Nodes {
			if nq, ok := cl.Nsqd[n]; ok && has(nd.Topics, t) {
				if tp, ok := nq.Topics[t]; ok {
					for c := range tp.Channels {
						set[c] = true
					}
				}
			}
		}
		if t == "t3" && has(me.Topics, t) {
			set["c1"], set["c2"] = true, true
		}
		chs := []string{}
		for c := range set {
			chs = append(chs, c)
		}
		sort.Slice(chs, func(i, j int) bool { return mapOrder(s.name, chs[i]) < mapOrder(s.name, chs[j]) })
		writeJSON(w, 200, obj{"channels": chs})
	case "/lookup":
		t := q.Get("topic")
		if !has(me.Topics, t) {
			writeJSON(w, 404, obj{"message": "TOPIC_NOT_FOUND"})
			return
		}
		if f == "nullprod" {
			w.Header().Set("Content-Type", "application/json")
			w.Write([]byte(`{"channels":[],"producers":[null]}`))
			return
		}
		prods := []obj{}
		for _, n := range sortedKeysL(me.Nodes) {
			nd := me.Nodes[n]
			if has(nd.Topics, t) && !has(nd.Tomb, t) {
				prods = append(prods, s.peerInfo(cl, n))
			}
		}
		writeJSON(w, 200, obj{"channels": []string{}, "producers": prods})
	case "/nodes":
		if f == "nullprod" {
			w.Header().Set("Content-Type", "application/json")
			w.Write([]byte(`{"producers":[null]}`))
			return
		}
		prods := []obj{}
		for _, n := range sortedKeysL(me.Nodes) {
			nd := me.Nodes[n]
			p := s.peerInfo(cl, n)
			// nsqlookupd builds this list from a map: the order is arbitrary (here: by a hash of node and topic),
			// and `tombstones` is parallel to it
			ts := sorted(nd.Topics)
			sort.Slice(ts, func(i, j int) bool { return mapOrder(n, ts[i]) < mapOrder(n, ts[j]) })
			tomb := make([]bool, len(ts))
			for i, t := range ts {
				tomb[i] = has(nd.Tomb, t)
			}
			p["topics"] = ts
			p["tombstones"] = tomb
			prods = append(prods, p)
		}
		if f == "tomblen" {
			// `topics` one longer than `tombstones`
			if len(prods) == 0 {
				prods = append(prods, s.peerInfo(cl, "N1"))
				prods[0]["topics"] = []string{}
				prods[0]["tombstones"] = []bool{}
			}
			prods[0]["topics"] = append(prods[0]["topics"].([]string), "zz_extra")
		}
		writeJSON(w, 200, obj{"producers": prods})
	case "/info":
		writeJSON(w, 200, obj{"version": "1.3.0"})
	default:
		writeJSON(w, 404, obj{"message": "NOT_FOUND"})
	}
}

func mapOrder(node, topic string) uint32 {
	h := fnv.New32a()
	h.Write([]byte(node + "\x00" + topic))
	return h.Sum32()
}

func sortedKeysL(m LNodeMap) []string {
	var r []string
	for k := range m {
		r = append(r, k)
	}
	sort.Strings(r)
	return r
}

func (s *Stub) clientObj(id string) obj {
	o := obj{"client_id": id, "hostname": "h-" + strings.Replace(id, "/", "-", -1), "version": "V2",
		"remote_address": "10.0.0.1:1234", "state": 3, "ready_count": 1, "in_flight_count": 0,
		"message_count": 0, "finish_count": 0, "requeue_count": 0, "connect_ts": time.Now().Unix() - 5,
		"sample_rate": 0, "deflate": false, "snappy": false, "tls": false}
	if strings.HasSuffix(id, "a") { // clients with and without the optional fields
		o["user_agent"] = "verif/1.0"
		o["tls_cipher_suite"] = ""
		o["tls_version"] = ""
		o["tls_negotiated_protocol"] = ""
		o["tls_negotiated_protocol_is_mutual"] = false
		o["authed"] = true
		o["auth_identity"] = "who"
		o["auth_identity_url"] = "http://x"
		o["topology_zone"] = "z1"
		o["topology_region"] = "r1"
	}
	return o
}

func (s *Stub) serveNsqd(w http.ResponseWriter, r *http.Request, cl *Cluster, f string) {
	me := cl.Nsqd[s.name]
	q := r.URL.Query()
	switch r.URL.Path {
	case "/info":
		ver := me.Ver
		if ver == "" {
			ver = "1.3.0"
		}
		host := s.name
		if s.cell.sameHost && host == "N3" {
			host = "N2"
		}
		writeJSON(w, 200, obj{"version": ver, "broadcast_address": "127.0.0.1", "hostname": host,
			"http_port": s.port, "tcp_port": s.port, "start_time": 1})
	case "/ping":
		w.Write([]byte("OK"))
	case "/stats":
		// the nsqd of one fan-out answer at the same instant: whatever nsqadmin does with the answers, it does concurrently
		s.cell.statsBarrier()
		selT, selC := q.Get("topic"), q.Get("channel")
		inclClients := q.Get("include_clients") != "false" && q.Get("include_clients") != "0"
		if f == "nulltopic" {
			w.Header().Set("Content-Type", "application/json")
			w.Write([]byte(`{"version":"1.3.0","health":"OK","start_time":1,"topics":[null],"producers":[]}`))
			return
		}
		// end-to-end latency as an nsqd run with --e2e-processing-latency-percentile=0.99,0.5 reports it; the numbers are
		// the record's own counters (samples = message_count, 99th = depth, median = backend_depth), so that the model
		// needs no further fields
		withE2e := func(o obj, count, p99, p50 int64) {
			switch f {
			case "noe2e":
			case "nulle2e":
				o["e2e_processing_latency"] = nil
			default:
				o["e2e_processing_latency"] = obj{"count": count, "percentiles": []interface{}{
					obj{"quantile": 0.99, "value": p99}, obj{"quantile": 0.5, "value": p50}}}
			}
		}
		topics := []interface{}{}
		var tnames []string
		for t := range me.Topics {
			tnames = append(tnames, t)
		}
		sort.Strings(tnames)
		first := true
		for _, t := range tnames {
			if selT != "" && selT != t {
				continue
			}
			tc := me.Topics[t]
			if selC != "" {
				if _, ok := tc.Channels[selC]; !ok {
					continue
				}
			}
			var cnames []string
			for c := range tc.Channels {
				cnames = append(cnames, c)
			}
			sort.Strings(cnames)
			chans := []interface{}{}
			for _, c := range cnames {
				if selC != "" && selC != c {
					continue
				}
				cc := tc.Channels[c]
				clients := []interface{}{}
				if inclClients {
					for _, id := range sorted(cc.Clients) {
						clients = append(clients, s.clientObj(id))
					}
					if f == "nullclient" {
						clients = append(clients, nil)
					}
				}
				co := obj{"channel_name": c, "depth": cc.Depth.V(), "backend_depth": cc.BackendDepth.V(),
					"in_flight_count": cc.InFlight.V(), "deferred_count": cc.Deferred.V(),
					"message_count": cc.MessageCount.V(), "requeue_count": cc.Requeue.V(),
					"timeout_count": cc.Timeout.V(), "client_count": len(cc.Clients), "clients": clients,
					"paused": cc.Paused}
				withE2e(co, cc.MessageCount.V(), cc.Depth.V(), cc.BackendDepth.V())
				chans = append(chans, co)
			}
			if f == "nullchan" && first {
				chans = append(chans, nil)
			}
			first = false
			to := obj{"topic_name": t, "channels": chans, "depth": tc.Depth.V(), "backend_depth": tc.BackendDepth.V(),
				"message_count": tc.MessageCount.V(), "message_bytes": 0, "paused": tc.Paused}
			withE2e(to, tc.MessageCount.V(), tc.Depth.V(), tc.BackendDepth.V())
			topics = append(topics, to)
		}
		writeJSON(w, 200, obj{"version": "1.3.0", "health": "OK", "start_time": 1, "topics": topics,
			"producers": []interface{}{}})
	default:
		writeJSON(w, 404, obj{"message": "NOT_FOUND"})
	}
}

// ---------------------------------------------------------------------------------------------
// reading PrintT(<<"TAG", ToJson(x)>>) lines out of a TLC log

func readTagged(path, tag string, each func(raw []byte) error) error {
	f, err := os.Open(path)
	if err != nil {
		return err
	}
	defer f.Close()
	rd := bufio.NewReaderSize(f, 1<<20)
	pre := []byte(`<<"` + tag + `", `)
	for {
		line, err := rd.ReadBytes('\n')
		if len(line) > 0 {
			line = bytes.TrimRight(line, "\r\n")
			if bytes.HasPrefix(line, pre) && bytes.HasSuffix(line, []byte(">>")) {
				inner := line[len(pre) : len(line)-2]
				var s string
				if e := json.Unmarshal(inner, &s); e != nil {
					return fmt.Errorf("cannot unquote %s line: %v", tag, e)
				}
				if e := each([]byte(s)); e != nil {
					return e
				}
			}
		}
		if err != nil {
			break
		}
	}
	return nil
}

// statsBarrier: a /stats request waits until no other /stats request has reached this cell's stubs for 2 ms (at most
// 20 ms): the requests of one fan-out are then answered together.
func (c *Cell) statsBarrier() {
	c.barMu.Lock()
	c.barLast = time.Now()
	c.barMu.Unlock()
	deadline := time.Now().Add(20 * time.Millisecond)
	for time.Now().Before(deadline) {
		c.barMu.Lock()
		quiet := time.Since(c.barLast) >= 2*time.Millisecond
		c.barMu.Unlock()
		if quiet {
			return
		}
		time.Sleep(200 * time.Microsecond)
	}
}
