\* replay family tlsauth (quick): the 9 policies with TLS and auth: upgrade with each certificate kind, AUTH, gated command
SPECIFICATION Spec
CONSTANTS
  Policies <- AuthTlsPolicies
  Cmds <- TlsAuthCmds
  AnswersA <- SmallAnswers
  AnswersR <- SmallAnswers
  Waits = {0, 3}
  MaxDepth = 3
  MaxNow = 9
  HttpReqs <- NoHttp
INVARIANTS TypeOK PropertyLevel PlainHttpServed RefetchIffExpired QueryCountLaw CodeStricter NeverOnExpiry EmitBehaviour
CHECK_DEADLOCK FALSE
