-------------------------------- MODULE Relay --------------------------------
(***************************************************************************)
(* C20, second clause: the algorithm of apps/nsq_to_nsq and                *)
(* apps/nsq_to_http (with the go-nsq consumer they are built on), one      *)
(* action per code branch:                                                 *)
(*                                                                         *)
(*  source nsqd      Deliver (message frame to the relay, attempts+1),     *)
(*                   SrcTimeout (msg-timeout expiry: requeued by nsqd      *)
(*                   while the relay still works on the old delivery)      *)
(*  go-nsq consumer  GiveUp (attempts > max_attempts: FIN unhandled),      *)
(*                   auto-REQ when HandleMessage returns an error,         *)
(*                   auto-FIN when it returns nil (nsq_to_http, filters)   *)
(*  HandleMessage    FilterDrop (filter/sample says no: return nil),       *)
(*                   Pick (round-robin counter / hostpool / epsilon-greedy)*)
(*                   SendFails (PublishAsync / connect error -> return err)*)
(*                   Send (request now outstanding at the destination)     *)
(*  destination      Answer: the next item of that destination's schedule  *)
(*                   -- A accept, R definite refusal, L lost (hang, closed *)
(*                   before the body was read) -- then accept for ever;    *)
(*                   ConnLost: a pipelined request dies with its connection*)
(*  responder /      RespondFin (t.Error == nil / 2xx -> Finish),          *)
(*  handler return   RespondReq (otherwise -> Requeue), with the hostpool  *)
(*                   mark                                                  *)
(*                                                                         *)
(* Kind = "async" is nsq_to_nsq (PublishAsync + responder goroutines: any  *)
(* number of requests outstanding), Kind = "sync" is nsq_to_http (a        *)
(* handler goroutine holds one request; Handlers of them).                 *)
(* FIN / REQ only act on the source when the message is in flight there    *)
(* (E_FIN_FAILED / E_REQ_FAILED otherwise) -- the late answers after a     *)
(* timeout are where finish-after-success could break.                     *)
(*                                                                         *)
(* The environment is adversarial but bounded: the schedules (chosen in    *)
(* Init, every combination up to MaxSched items per destination) and       *)
(* MaxTimeouts.  The same schedules are printed (SchedOut) and played by   *)
(* fake destinations against the real binaries (binding B).                *)
(***************************************************************************)
EXTENDS Integers, Sequences, FiniteSets, TLC

CONSTANTS Msgs, Dests,      \* Dests = 1..n
          Kind,             \* "async" | "sync"
          Mode,             \* "rr" | "hostpool" | "eps"   ("any": unconstrained choice, used by RelayShapeTrace only)
          Handlers,         \* concurrent HandleMessage calls
          Items,            \* schedule alphabet, subset of {"A","R","L","D"}
          MaxSched,         \* schedule length per destination
          MaxBad,           \* total number of non-accept items over all schedules
          MaxTimeouts,      \* msg-timeout expiries at the source
          MaxConnLost,      \* requests that fail because their connection died under them (no schedule item)
          MaxAttempts,      \* go-nsq max_attempts; 0 = never give up
          Filter

ASSUME Kind \in {"async", "sync"} /\ Mode \in {"rr", "hostpool", "eps", "any"} /\ Filter \in BOOLEAN

N == Cardinality(Dests)

VARIABLES q,        \* messages queued in the source channel
          att,      \* per message: attempts (= deliveries so far)
          sif,      \* per message: in flight at the source nsqd (to the relay's connection)
          gone,     \* per message: finished at the source
          work,     \* deliveries the relay has not answered yet: [m, a, st, d]
          ctr,      \* round-robin counter / hostpool nextHostIndex
          dead,     \* hostpool: hosts marked dead
          sched,    \* per destination: remaining schedule
          tos,      \* timeouts so far
          cl,       \* connection-loss failures so far
          ghost,    \* requests the relay has given up on (ConnLost) that may still reach their destination: <<m, d>>
          \* history (the outside view, RelayAbs)
          acc, dfail, ifail, reqs, fins, unknown, ended

ivars == <<q, att, sif, gone, work, ctr, dead, sched, tos, cl, ghost>>
hvars == <<acc, dfail, ifail, reqs, fins, unknown, ended>>
vars  == <<ivars, hvars>>

Abs == INSTANCE RelayAbs WITH delivered <- att

SeqsUpTo(S, n) == UNION {[1..i -> S] : i \in 0..n}
Bad(s) == Cardinality({i \in DOMAIN s : s[i] # "A"})
RECURSIVE SumBad(_, _)
SumBad(f, D) == IF D = {} THEN 0 ELSE LET d == CHOOSE x \in D : TRUE IN Bad(f[d]) + SumBad(f, D \ {d})
\* a trailing "A" adds nothing (accept for ever follows)
Schedules == {f \in [Dests -> SeqsUpTo(Items, MaxSched)] :
                /\ \A d \in Dests : f[d] = <<>> \/ f[d][Len(f[d])] # "A"
                /\ SumBad(f, Dests) <= MaxBad}

Init == /\ q = Msgs /\ att = [m \in Msgs |-> 0] /\ sif = [m \in Msgs |-> FALSE]
        /\ gone = [m \in Msgs |-> FALSE] /\ work = {} /\ ctr = 0 /\ dead = {}
        /\ sched \in Schedules /\ tos = 0 /\ cl = 0 /\ ghost = {}
        /\ acc = [m \in Msgs |-> {}] /\ dfail = [m \in Msgs |-> 0] /\ reqs = [m \in Msgs |-> 0]
        /\ fins = [m \in Msgs |-> 0] /\ ifail = 0 /\ unknown = 0 /\ ended = FALSE

----------------------------------------------------------------------------
(* commands on the source connection; nsqd acts only if the id is in flight for this client *)
SendFin(m) == /\ fins' = [fins EXCEPT ![m] = @ + 1]
              /\ IF sif[m] THEN gone' = [gone EXCEPT ![m] = TRUE] /\ sif' = [sif EXCEPT ![m] = FALSE]
                 ELSE UNCHANGED <<gone, sif>>
              /\ UNCHANGED <<q, reqs>>
SendReq(m) == /\ reqs' = [reqs EXCEPT ![m] = @ + 1]
              /\ IF sif[m] THEN q' = q \cup {m} /\ sif' = [sif EXCEPT ![m] = FALSE]
                 ELSE UNCHANGED <<q, sif>>
              /\ UNCHANGED <<gone, fins>>

Busy == Cardinality({w \in work : w.st \in {"h", "s"}})

(* source nsqd *)
Deliver(m) == /\ m \in q
              /\ Kind = "sync" => Busy < Handlers     \* max-in-flight / handler goroutines are finite
              /\ q' = q \ {m}
              /\ att' = [att EXCEPT ![m] = @ + 1]
              /\ sif' = [sif EXCEPT ![m] = TRUE]
              /\ work' = work \cup {[m |-> m, a |-> att[m] + 1, st |-> "h", d |-> 0]}
              /\ UNCHANGED <<gone, ctr, dead, sched, tos, cl, ghost, hvars>>
SrcTimeout(m) == /\ sif[m] /\ tos < MaxTimeouts
                 /\ sif' = [sif EXCEPT ![m] = FALSE] /\ q' = q \cup {m} /\ tos' = tos + 1
                 /\ UNCHANGED <<att, gone, work, ctr, dead, sched, cl, ghost, hvars>>

(* go-nsq handlerLoop: shouldFailMessage *)
GiveUp(w) == /\ w \in work /\ w.st = "h" /\ MaxAttempts > 0 /\ w.a > MaxAttempts
             /\ SendFin(w.m) /\ work' = work \ {w}
             /\ UNCHANGED <<att, ctr, dead, sched, tos, cl, ghost, acc, dfail, ifail, unknown, ended>>
(* filter / sample says no: HandleMessage returns nil -> auto FIN *)
FilterDrop(w) == /\ w \in work /\ w.st = "h" /\ Filter
                 /\ SendFin(w.m) /\ work' = work \ {w}
                 /\ UNCHANGED <<att, ctr, dead, sched, tos, cl, ghost, acc, dfail, ifail, unknown, ended>>

(* destination choice *)
RRPick(c) == (c % N) + 1
Alive == Dests \ dead
FirstAliveFrom(c) == LET k == CHOOSE k \in 0..(N - 1) : /\ RRPick(c + k) \in Alive
                                                         /\ \A j \in 0..(k - 1) : RRPick(c + j) \notin Alive
                     IN <<RRPick(c + k), c + k + 1>>
\* <<destination, new counter, new dead set>>
Choices ==
  CASE Mode = "rr" -> {<<RRPick(ctr + 1), ctr + 1, dead>>}
    [] Mode = "hostpool" ->
         IF Alive = {} THEN {<<1, 0, {}>>}                                 \* doResetAll
         ELSE {<<FirstAliveFrom(ctr)[1], FirstAliveFrom(ctr)[2], dead>>}
              \cup {<<d, ctr, dead>> : d \in dead}                          \* retry interval of a dead host elapsed
    [] Mode = "eps" ->
         IF Alive = {} THEN {<<1, 0, {}>>}
         ELSE {<<d, ctr, dead>> : d \in Dests}
    [] Mode = "any" -> {<<d, ctr, dead>> : d \in Dests}

NextItem(d) == IF sched[d] = <<>> THEN "A" ELSE Head(sched[d])
Consume(d) == sched' = [sched EXCEPT ![d] = IF @ = <<>> THEN @ ELSE Tail(@)]
CtrBound == 2 * N       \* the counter only matters modulo N

(* HandleMessage up to the publish call *)
SendTo(w, ch) == /\ w \in work /\ w.st = "h" /\ ch \in Choices
                 /\ work' = (work \ {w}) \cup {[w EXCEPT !.st = "s", !.d = ch[1]]}
                 /\ ctr' = ch[2] % CtrBound /\ dead' = ch[3]
                 /\ UNCHANGED <<q, att, sif, gone, sched, tos, cl, ghost, hvars>>
Send(w, ch) == NextItem(ch[1]) # "D" /\ SendTo(w, ch)      \* a destination that is down refuses the connection
(* destination down: PublishAsync / connect returns an error (hostpool: Mark(err) at once); HandleMessage
   returns it and go-nsq's handlerLoop requeues (RespondReq) *)
SendFails(w, ch) == /\ w \in work /\ w.st = "h" /\ ch \in Choices
                    /\ NextItem(ch[1]) = "D" /\ Consume(ch[1])
                    /\ work' = (work \ {w}) \cup {[w EXCEPT !.st = "fail", !.d = ch[1]]}
                    /\ ctr' = ch[2] % CtrBound
                    /\ dead' = IF Mode = "rr" THEN ch[3] ELSE ch[3] \cup {ch[1]}
                    /\ ifail' = ifail + 1
                    /\ UNCHANGED <<q, att, sif, gone, tos, cl, ghost, acc, dfail, reqs, fins, unknown, ended>>

(* the destination answers the outstanding request w with the next item of its schedule; a "D" met by a
   request that is already on its way (connection torn down under it) loses the request like "L" *)
Answer(w) == /\ w \in work /\ w.st = "s"
             /\ Consume(w.d)
             /\ LET it == NextItem(w.d) IN
                /\ work' = (work \ {w}) \cup {[w EXCEPT !.st = IF it = "A" THEN "ok" ELSE "fail"]}
                /\ IF it = "A" /\ ~Filter THEN acc' = [acc EXCEPT ![w.m] = @ \cup {w.d}] ELSE UNCHANGED acc
                /\ IF Filter /\ it = "A" THEN unknown' = unknown + 1 ELSE UNCHANGED unknown   \* rewritten body
                /\ IF it = "R" /\ ~Filter THEN dfail' = [dfail EXCEPT ![w.m] = @ + 1] ELSE UNCHANGED dfail
                /\ IF it \in {"L", "D"} \/ (it = "R" /\ Filter) THEN ifail' = ifail + 1 ELSE UNCHANGED ifail
             /\ UNCHANGED <<q, att, sif, gone, ctr, dead, tos, cl, ghost, reqs, fins, ended>>

(* the connection a request travels on dies under it (torn down by the answer to ANOTHER request: "L", "D",
   a refusal by closing; or the relay's own timeout): the request fails at the relay without the destination
   spending a schedule item -- even when the destination had already accepted it *)
ConnLost(w) == /\ w \in work /\ w.st \in {"s", "ok"} /\ cl < MaxConnLost     \* "ok": the answer was on its way
               /\ work' = (work \ {w}) \cup {[w EXCEPT !.st = "fail"]}
               /\ cl' = cl + 1
               /\ ghost' = IF w.st = "s" THEN ghost \cup {<<w.m, w.d>>} ELSE ghost
               /\ UNCHANGED <<q, att, sif, gone, ctr, dead, sched, tos, hvars>>
(* ... and the request it had given up on (its own timeout fired first) is served by the destination after all *)
GhostEffect(m, d) == /\ Consume(d)
                     /\ LET it == NextItem(d) IN
                        /\ IF it = "A" /\ ~Filter THEN acc' = [acc EXCEPT ![m] = @ \cup {d}] ELSE UNCHANGED acc
                        /\ IF Filter /\ it = "A" THEN unknown' = unknown + 1 ELSE UNCHANGED unknown
                        /\ IF it = "R" /\ ~Filter THEN dfail' = [dfail EXCEPT ![m] = @ + 1] ELSE UNCHANGED dfail
                        /\ IF it \in {"L", "D"} \/ (it = "R" /\ Filter) THEN ifail' = ifail + 1 ELSE UNCHANGED ifail
                     /\ UNCHANGED <<q, att, sif, gone, work, ctr, dead, tos, cl, reqs, fins, ended>>
GhostAnswer(g) == g \in ghost /\ ghost' = ghost \ {g} /\ GhostEffect(g[1], g[2])

(* responder (nsq_to_nsq) / return from HandleMessage (nsq_to_http) *)
RespondFin(w) == /\ w \in work /\ w.st = "ok"
                 /\ SendFin(w.m) /\ work' = work \ {w}
                 /\ dead' = dead \ {w.d}                            \* hostPoolResponse.Mark(nil)
                 /\ UNCHANGED <<att, ctr, sched, tos, cl, ghost, acc, dfail, ifail, unknown, ended>>
RespondReq(w) == /\ w \in work /\ w.st = "fail"
                 /\ SendReq(w.m) /\ work' = work \ {w}
                 /\ dead' = IF Mode = "rr" THEN dead ELSE dead \cup {w.d}   \* Mark(err)
                 /\ UNCHANGED <<att, ctr, sched, tos, cl, ghost, acc, dfail, ifail, unknown, ended>>

End == /\ ~ended /\ q = {} /\ work = {} /\ \A m \in Msgs : gone[m]
       /\ ended' = TRUE
       /\ UNCHANGED <<ivars, acc, dfail, ifail, reqs, fins, unknown>>

RelayStep == \E w \in work : \/ GiveUp(w) \/ FilterDrop(w) \/ RespondFin(w) \/ RespondReq(w)
                             \/ \E ch \in Choices : Send(w, ch) \/ SendFails(w, ch)
EnvStep   == \/ \E w \in work : Answer(w) \/ ConnLost(w)
             \/ \E g \in ghost : GhostAnswer(g)
\* (written out action by action so that TLC's coverage report is per action)
Next == \/ \E m \in Msgs : Deliver(m)
        \/ \E m \in Msgs : SrcTimeout(m)
        \/ \E w \in work : GiveUp(w)
        \/ \E w \in work : FilterDrop(w)
        \/ \E w \in work, ch \in Choices : Send(w, ch)
        \/ \E w \in work, ch \in Choices : SendFails(w, ch)
        \/ \E w \in work : Answer(w)
        \/ \E w \in work : ConnLost(w)
        \/ \E g \in ghost : GhostAnswer(g)
        \/ \E w \in work : RespondFin(w)
        \/ \E w \in work : RespondReq(w)
        \/ End

Fair == /\ WF_vars(RelayStep) /\ WF_vars(EnvStep) /\ WF_vars(End)
        /\ \A m \in Msgs : WF_vars(Deliver(m))
Spec == Init /\ [][Next]_vars /\ Fair

----------------------------------------------------------------------------
TypeOK == /\ q \subseteq Msgs /\ ctr \in 0..CtrBound /\ dead \subseteq Dests /\ tos \in 0..MaxTimeouts /\ cl \in 0..MaxConnLost
          /\ \A w \in work : w.m \in Msgs /\ w.st \in {"h", "s", "ok", "fail"} /\ w.d \in Dests \cup {0}

(* the property *)
FinOnlyAfterAccept == \A m \in Msgs : (gone[m] \/ fins[m] > 0) => (acc[m] # {} \/ Filter)
ReqOtherwise       == Abs!ReqOtherwise
Unmodified         == Abs!Unmodified
AtLeastOnce        == Abs!AtLeastOnce
\* custody: a message that is not finished is always queued or in flight at the source
NeverLost          == \A m \in Msgs : gone[m] \/ m \in q \/ sif[m]
\* a refused / failed delivery is never answered by FIN: it leaves `work' only through REQ
FailedIsRequeued   == [][\A w \in work : (w.st = "fail" /\ w \notin work') => reqs'[w.m] = reqs[w.m] + 1]_vars
Refines            == Abs!ASpec
EventuallyArrives  == \A m \in Msgs : <>(gone[m] /\ (acc[m] # {} \/ Filter))
Settles            == <>ended

(* binding B: the schedules of this configuration, for the fake destinations *)
IsInitial == \A m \in Msgs : att[m] = 0
RECURSIVE FlatS(_, _)
FlatS(f, i) == IF i > N THEN <<>> ELSE <<"|">> \o f[i] \o FlatS(f, i + 1)
SchedOut == IsInitial => PrintT(<<"SCHED", N, FlatS(sched, 1)>>)
=============================================================================
