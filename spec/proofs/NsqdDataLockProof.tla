------------------------- MODULE NsqdDataLockProof -------------------------
(* NsqdDataLock for ANY number of daemons pointed at one data path and any    *)
(* history of starts, SIGTERMs and SIGKILLs, proved with TLAPS: as coded      *)
(* (the lock is given back only once every goroutine has stopped) whoever     *)
(* touches the data path holds the lock, and no two daemons are alive on it.  *)
EXTENDS NsqdDataLock, FiniteSetTheorems, TLAPS

ASSUME Late == UnlockEarly = FALSE
ASSUME NameOK == "" \notin Daemons

ST == {"off", "running", "closing", "refused"}
Alive(d) == st[d] \in {"running", "closing"}
IndInv ==
  /\ st \in [Daemons -> ST]
  /\ holder \in Daemons \cup {""}
  /\ \A d \in Daemons : Alive(d) <=> holder = d
  /\ \A w \in writes : w[1] = w[2]

THEOREM Safe == Spec => [](OnlyTheOwnerWrites /\ OneAlive)
<1>1. Init => IndInv
  BY NameOK DEF Init, IndInv, ST, Alive
<1>2. IndInv /\ [Next]_vars => IndInv'
  <2> SUFFICES ASSUME IndInv, [Next]_vars PROVE IndInv'
    OBVIOUS
  <2> USE Late, NameOK DEF IndInv, ST, Alive
  <2>1. ASSUME NEW d \in Daemons, Start(d) PROVE IndInv'
    BY <2>1 DEF Start
  <2>2. ASSUME NEW d \in Daemons, Use(d) PROVE IndInv'
    BY <2>2 DEF Use
  <2>3. ASSUME NEW d \in Daemons, Term(d) PROVE IndInv'
    BY <2>3 DEF Term
  <2>4. ASSUME NEW d \in Daemons, Stopped(d) PROVE IndInv'
    BY <2>4 DEF Stopped
  <2>5. ASSUME NEW d \in Daemons, Kill(d) PROVE IndInv'
    BY <2>5 DEF Kill
  <2>6. CASE UNCHANGED vars
    BY <2>6 DEF vars
  <2> QED BY <2>1, <2>2, <2>3, <2>4, <2>5, <2>6 DEF Next
<1>3. IndInv => OnlyTheOwnerWrites
  BY DEF IndInv, OnlyTheOwnerWrites
<1>4. IndInv => OneAlive
  <2> SUFFICES ASSUME IndInv PROVE OneAlive
    OBVIOUS
  <2>1. \A a, b \in Daemons : Alive(a) /\ Alive(b) => a = b
    BY DEF IndInv
  <2>2. {d \in Daemons : st[d] \in {"running", "closing"}} \subseteq {holder}
    BY DEF IndInv, Alive
  <2>3. IsFiniteSet({holder}) /\ Cardinality({holder}) = 1
    BY FS_Singleton
  <2>4. Cardinality({d \in Daemons : st[d] \in {"running", "closing"}}) <= Cardinality({holder})
    BY <2>2, <2>3, FS_Subset
  <2> QED BY <2>3, <2>4 DEF OneAlive
<1> QED BY <1>1, <1>2, <1>3, <1>4, PTL DEF Spec
=============================================================================
