"""C07 -- content and envelope integrity (spec: NsqdAbs)."""
import corelib

META = {
    "technique": "TLC model checking of NsqdAbs/NsqdAbsMC; traces of a real in-process nsqd (verif hooks + client-side "
                 "observations) from the seeded 'bytes' and 'core' drivers validated against NsqdAbs by TLC; black-box "
                 "ledger on client-visible frames and /stats",
    "design_ref": "5/C07",
}


def pub_while_consuming(ctx):
    """Connections that publish and consume at once, at full speed (the daemon's reader and writer goroutines of one
    connection working concurrently), with and without compression / TLS: a black-box ledger over every frame."""
    import json
    import os
    import subprocess
    from vlib import Inconclusive, log
    h = ctx.harness("core")
    total = 0
    for i, feat in enumerate(["", "snappy", "deflate", "tls"] if ctx.quick else ["", "snappy", "deflate", "tls"] * 4):
        d = os.path.join(ctx.scratch, "pubsub-%d" % i)
        os.makedirs(d, exist_ok=True)
        rep = os.path.join(d, "report.json")
        try:
            p = subprocess.run([h, "pubsub", "--dir", d, "--seed", str(ctx.seed * 10 + i), "--feat", feat, "--dur",
                                "2s" if ctx.quick else "6s", "--report", rep], cwd=ctx.scratch, env=ctx.goenv(),
                               capture_output=True, text=True, timeout=300)
        except subprocess.TimeoutExpired:
            ctx.notes.setdefault("pubsub_inconclusive", []).append("timeout (%s)" % feat)
            continue
        if not os.path.exists(rep):
            if "panic:" in p.stderr and "nsqio/nsq/nsqd" in p.stderr:
                ctx.violation("the daemon panicked while connections were publishing and consuming at the same time (%s):\n%s"
                              % (feat or "plain", p.stderr[-1500:]), ctx.save_replay("pubsub-panic", {"stderr": p.stderr[-6000:]}),
                              key="pubsub:panic")
            else:
                ctx.notes.setdefault("pubsub_inconclusive", []).append((p.stdout + p.stderr)[-300:])
            continue
        R = json.load(open(rep))
        if R.get("inconclusive"):
            ctx.notes.setdefault("pubsub_inconclusive", []).append(R["inconclusive"])
            continue
        total += R["received"]
        ctx.notes.setdefault("pubsub", []).append({k: R[k] for k in ("negotiated", "conns", "published", "oks", "received", "seconds")})
        for f in (R.get("fails") or [])[:2]:
            ctx.violation("publish-while-consuming (%s): %s" % (feat or "plain", f),
                          ctx.save_replay("pubsub-%s" % (feat or "plain"), R), key="pubsub:" + f[:30])
    ctx.cov["evaluations"] += total
    log("publish-while-consuming: %d messages checked frame by frame" % total)


def run(ctx):
    import nsqdmc
    nsqdmc.model_check(ctx)
    n = 16 if ctx.quick else 120
    corelib.run_modes(ctx, "C07", [("bytes", n + n // 2), ("core", n // 2)])
    # the restart path: what comes back after a graceful shutdown carries the body and the timestamp it was published with
    rruns = corelib.drive(ctx, "restart", 8 if ctx.quick else 80)
    corelib.ledger(ctx, "C07", rruns)
    ctx.cov["evaluations"] += sum(r.get("events", 0) for r in rruns)
    ctx.notes["restart_runs"] = len(rruns)
    if not ctx.quick:
        corelib.repo_tests(ctx, "C07")
    pub_while_consuming(ctx)
    ctx.cov["distinct_nontrivial"] = len(ctx.notes.get("event_kinds", {}))
    ctx.cov["rule"] = ("evaluations = hook/harness events of real executions checked step by step by TLC against "
                       "NsqdAbs; distinct = event kinds (spec actions) exercised")
    ctx.assumptions += [
        "hook events are emitted inside the critical section performing the change (DESIGN.md appendix A)",
        "a rejection is attributed to the property whose clause the failing guard stands for (lib/corelib.py)",
    ]
