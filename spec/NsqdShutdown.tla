---------------------------- MODULE NsqdShutdown ----------------------------
(***************************************************************************)
(* The close protocol of nsqd (C05), at the grain of the steps the code    *)
(* takes in NSQD.Exit -> Topic.exit(false) -> Channel.exit(false):         *)
(*                                                                         *)
(*   Exit      : persist metadata; for every topic: Close; then wait       *)
(*   Topic     : exit flag -> stop the pump -> Close every linked channel  *)
(*               (an error of one of them is logged, the others are still  *)
(*               closed) -> flush the memory queue to the backend -> close *)
(*               the backend                                               *)
(*   Channel   : exit flag -> close clients -> flush memory queue,         *)
(*               in-flight and deferred messages to the backend -> close   *)
(*                                                                         *)
(* concurrently with deletions that are half done: a channel whose         *)
(* Delete() has set its flag and emptied it but which is still linked in   *)
(* its topic's channel map answers Close() with "exiting"; a topic being   *)
(* deleted likewise.                                                       *)
(*                                                                         *)
(* What a restart finds is what was flushed, so the property is carried by *)
(* three protocol facts, checked on every recorded shutdown of the real    *)
(* daemon (NsqdShutdownTrace) and, with message accounting, on the bounded *)
(* model below:                                                            *)
(*   FlushNeverFails : every write of a flush succeeds                     *)
(*   TopicClosesLast : a topic is closed only after its flush, and only    *)
(*                     when each linked channel is closed or being deleted *)
(*   ExitClosesAll   : Exit reports "topics closed" only when every topic  *)
(*                     is closed (or was being deleted)                    *)
(*                                                                         *)
(* AbortOnCloseError = TRUE is a variant in which Topic.exit returns the   *)
(* first channel-close error before its own flush: refuted by TLC.         *)
(***************************************************************************)
EXTENDS Integers, FiniteSets, TLC

CONSTANTS Chans,              \* channel names of the one topic modelled
          Msgs,               \* message ids
          AbortOnCloseError

VARIABLES ts,      \* topic: "live" | "closing" | "stopped" | "flushed" | "closed" | "aborted"
          cs,      \* channel -> "live" | "deleting" (flag set by Delete, emptied, still linked) | "unlinked"
                   \*            | "closing" | "closed"
          tmem,    \* ids in the topic's memory queue
          cmem,    \* channel -> ids it holds in memory (queue, in flight, deferred)
          tdisk,   \* ids in the topic's backend
          cdisk,   \* channel -> ids in its backend
          todo,    \* channels Topic.exit has not tried to close yet
          err,     \* a channel Close() failed during this Topic.exit
          phase    \* "running" | "exiting" | "done"

vars == <<ts, cs, tmem, cmem, tdisk, cdisk, todo, err, phase>>

Init == /\ ts = "live" /\ cs \in [Chans -> {"live"}]
        /\ tmem \in SUBSET Msgs
        /\ cmem \in [Chans -> SUBSET Msgs]
        /\ tdisk = {} /\ cdisk = [c \in Chans |-> {}]
        /\ todo = {} /\ err = FALSE /\ phase = "running"

\* ---- an operator deletes a channel: Delete() (flag, empty, files gone) ... then the unlink
DeleteBegin(c) == /\ cs[c] = "live" /\ ts \in {"live", "closing", "stopped"}
                  /\ cs' = [cs EXCEPT ![c] = "deleting"]
                  /\ cmem' = [cmem EXCEPT ![c] = {}] /\ cdisk' = [cdisk EXCEPT ![c] = {}]
                  /\ UNCHANGED <<ts, tmem, tdisk, todo, err, phase>>
DeleteUnlink(c) == /\ cs[c] = "deleting"
                   /\ cs' = [cs EXCEPT ![c] = "unlinked"]
                   /\ todo' = todo \ {c}
                   /\ UNCHANGED <<ts, tmem, cmem, tdisk, cdisk, err, phase>>

\* ---- the topic pump moves a message to every channel that is linked and not exiting
Pump(m) == /\ ts = "live" /\ m \in tmem
           /\ tmem' = tmem \ {m}
           /\ cmem' = [c \in Chans |-> IF cs[c] = "live" THEN cmem[c] \cup {m} ELSE cmem[c]]
           /\ UNCHANGED <<ts, cs, tdisk, cdisk, todo, err, phase>>

\* ---- NSQD.Exit -> Topic.exit(false)
ExitBegin   == /\ phase = "running" /\ phase' = "exiting" /\ ts = "live" /\ ts' = "closing"
               /\ UNCHANGED <<cs, tmem, cmem, tdisk, cdisk, todo, err>>
PumpStopped == /\ ts = "closing" /\ ts' = "stopped"
               /\ todo' = {c \in Chans : cs[c] \in {"live", "deleting"}}       \* the channel map as it is now
               /\ UNCHANGED <<cs, tmem, cmem, tdisk, cdisk, err, phase>>
CloseChan(c) == /\ ts = "stopped" /\ c \in todo
                /\ todo' = todo \ {c}
                /\ IF cs[c] = "live"
                   THEN /\ cs' = [cs EXCEPT ![c] = "closed"]                    \* Channel.exit(false): flush everything it holds
                        /\ cdisk' = [cdisk EXCEPT ![c] = @ \cup cmem[c]]
                        /\ cmem' = [cmem EXCEPT ![c] = {}]
                        /\ err' = err
                   ELSE /\ err' = TRUE                                          \* "exiting": logged, the loop goes on
                        /\ UNCHANGED <<cs, cdisk, cmem>>
                /\ UNCHANGED <<ts, tmem, tdisk, phase>>
TopicFlush == /\ ts = "stopped" /\ todo = {}
              /\ IF AbortOnCloseError /\ err
                 THEN ts' = "aborted" /\ UNCHANGED <<tmem, tdisk>>              \* returns the error: no flush, no close
                 ELSE ts' = "flushed" /\ tdisk' = tdisk \cup tmem /\ tmem' = {}
              /\ UNCHANGED <<cs, cmem, cdisk, todo, err, phase>>
TopicClose == /\ ts = "flushed" /\ ts' = "closed"
              /\ UNCHANGED <<cs, tmem, cmem, tdisk, cdisk, todo, err, phase>>
ExitDone == /\ phase = "exiting" /\ ts \in {"closed", "aborted"} /\ phase' = "done"
            /\ UNCHANGED <<ts, cs, tmem, cmem, tdisk, cdisk, todo, err>>

Next == \/ \E c \in Chans : DeleteBegin(c) \/ DeleteUnlink(c) \/ CloseChan(c)
        \/ \E m \in Msgs : Pump(m)
        \/ ExitBegin \/ PumpStopped \/ TopicFlush \/ TopicClose \/ ExitDone
Spec == Init /\ [][Next]_vars

---------------------------------------------------------------------------
\* C05: when the shutdown has completed nothing acknowledged is left in memory only: what the topic had not handed
\* out is in its backend, what a channel held is in that channel's backend -- unless the channel was being deleted
NothingOnlyInMemory ==
  phase = "done" => /\ tmem = {}
                    /\ \A c \in Chans : cs[c] = "closed" => cmem[c] = {}
\* a closed channel is never written again, a flushed topic neither
ExitClosesAll == phase = "done" => ts = "closed"
=============================================================================
