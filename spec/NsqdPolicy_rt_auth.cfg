\* replay family auth (thorough): 15 answers to AUTH, waits 0/2/3
SPECIFICATION Spec
CONSTANTS
  Policies <- AuthPlain
  Cmds <- AuthCmds
  AnswersA <- MidAnswers
  AnswersR <- SmallAnswers
  Waits = {0, 2, 3}
  MaxDepth = 3
  MaxNow = 18
  HttpReqs <- NoHttp
INVARIANTS TypeOK PropertyLevel PlainHttpServed RefetchIffExpired QueryCountLaw CodeStricter NeverOnExpiry EmitBehaviour
CHECK_DEADLOCK FALSE
