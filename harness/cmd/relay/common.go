package main

import (
	"bufio"
	"encoding/binary"
	"fmt"
	"io"
	"net"
	"os"
	"time"

	"github.com/nsqio/nsq/nsqd"
)

type nullLogger struct{}

func (nullLogger) Output(int, string) error { return nil }

// startNSQD runs a real nsqd in this process (it is an observer / message source here, not the code under test).
func startNSQD(dir string, tune func(*nsqd.Options)) (*nsqd.NSQD, error) {
	opts := nsqd.NewOptions()
	opts.Logger = nullLogger{}
	opts.TCPAddress = "127.0.0.1:0"
	opts.HTTPAddress = "127.0.0.1:0"
	opts.HTTPSAddress = ""
	opts.BroadcastAddress = "127.0.0.1"
	opts.DataPath = dir
	if tune != nil {
		tune(opts)
	}
	if err := os.MkdirAll(dir, 0755); err != nil {
		return nil, err
	}
	n, err := nsqd.New(opts)
	if err != nil {
		return nil, err
	}
	go func() { _ = n.Main() }()
	// wait for the listener
	deadline := time.Now().Add(20 * time.Second)
	for time.Now().Before(deadline) {
		c, err := net.DialTimeout("tcp", n.RealTCPAddr().String(), time.Second)
		if err == nil {
			c.Close()
			return n, nil
		}
		time.Sleep(5 * time.Millisecond)
	}
	return nil, fmt.Errorf("nsqd did not start listening")
}

// readFrame reads one nsqd protocol frame: size(4) type(4) data.
func readFrame(r *bufio.Reader) (int32, []byte, error) {
	var hdr [8]byte
	if _, err := io.ReadFull(r, hdr[:]); err != nil {
		return 0, nil, err
	}
	size := int32(binary.BigEndian.Uint32(hdr[0:4]))
	ft := int32(binary.BigEndian.Uint32(hdr[4:8]))
	if size < 4 || size > 64<<20 {
		return 0, nil, fmt.Errorf("bad frame size %d", size)
	}
	data := make([]byte, size-4)
	if _, err := io.ReadFull(r, data); err != nil {
		return 0, nil, err
	}
	return ft, data, nil
}

func frame(ft int32, data []byte) []byte {
	b := make([]byte, 8+len(data))
	binary.BigEndian.PutUint32(b[0:4], uint32(4+len(data)))
	binary.BigEndian.PutUint32(b[4:8], uint32(ft))
	copy(b[8:], data)
	return b
}

// drainTopic subscribes to topic/channel over TCP and returns the first n message bodies in delivery order.
func drainTopic(addr, topic string, n int, timeout time.Duration) ([][]byte, error) {
	c, err := net.DialTimeout("tcp", addr, 10*time.Second)
	if err != nil {
		return nil, err
	}
	defer c.Close()
	c.SetDeadline(time.Now().Add(timeout))
	rdy := n
	if rdy > 2500 {
		return nil, fmt.Errorf("%d messages: more than one RDY window (2500), not supported by this reader", n)
	}
	if _, err := fmt.Fprintf(c, "  V2SUB %s c\nRDY %d\n", topic, rdy); err != nil {
		return nil, err
	}
	r := bufio.NewReaderSize(c, 1<<16)
	var out [][]byte
	for len(out) < n {
		ft, data, err := readFrame(r)
		if err != nil {
			return out, err
		}
		switch ft {
		case 0:
			if string(data) == "_heartbeat_" {
				fmt.Fprintf(c, "NOP\n")
			}
		case 1:
			return out, fmt.Errorf("nsqd error frame: %s", data)
		case 2:
			if len(data) < 26 {
				return out, fmt.Errorf("short message frame")
			}
			// no FIN: the topic is deleted right after, and a FIN still being processed while the channel is
			// emptied runs into nsqd's FIN-vs-Empty race (stale in-flight heap index), which would take this
			// process down -- that race belongs to another property
			out = append(out, data[26:])
		}
	}
	return out, nil
}

// waitNoClients waits (bounded) until the channel has no client left, so that deleting the topic does not race
// with the connection's own cleanup inside nsqd.
func waitNoClients(n *nsqd.NSQD, topic, channel string) {
	for i := 0; i < 400; i++ {
		st := n.GetStats(topic, channel, false)
		if len(st.Topics) != 1 || len(st.Topics[0].Channels) != 1 || st.Topics[0].Channels[0].ClientCount == 0 {
			return
		}
		time.Sleep(5 * time.Millisecond)
	}
}
