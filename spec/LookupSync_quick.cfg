SPECIFICATION Spec
CONSTANTS
  Lookupds = {"l1", "l2"}
  MaxOps = 5
  MaxFaults = 2
  K = 2
  ByName = TRUE
INVARIANT Converges
CHECK_DEADLOCK FALSE
