----------------------------- MODULE TopicIdsMC -----------------------------
(* Bounded instance of TopicIds for TLC: ids are 1..MaxId ordered by <.      *)
EXTENDS TopicIds

CONSTANT MaxId
MCIds == 1..MaxId
IntLess(a, b) == a < b
=============================================================================
