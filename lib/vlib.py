"""Shared machinery for the /verif checks: scratch space, harness build, TLC runs
(exhaustive, simulate, trace validation), verdict policy, evidence files.

Verdict policy (DESIGN.md section 4):
  exit 0  property held on everything explored
  exit 1  + line "VIOLATION property=<id> replay=<path>"  -- only for a property predicate
          failing on an execution of the REAL code
  exit 2  inconclusive (build failure, timeout, TLC crash, driver could not run)
"""
import atexit
import json
import os
import re
import shutil
import subprocess
import sys
import tempfile
import time

VERIF = os.path.dirname(os.path.dirname(os.path.abspath(__file__)))
REPO = os.environ.get("VERIF_REPO", "/repo")
# evidence describes /repo; a run pointed at another tree (VERIF_REPO=<scratch worktree>, used to evaluate seeded
# changes) must not overwrite it
EVDIR = os.path.join(VERIF, "evidence") if REPO == "/repo" else os.path.join(
    os.environ.get("VERIF_SCRATCH_BASE") or tempfile.gettempdir(), "verif-evidence-other-tree")
NCPU = os.cpu_count() or 4

GOENV = {
    "GOFLAGS": "-mod=mod",
    "GOPROXY": "off",
    "GOSUMDB": "off",
    "GOTOOLCHAIN": "local",
}


class Inconclusive(Exception):
    pass


def log(*a):
    print("[verif]", *a, flush=True)


class TlcResult:
    def __init__(self, rc, out):
        self.rc = rc
        self.out = out
        m = re.search(r"(\d+) states generated, (\d+) distinct states found, (\d+) states left", out)
        self.generated = int(m.group(1)) if m else 0
        self.distinct = int(m.group(2)) if m else 0
        self.left = int(m.group(3)) if m else -1
        m = re.search(r"depth of the complete state graph search is (\d+)", out)
        self.depth = int(m.group(1)) if m else 0
        self.ok = "Model checking completed. No error has been found." in out
        self.violated = None
        m = re.search(r"Error: Invariant (\S+) is violated", out)
        if m:
            self.violated = m.group(1)
        m = re.search(r"Error: Action property (\S+) is violated", out)
        if m:
            self.violated = m.group(1)
        if "Temporal properties were violated" in out:
            self.violated = self.violated or "temporal"
        if "Error: Deadlock reached" in out:
            self.violated = self.violated or "deadlock"
        self.postcondition_false = bool(re.search(r"Postcondition \S+ .* is false", out))
        self.crashed = (not self.ok) and self.violated is None and not self.postcondition_false
        # simulation mode
        m = re.search(r"The number of states generated: (\d+)", out)
        if m and not self.generated:
            self.generated = int(m.group(1))

    def prints(self, tag):
        """Tuples printed with PrintT(<<"TAG", ...>>): returns list of flat token lists."""
        res = []
        # tuples may be wrapped over several lines by TLC's pretty printer
        for m in re.finditer(r'<<\s*"%s"(.*?)>>(?=\s*(?:\n[^ \n>,]|\Z))' % re.escape(tag), self.out, re.S):
            body = m.group(1)
            toks = [t.strip() for t in re.sub(r"<<|>>", "", body).replace("\n", " ").split(",")]
            res.append([t for t in toks if t != ""])
        return res


class Ctx:
    def __init__(self, pid, argv=None):
        import argparse
        ap = argparse.ArgumentParser()
        ap.add_argument("--tier", default=os.environ.get("VERIF_TIER", "quick"))
        ap.add_argument("--replay", default=None)
        ap.add_argument("--keep", action="store_true")
        a = ap.parse_args(argv)
        self.pid = pid
        self.tier = a.tier if a.tier in ("quick", "thorough") else "quick"
        self.replay = a.replay
        try:
            self.seed = int(os.environ.get("VERIF_SEED", "1"))
        except ValueError:
            self.seed = 1
        self.t0 = time.time()
        base = os.environ.get("VERIF_SCRATCH_BASE") or tempfile.gettempdir()
        self.scratch = tempfile.mkdtemp(prefix="verif-%s-" % pid, dir=base)
        if not a.keep:
            atexit.register(lambda: shutil.rmtree(self.scratch, ignore_errors=True))
        self.specdir = os.path.join(self.scratch, "spec")
        shutil.copytree(os.path.join(VERIF, "spec"), self.specdir)
        self.replay_dir = os.path.join(VERIF, "replays", pid)
        self._harness = {}
        self._bins = {}
        self.violations = []      # (what, replay_path)
        self.known_seen = []
        self.cov = {"states": 0, "transitions": 0, "traces_validated_against_impl": 0, "samples": [],
                    "evaluations": 0, "distinct_nontrivial": 0, "rule": "", "tlc_runs": []}
        self.assumptions = []
        self.notes = {"model_in_sync": True}
        self.known = load_known_findings()

    @property
    def quick(self):
        return self.tier == "quick"

    # ---------------------------------------------------------------- build
    def goenv(self, extra=None):
        env = dict(os.environ)
        env.update(GOENV)
        if extra:
            env.update(extra)
        return env

    def harness(self, name="harness"):
        """Build harness/cmd/<name> against the repository working tree (REPO) with -tags verif."""
        if name in self._harness:
            return self._harness[name]
        hdir = os.path.join(VERIF, "harness")
        if REPO != "/repo":
            # checks can be pointed at a scratch worktree (VERIF_REPO=...) for mutant testing
            cp = os.path.join(self.scratch, "hsrc")
            if not os.path.exists(cp):
                shutil.copytree(hdir, cp)
                gm = open(os.path.join(cp, "go.mod")).read().replace("=> /repo", "=> " + REPO)
                open(os.path.join(cp, "go.mod"), "w").write(gm)
            hdir = cp
        shutil.copy(os.path.join(REPO, "go.sum"), os.path.join(hdir, "go.sum"))
        out = os.path.join(self.scratch, "hbin-" + name)
        t = time.time()
        p = subprocess.run(["go", "build", "-tags", "verif", "-o", out, "./cmd/" + name], cwd=hdir,
                           env=self.goenv(), capture_output=True, text=True)
        if p.returncode != 0:
            raise Inconclusive("harness build failed:\n" + p.stdout + p.stderr)
        log("harness %s built in %.1fs" % (name, time.time() - t))
        self._harness[name] = out
        return out

    def repo_bin(self, app, tags="verif"):
        """Build /repo/apps/<app> from the current working tree."""
        key = (app, tags)
        if key in self._bins:
            return self._bins[key]
        out = os.path.join(self.scratch, "bin-%s-%s" % (app, tags or "plain"))
        cmd = ["go", "build"]
        if tags:
            cmd += ["-tags", tags]
        cmd += ["-o", out, "./apps/" + app]
        p = subprocess.run(cmd, cwd=REPO, env=self.goenv(), capture_output=True, text=True)
        if p.returncode != 0:
            raise Inconclusive("build of apps/%s failed:\n%s%s" % (app, p.stdout, p.stderr))
        self._bins[key] = out
        return out

    def run_harness(self, args, timeout=600, env=None, cwd=None, name="harness"):
        h = self.harness(name)
        try:
            p = subprocess.run([h] + [str(a) for a in args], cwd=cwd or self.scratch, env=self.goenv(env),
                               capture_output=True, text=True, timeout=timeout)
        except subprocess.TimeoutExpired:
            raise Inconclusive("harness %s timed out after %ss" % (args[0], timeout))
        return p.returncode, p.stdout, p.stderr

    # ---------------------------------------------------------------- TLC
    def tlc(self, module, cfg, workers=None, timeout=900, extra=None, deadlock=None, simulate=None, depth=None,
            seed=None, jvm=None, record=True, label=None, files=None, private=False):
        """Run TLC on spec/<module>.tla with spec/<cfg> inside the scratch copy of the spec dir."""
        specdir = self.specdir
        if private:
            specdir = tempfile.mkdtemp(prefix="spec-", dir=self.scratch)
            os.rmdir(specdir)
            shutil.copytree(self.specdir, specdir)
        for src, dst in (files or {}).items():
            shutil.copy(src, os.path.join(specdir, dst))
        md = tempfile.mkdtemp(prefix="md-", dir=self.scratch)
        # (TLC leaves an empty tlc-<n> directory in java.io.tmpdir per run: keep them inside the scratch space)
        cmd = ["timeout", str(timeout), "java", "-XX:+UseParallelGC", "-Djava.io.tmpdir=" + self.scratch]
        cmd += jvm or []
        cmd += ["-cp", "/opt/veriftools/tla/tla2tools.jar:/opt/veriftools/tla/CommunityModules-deps.jar", "tlc2.TLC"]
        cmd += ["-workers", str(workers or NCPU), "-metadir", md, "-config", cfg]
        if deadlock is False:
            cmd += ["-deadlock"]
        if simulate:
            cmd += ["-simulate", simulate]
            if depth:
                cmd += ["-depth", str(depth)]
        if seed is not None:
            cmd += ["-seed", str(seed)]
        cmd += extra or []
        cmd += [module + ".tla"]
        t = time.time()
        p = subprocess.run(cmd, cwd=specdir, capture_output=True, text=True)
        out = p.stdout + p.stderr
        shutil.rmtree(md, ignore_errors=True)
        if private:
            shutil.rmtree(specdir, ignore_errors=True)
        else:
            for f in os.listdir(self.specdir):
                if "_TTrace_" in f:
                    os.unlink(os.path.join(self.specdir, f))
        r = TlcResult(p.returncode, out)
        r.wall = time.time() - t
        r.cmd = " ".join(cmd[2:])
        if p.returncode == 124:
            raise Inconclusive("TLC timed out after %ss on %s/%s" % (timeout, module, cfg))
        if record:
            self.cov["tlc_runs"].append({"module": module, "cfg": cfg, "label": label or "", "generated": r.generated,
                                         "distinct": r.distinct, "depth": r.depth, "ok": r.ok,
                                         "violated": r.violated, "wall_s": round(r.wall, 1)})
        return r

    def model_check(self, module, cfg, expect_ok=True, **kw):
        """Exhaustive run of a bounded config; its state/transition counts go to the evidence.
        A failure of the *model* is never a violation of the code: it makes the run inconclusive."""
        r = self.tlc(module, cfg, **kw)
        if r.crashed:
            raise Inconclusive("TLC failed on %s/%s:\n%s" % (module, cfg, r.out[-3000:]))
        self.cov["states"] += r.distinct
        self.cov["transitions"] += r.generated
        if expect_ok and not r.ok:
            raise Inconclusive("model %s/%s does not satisfy %s (model and code out of sync?):\n%s"
                               % (module, cfg, r.violated, r.out[-3000:]))
        log("TLC %s/%s: %d distinct, %d generated, depth %d, %.1fs%s" % (
            module, cfg, r.distinct, r.generated, r.depth, r.wall, "" if r.ok else " VIOLATED " + str(r.violated)))
        return r

    def validate_trace(self, module, cfg, trace_path, ntraces, what, timeout=900, dfs=False, level="property",
                       key=None):
        """Trace validation: is the recorded execution a behaviour of the spec, with every invariant
        holding at every step?  Returns True when accepted.
        level="property": the spec states the property itself -> a rejection is a violation.
        level="shape":    the spec mirrors the code's algorithm -> a rejection that the property-level
                          spec does not share is model drift (reported, evidence model_in_sync=false),
                          never a violation."""
        jvm = ["-Xss512m"]
        if dfs:
            jvm.append("-Dtlc2.tool.queue.IStateQueue=StateDeque")
        r = self.tlc(module, cfg, workers=1, timeout=timeout, jvm=jvm, files={trace_path: "trace.ndjson"},
                     label="trace:" + what)
        if r.ok and "TRACE_OK" in r.out:
            if level == "property":
                self.cov["traces_validated_against_impl"] += ntraces
            else:
                self.notes.setdefault("shape_traces_accepted", 0)
                self.notes["shape_traces_accepted"] += ntraces
            log("trace %s: accepted (%d traces, %d states, %.1fs)" % (what, ntraces, r.distinct, r.wall))
            return True
        if r.crashed and not r.postcondition_false:
            raise Inconclusive("TLC failed validating %s:\n%s" % (what, r.out[-4000:]))
        # rejected: keep the trace as replay artefact
        os.makedirs(self.replay_dir, exist_ok=True)
        dst = os.path.join(self.replay_dir, "%s-seed%d.ndjson" % (re.sub(r"\W+", "_", what), self.seed))
        shutil.copy(trace_path, dst)
        detail = ""
        m = re.search(r'<<\s*"TRACE_REJECTED".*?(?=\nError|\Z)', r.out, re.S)
        if m:
            detail = m.group(0)[:1500]
        if r.violated:
            detail = "invariant/property %s violated on the recorded execution; %s" % (r.violated, detail)
            tail = r.out[r.out.find("Error:"):][:3000]
            with open(dst + ".tlc.txt", "w") as f:
                f.write(r.out[-20000:])
            detail += "\n" + tail
        if level == "shape":
            self.drift("trace %s is not a behaviour of the implementation-shaped spec %s: %s" % (what, module, detail))
            return False
        self.violation("trace %s rejected by %s: %s" % (what, module, detail), dst, key=key)
        return False

    def tlaps(self, module, deps=(), timeout=900):
        """TLAPS proof of spec/proofs/<module>.tla (an invariant without bounds on the constants or the number of steps).
        A model-level fact: if the proof system cannot be run, or some obligation is not discharged, the check is
        inconclusive -- verdicts about the code come from the bindings."""
        d = tempfile.mkdtemp(prefix="tlaps-", dir=self.scratch)
        shutil.copy(os.path.join(self.specdir, "proofs", module + ".tla"), d)
        for dep in deps:
            shutil.copy(os.path.join(self.specdir, dep + ".tla"), d)
        t0 = time.time()
        try:
            p = subprocess.run(["tlapm", "--threads", str(min(8, NCPU)), module + ".tla"], cwd=d, capture_output=True,
                               text=True, timeout=timeout)
        except (subprocess.TimeoutExpired, FileNotFoundError) as e:
            raise Inconclusive("tlapm on %s.tla: %s" % (module, e))
        out = p.stdout + p.stderr
        m = re.search(r"All (\d+) obligations proved", out)
        if not m:
            raise Inconclusive("%s.tla: not every obligation was proved:\n%s" % (module, out[-2500:]))
        self.notes.setdefault("tlaps_obligations_proved", {})[module] = int(m.group(1))
        log("TLAPS %s.tla: all %s obligations proved (%.1fs)" % (module, m.group(1), time.time() - t0))
        shutil.rmtree(d, ignore_errors=True)
        return int(m.group(1))

    def drift(self, what):
        """The code no longer moves the way the implementation-shaped spec says, without breaking a
        property predicate: the exhaustive results for that spec cannot be trusted until it is updated."""
        self.notes["model_in_sync"] = False
        self.notes.setdefault("shape_drift", []).append(what[:1500])
        print("SHAPE-DRIFT property=%s %s" % (self.pid, what[:600].replace("\n", " ")), flush=True)

    # ---------------------------------------------------------------- verdicts
    def violation(self, what, replay_path, key=None):
        """Record a violation, unless it matches an entry of known_findings.json (key)."""
        if key is not None:
            for k in self.known:
                if k.get("status", "open") == "open" and k["property"] == self.pid and k["key"] == key:
                    line = "KNOWN-FINDING: property=%s %s" % (self.pid, k["what"])
                    if line not in self.known_seen:
                        self.known_seen.append(line)
                        print(line, flush=True)
                    return
        self.violations.append((what, replay_path))
        log("VIOLATION:", what[:3000])

    def save_replay(self, name, obj):
        os.makedirs(self.replay_dir, exist_ok=True)
        p = os.path.join(self.replay_dir, "%s-seed%d.json" % (re.sub(r"\W+", "_", name), self.seed))
        with open(p, "w") as f:
            json.dump(obj, f, indent=1, default=str)
        return p

    def sample(self, s):
        if len(self.cov["samples"]) < 12:
            self.cov["samples"].append(s)

    def finish(self, level="model_checking"):
        cov = dict(self.cov)
        if not cov["samples"]:
            cov["samples"] = ["(no sample recorded)"]
        ev = {
            "property_id": self.pid, "tier": self.tier, "seed": self.seed, "level": level,
            "coverage": cov, "assumptions": self.assumptions, "wall_s": round(time.time() - self.t0, 1),
            "violations": len(self.violations), "known_findings_seen": self.known_seen, "notes": self.notes,
        }
        os.makedirs(EVDIR, exist_ok=True)
        with open(os.path.join(EVDIR, self.pid + ".json"), "w") as f:
            json.dump(ev, f, indent=1, default=str)
        for what, path in self.violations:
            print("VIOLATION property=%s replay=%s" % (self.pid, path), flush=True)
        if self.violations:
            sys.exit(1)
        log("%s %s: OK in %.0fs (states=%d transitions=%d traces=%d evaluations=%d)" % (
            self.pid, self.tier, time.time() - self.t0, cov["states"], cov["transitions"],
            cov["traces_validated_against_impl"], cov["evaluations"]))
        sys.exit(0)


def load_known_findings():
    p = os.path.join(VERIF, "known_findings.json")
    try:
        with open(p) as f:
            return json.load(f).get("findings", [])
    except (OSError, ValueError):
        return []


def run_check(pid, fn, argv=None):
    """Entry point used by every checks/CXX.py."""
    ctx = Ctx(pid, argv)
    try:
        fn(ctx)
    except Inconclusive as e:
        log("INCONCLUSIVE %s: %s" % (pid, e))
        if ctx.violations:
            # what was already established on the real code stands, whatever stopped the run afterwards
            ctx.notes["inconclusive_after_violations"] = str(e)[:1000]
            ctx.finish()
        # still leave an evidence file describing what was covered before the stop
        try:
            ctx.notes["inconclusive"] = str(e)[:2000]
            cov = dict(ctx.cov)
            if not cov["samples"]:
                cov["samples"] = ["(inconclusive run)"]
            os.makedirs(EVDIR, exist_ok=True)
            with open(os.path.join(EVDIR, pid + ".json"), "w") as f:
                json.dump({"property_id": pid, "tier": ctx.tier, "seed": ctx.seed, "level": "model_checking",
                           "coverage": cov, "assumptions": ctx.assumptions,
                           "wall_s": round(time.time() - ctx.t0, 1), "violations": 0, "notes": ctx.notes}, f,
                          indent=1, default=str)
        except Exception:
            pass
        sys.exit(2)
    ctx.finish()
