\* thorough: nsq_to_nsq shape (async), hostpool, safety + refinement (liveness with ConnLost: Relay_live.cfg), with ONE request lost together with its
\* connection (ConnLost: fails at the relay without a schedule item, possibly after the destination accepted it)
\* and <= 2 non-accepts
SPECIFICATION Spec
CONSTANTS
  Msgs = {1, 2}
  Dests = {1, 2}
  Kind = "async"
  Mode = "hostpool"
  Handlers = 2
  Items = {"A", "R", "L", "D"}
  MaxSched = 2
  MaxBad = 2
  MaxTimeouts = 1
  MaxConnLost = 1
  MaxAttempts = 0
  Filter = FALSE
INVARIANTS TypeOK FinOnlyAfterAccept ReqOtherwise Unmodified AtLeastOnce NeverLost
PROPERTIES Refines FailedIsRequeued
CHECK_DEADLOCK FALSE
