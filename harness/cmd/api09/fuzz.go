package main

// Binding B: seeded byte streams (class walks with every class anywhere, byte-level mutations of them,
// raw garbage: wrong magic, oversized lines, truncated bodies, huge / negative length prefixes) are sent
// to real daemons in one go (pipelined, optionally in pieces), the client closes its write side, reads
// every frame until the daemon closes, and records: the classified commands, the frames, what /stats
// says was enqueued, daemon + bystander liveness.  TLC validates the record against the table.

import (
	"crypto/sha1"
	"fmt"
	"math/rand"
	"os"
	"sort"
	"strings"
	"sync"
	"sync/atomic"
	"time"
)

type streamRec struct {
	Sid    string
	Kind   string
	Bytes  []byte
	Events []CEvent
	Frames []map[string]interface{}
	Enq    int64
	Alive  bool
}

type FuzzReport struct {
	Streams      int               `json:"streams"`
	Distinct     int               `json:"distinct_streams"`
	Traces       int               `json:"traces"`
	Commands     int64             `json:"commands"`
	Kinds        map[string]int    `json:"kinds"`
	Violations   []*Mismatch       `json:"violations"`
	Drift        []*Mismatch       `json:"drift"`
	Inconclusive []*Mismatch       `json:"inconclusive"`
	Unreproduced []*Mismatch       `json:"unreproduced"`
	Bystander    map[string][2]int64 `json:"bystander"`
	Limits       map[string]Limits `json:"limits"`
	Samples      []interface{}     `json:"samples"`
	WallS        float64           `json:"wall_s"`
}

// rows usable in a pipelined stream: nothing that needs an id learnt at run time, no compression
func streamable(r Row) bool {
	c := r.Cmd
	switch {
	case c.Op == "MAGIC":
		return false
	case (c.Op == "FIN" || c.Op == "REQ" || c.Op == "TOUCH") && (c.A == "held" || c.A == "other"):
		return false
	case c.Op == "IDENTIFY" && (c.A == "dl" || (c.A == "comp" && (c.B == "snappy" || c.B == "deflate"))):
		return false
	case c.A == "valid1" || c.B == "valid1": // single-byte names are left to binding A
		return false
	case isPub(c.Op) && c.A == "dying":
		// a topic whose deletion is parked half-way is daemon state prepared per sequence by the replayer
		// (dying.go); a pipelined stream cannot set it up, the classifier never names it: binding A only
		return false
	}
	return true
}

// classWalk: a random walk over the table (no deliveries: held = avail = 0 throughout).
func classWalk(tab *Table, g *Gen, r *rand.Rand, maxLen int) []byte {
	s := startFSM
	row, _ := tab.Find(s, Cmd{"MAGIC", "v2", "-", "-"})
	out := g.Concretise(row.Cmd).Bytes
	s = row.To
	n := 1 + r.Intn(maxLen)
	for i := 0; i < n; i++ {
		s.Held, s.Av = 0, 0
		var cand, soft []Row
		for _, x := range tab.Rows[s] {
			if streamable(x) {
				cand = append(cand, x)
				if !x.Fatal {
					soft = append(soft, x)
				}
			}
		}
		if len(cand) == 0 {
			break
		}
		pick := cand[r.Intn(len(cand))]
		if len(soft) > 0 && (i < n-1 || r.Intn(2) == 0) && r.Intn(8) != 0 {
			pick = soft[r.Intn(len(soft))]
		}
		w := g.Concretise(pick.Cmd)
		out = append(out, w.Bytes...)
		if pick.Fatal || w.HalfClose {
			break
		}
		s = pick.To
	}
	return out
}

func mutate(b []byte, r *rand.Rand) []byte {
	b = append([]byte(nil), b...)
	n := 1 + r.Intn(3)
	for i := 0; i < n && len(b) > 4; i++ {
		p := 4 + r.Intn(len(b)-4) // usually keep the magic
		if r.Intn(25) == 0 {
			p = r.Intn(len(b))
		}
		switch r.Intn(10) {
		case 0: // flip a bit
			b[p] ^= 1 << uint(r.Intn(8))
		case 1: // random byte
			b[p] = byte(r.Intn(256))
		case 2: // insert a byte
			b = append(b[:p], append([]byte{byte(r.Intn(256))}, b[p:]...)...)
		case 3: // delete a byte
			b = append(b[:p], b[p+1:]...)
		case 4: // delete a range
			q := p + r.Intn(1+min(len(b)-p, 40))
			b = append(b[:p], b[q:]...)
		case 5: // duplicate a range
			q := p + r.Intn(1+min(len(b)-p, 60))
			dup := append([]byte(nil), b[p:q]...)
			b = append(b[:q], append(dup, b[q:]...)...)
		case 6: // a stray newline or space
			c := byte('\n')
			if r.Intn(2) == 0 {
				c = ' '
			}
			b = append(b[:p], append([]byte{c}, b[p:]...)...)
		case 7: // cut the tail
			b = b[:p]
		case 8: // an interesting 32-bit value
			if p+4 <= len(b) {
				v := [][]byte{{0, 0, 0, 0}, {0xff, 0xff, 0xff, 0xff}, {0x80, 0, 0, 0}, {0x7f, 0xff, 0xff, 0xff}, {0, 0, 0, 1}, {0, 0x10, 0, 0}}
				copy(b[p:], v[r.Intn(len(v))])
			}
		case 9: // a digit becomes many
			if b[p] >= '0' && b[p] <= '9' {
				ins := []byte(strings.Repeat("9", 1+r.Intn(25)))
				b = append(b[:p], append(ins, b[p:]...)...)
			}
		}
	}
	return b
}

func min(a, b int) int {
	if a < b {
		return a
	}
	return b
}

func garbage(r *rand.Rand) []byte {
	var b []byte
	switch r.Intn(6) {
	case 0: // random bytes, no magic
		b = make([]byte, r.Intn(300))
		r.Read(b)
	case 1: // magic + random bytes
		b = make([]byte, r.Intn(3000))
		r.Read(b)
		b = append([]byte("  V2"), b...)
	case 2: // oversized line without newline
		b = append([]byte("  V2"), []byte(strings.Repeat(string(rune('A'+r.Intn(26))), lineBuf+r.Intn(40000)))...)
	case 3: // printable noise with newlines
		b = []byte("  V2")
		for i := 0; i < 1+r.Intn(8); i++ {
			w := []string{"PUB", "MPUB", "SUB", "RDY", "FIN", "IDENTIFY", "AUTH", "NOP", "CLS", "DPUB", "REQ", "TOUCH", "x", "", "t", "#ephemeral", "-1", "18446744073709551617"}
			var l []string
			for j := 0; j < r.Intn(5); j++ {
				l = append(l, w[r.Intn(len(w))])
			}
			b = append(b, []byte(strings.Join(l, " ")+"\n")...)
			if r.Intn(3) == 0 {
				x := make([]byte, r.Intn(12))
				r.Read(x)
				b = append(b, x...)
			}
		}
	case 4: // a valid-looking publish with a wild size prefix
		sz := []uint32{0, 1, 0xffffffff, 0x80000000, 0x7fffffff, uint32(r.Int31()), 5, 1 << 20}[r.Intn(8)]
		op := []string{"PUB t\n", "MPUB t\n", "DPUB t 10\n", "IDENTIFY\n", "AUTH\n"}[r.Intn(5)]
		b = append([]byte("  V2"+op), be32(sz)...)
		x := make([]byte, r.Intn(40))
		r.Read(x)
		b = append(b, x...)
	case 5: // HTTP request to the TCP port, old protocol magic
		b = []byte([]string{"GET /ping HTTP/1.1\r\nHost: x\r\n\r\n", "  V1SUB t c\n", "\x16\x03\x01\x02\x00\x01\x00"}[r.Intn(3)])
	}
	return b
}

// run one stream against env e (streams of one env run one after the other: /stats deltas are exact)
func runStream(e *Env, kind, sid string, b []byte, r *rand.Rand) (*streamRec, error) {
	rec := &streamRec{Sid: sid, Kind: kind, Bytes: b, Events: Classify(b, e.L)}
	// an ephemeral topic that is both subscribed and published to disappears (with its counters) when the
	// connection ends: what it took cannot be read from /stats afterwards
	subs := map[string]bool{}
	for _, ev := range rec.Events {
		if ev.Cmd.Op == "SUB" && strings.HasSuffix(ev.Topic, "#ephemeral") {
			subs[ev.Topic] = true
		}
	}
	for _, ev := range rec.Events {
		if isPub(ev.Cmd.Op) && subs[ev.Topic] {
			rec.Events = append(rec.Events, CEvent{Opaque: true})
			break
		}
	}
	total := func() (int64, []string, error) {
		ts, err := e.AllTopics()
		if err != nil {
			return 0, nil, err
		}
		var n int64
		var names []string
		for _, t := range ts {
			if t.Name != "bystander" {
				n += t.Count
				names = append(names, t.Name)
			}
		}
		return n, names, nil
	}
	before, _, err := total()
	if err != nil {
		return nil, err
	}
	t, err := Dial(e.TCP)
	if err != nil {
		return nil, err
	}
	defer t.Close()
	// in one piece or in a few
	if r.Intn(3) == 0 && len(b) > 2 {
		cut := 1 + r.Intn(len(b)-1)
		t.Send(b[:cut], false)
		time.Sleep(time.Duration(r.Intn(2000)) * time.Microsecond)
		t.Send(b[cut:], true)
	} else {
		t.Send(b, true)
	}
	deadline := time.Now().Add(120 * time.Second)
	for {
		f, err := t.Next(time.Until(deadline))
		if err == errTimeout {
			return nil, fmt.Errorf("stream %s: daemon did not close the connection within 120s after the client's EOF", sid)
		}
		if err != nil {
			if isClose(err) {
				break
			}
			rec.Frames = append(rec.Frames, map[string]interface{}{"t": "bad", "v": err.Error()})
			break
		}
		switch f.ft {
		case 0:
			v := string(f.data)
			if strings.HasPrefix(v, "{") && strings.Contains(v, `"max_rdy_count"`) {
				v = "JSON"
			} else if v != "OK" && v != "CLOSE_WAIT" {
				v = fmt.Sprintf("other:%x", []byte(v[:min(len(v), 20)]))
			}
			rec.Frames = append(rec.Frames, map[string]interface{}{"t": "resp", "v": v})
		case 1:
			rec.Frames = append(rec.Frames, map[string]interface{}{"t": "err", "v": codeOf(f.data)})
		default:
			rec.Frames = append(rec.Frames, map[string]interface{}{"t": "bad", "v": fmt.Sprintf("frame type %d", f.ft)})
		}
	}
	after, names, err := total()
	if err != nil {
		return nil, err
	}
	rec.Enq = after - before
	rec.Alive = e.Alive() == nil
	for _, n := range names {
		e.DeleteTopic(n) // best effort: an ephemeral topic may already be gone
	}
	return rec, nil
}

func cmdFuzz(args []string) int {
	fs := newFlags("fuzz")
	rowsPath := fs.String("rows", "", "table printed by TLC")
	seed := fs.Int64("seed", 1, "seed")
	nstreams := fs.Int("streams", 2000, "streams to send")
	nenvs := fs.Int("envs", 6, "daemons (streams of one daemon run sequentially)")
	outPath := fs.String("out", "", "trace (ndjson)")
	report := fs.String("report", "", "report file")
	scratch := fs.String("scratch", ".", "scratch directory")
	dump := fs.String("dump", "", "directory to keep every stream's bytes in (debugging)")
	fs.Parse(args)
	t0 := time.Now()
	tab, err := LoadTable(*rowsPath)
	if err != nil {
		return die(err)
	}
	rep := &FuzzReport{Kinds: map[string]int{}, Bystander: map[string][2]int64{}, Limits: map[string]Limits{}}
	lr := rand.New(rand.NewSource(*seed + 7777))
	var envs []*Env
	for i := 0; i < *nenvs; i++ {
		kind := "small"
		if i == *nenvs-1 {
			kind = "big"
		}
		e, err := StartEnv(RandomLimits(lr, kind), fmt.Sprintf("%s%d", kind, i), *scratch)
		if err != nil {
			return die(err)
		}
		defer e.Stop()
		if _, err := StartBystander(e); err != nil {
			return die(err)
		}
		rep.Limits[e.Kind] = e.L
		envs = append(envs, e)
	}
	var mu sync.Mutex
	var recs []*streamRec
	var wg sync.WaitGroup
	var next int64
	var firstErr error
	for ei, e := range envs {
		wg.Add(1)
		go func(ei int, e *Env) {
			defer wg.Done()
			g := NewGen(*seed*77+int64(ei), e.L, ei)
			for {
				i := int(atomic.AddInt64(&next, 1)) - 1
				if i >= *nstreams {
					return
				}
				r := rand.New(rand.NewSource(seqSeed(*seed, i, "stream")))
				g.R = r
				g.Seq = i
				g.seqNames = map[string]string{}
				var b []byte
				kind := ""
				switch x := r.Intn(10); {
				case x < 3:
					kind, b = "classwalk", classWalk(tab, g, r, 12)
				case x < 8:
					kind, b = "mutated", mutate(classWalk(tab, g, r, 10), r)
				default:
					kind, b = "garbage", garbage(r)
				}
				rec, err := runStream(e, kind, fmt.Sprintf("%d@%s", i, e.Kind), b, r)
				mu.Lock()
				if err != nil {
					if firstErr == nil {
						firstErr = err
					}
					mu.Unlock()
					return
				}
				recs = append(recs, rec)
				mu.Unlock()
				if *dump != "" {
					os.WriteFile(fmt.Sprintf("%s/stream-%d.bin", *dump, i), b, 0644)
				}
			}
		}(ei, e)
	}
	wg.Wait()
	if firstErr != nil {
		rep.Inconclusive = append(rep.Inconclusive, &Mismatch{Kind: "timeout", What: firstErr.Error()})
	}
	sort.Slice(recs, func(i, j int) bool { return recs[i].Sid < recs[j].Sid })
	out, err := newNDJSON(*outPath)
	if err != nil {
		return die(err)
	}
	distinct := map[[20]byte]bool{}
	for _, rec := range recs {
		rep.Kinds[rec.Kind]++
		distinct[sha1.Sum(rec.Bytes)] = true
		frames := rec.Frames
		if frames == nil {
			frames = []map[string]interface{}{}
		}
		out.Put(map[string]interface{}{"ev": "Stream", "sid": rec.Sid, "kind": rec.Kind, "frames": frames, "bytes": describe(rec.Bytes)})
		for _, ev := range rec.Events {
			if ev.Opaque {
				out.Put(map[string]interface{}{"ev": "Opaque", "sid": rec.Sid})
				continue
			}
			rep.Commands++
			out.Put(map[string]interface{}{"ev": "Cmd", "sid": rec.Sid, "op": ev.Cmd.Op, "a": ev.Cmd.A, "b": ev.Cmd.B, "c": ev.Cmd.C, "nm": ev.NMsgs})
		}
		out.Put(map[string]interface{}{"ev": "End", "sid": rec.Sid, "enq": rec.Enq, "alive": rec.Alive})
		if !rec.Alive {
			rep.Violations = append(rep.Violations, &Mismatch{Kind: "daemon", Row: rec.Sid, What: "nsqd does not answer /ping after stream " + describe(rec.Bytes)})
		}
		if len(rep.Samples) < 6 && (len(rep.Samples) == 0 || rec.Kind != recs[0].Kind) {
			var cs []string
			for _, ev := range rec.Events {
				if ev.Opaque {
					cs = append(cs, "(opaque)")
				} else {
					cs = append(cs, ev.Cmd.String())
				}
			}
			rep.Samples = append(rep.Samples, map[string]interface{}{"kind": rec.Kind, "bytes": describe(rec.Bytes), "classified": cs, "frames": rec.Frames, "enqueued": rec.Enq})
		}
	}
	out.Close()
	rep.Streams, rep.Distinct, rep.Traces = len(recs), len(distinct), len(recs)
	for _, e := range envs {
		if err := e.Alive(); err != nil {
			rep.Violations = append(rep.Violations, &Mismatch{Kind: "daemon", Row: e.Kind, What: "nsqd is not alive after the streams: " + err.Error(), Limits: e.L})
			continue
		}
		probs, late := e.by.Finish()
		rep.Bystander[e.Kind] = [2]int64{atomic.LoadInt64(&e.by.Published), atomic.LoadInt64(&e.by.Consumed)}
		if late {
			rep.Inconclusive = append(rep.Inconclusive, &Mismatch{Kind: "timeout", Row: e.Kind, What: "bystander did not drain in time"})
		}
		for _, p := range probs {
			rep.Violations = append(rep.Violations, &Mismatch{Kind: "bystander", Row: e.Kind, What: "the bystander client was affected: " + p, Limits: e.L})
		}
	}
	rep.WallS = time.Since(t0).Seconds()
	if err := writeJSON(*report, rep); err != nil {
		return die(err)
	}
	fmt.Printf("fuzz: %d streams (%d distinct; %v), %d classified commands, %d violations, %d inconclusive, %.1fs\n",
		rep.Streams, rep.Distinct, rep.Kinds, rep.Commands, len(rep.Violations), len(rep.Inconclusive), rep.WallS)
	if len(rep.Violations) > 0 {
		return 1
	}
	return 0
}
