------------------------------- MODULE Guid -------------------------------
(***************************************************************************)
(* nsqd/guid.go: the per-topic message-id generator (C12).                 *)
(*                                                                         *)
(* One generator per node id.  NewGUID runs entirely under the generator's *)
(* mutex, so it is ONE atomic action here.  The 64-bit id the code packs   *)
(* as  (ts - twepoch) << 22 | node << 12 | seq  is modelled as the triple  *)
(* <<ts, node, seq>> ordered lexicographically (same order; TLC integers   *)
(* are 32 bit).  The environment owns the clock: it may stand still, move  *)
(* forward, or step back (NTP).                                            *)
(***************************************************************************)
EXTENDS Integers, FiniteSets, TLC

CONSTANTS SeqMask,    \* code: 4095 (sequenceBits = 12); tiny in exhaustive configs
          MaxClock,   \* clock values explored: 0..MaxClock
          MaxBack,    \* how many backward steps the clock may take
          Nodes       \* node ids with a generator

VARIABLES clock, backs, lastTs, sq, lastId, ret, issued

vars == <<clock, backs, lastTs, sq, lastId, ret, issued>>

ZeroId == <<0, 0, 0>>
Less(a, b) == \/ a[1] < b[1]
              \/ a[1] = b[1] /\ a[2] < b[2]
              \/ a[1] = b[1] /\ a[2] = b[2] /\ a[3] < b[3]
Leq(a, b) == a = b \/ Less(a, b)

NoRet == [node |-> -1, err |-> "none", id |-> ZeroId]

Init == /\ clock \in 0..MaxClock
        /\ backs = 0
        /\ lastTs = [n \in Nodes |-> 0]
        /\ sq     = [n \in Nodes |-> 0]
        /\ lastId = [n \in Nodes |-> ZeroId]
        /\ ret = NoRet
        /\ issued = {}

(* the body of guidFactory.NewGUID for generator n at clock reading ts *)
Gen(n, ts) ==
  IF ts < lastTs[n]
  THEN /\ ret' = [node |-> n, err |-> "backwards", id |-> ZeroId]
       /\ UNCHANGED <<lastTs, sq, lastId>>
  ELSE LET s1 == IF lastTs[n] = ts THEN (sq[n] + 1) % (SeqMask + 1) ELSE 0 IN
       IF lastTs[n] = ts /\ s1 = 0
       THEN /\ ret' = [node |-> n, err |-> "expired", id |-> ZeroId]
            /\ sq' = [sq EXCEPT ![n] = 0]
            /\ UNCHANGED <<lastTs, lastId>>
       ELSE LET id == <<ts, n, s1>> IN
            /\ sq' = [sq EXCEPT ![n] = s1]
            /\ lastTs' = [lastTs EXCEPT ![n] = ts]
            /\ IF Leq(id, lastId[n])
               THEN /\ ret' = [node |-> n, err |-> "idbackwards", id |-> id]
                    /\ UNCHANGED lastId
               ELSE /\ ret' = [node |-> n, err |-> "", id |-> id]
                    /\ lastId' = [lastId EXCEPT ![n] = id]

\* `issued' is a history variable (every id ever handed out), not generator state
NewGUID(n) == /\ Gen(n, clock)
              /\ issued' = IF ret'.err = "" THEN issued \cup {ret'.id} ELSE issued
              /\ UNCHANGED <<clock, backs>>

Tick == /\ clock < MaxClock
        /\ clock' = clock + 1
        /\ UNCHANGED <<backs, lastTs, sq, lastId, ret, issued>>

StepBack == /\ backs < MaxBack
            /\ clock > 0
            /\ \E c \in 0..(clock - 1) : clock' = c
            /\ backs' = backs + 1
            /\ UNCHANGED <<lastTs, sq, lastId, ret, issued>>

Next == Tick \/ StepBack \/ \E n \in Nodes : NewGUID(n)

Spec == Init /\ [][Next]_vars /\ WF_vars(Tick) /\ \A n \in Nodes : WF_vars(NewGUID(n))

---------------------------------------------------------------------------
(* C12 *)
TypeOK == /\ clock \in 0..MaxClock
          /\ \A n \in Nodes : sq[n] \in 0..SeqMask /\ lastTs[n] \in 0..MaxClock

\* every successful call returns an id strictly above everything issued before by that generator
StrictlyIncreasing ==
  [][\A n \in Nodes : (ret' # ret /\ ret'.node = n /\ ret'.err = "")
        => /\ Less(lastId[n], ret'.id)
           /\ \A i \in issued : i[2] = n => Less(i, ret'.id)]_vars

\* ... hence no id is ever handed out twice
NeverReuse == [][\A n \in Nodes : (ret'.err = "" /\ ret' # ret) => ret'.id \notin issued]_vars

\* an error leaves the high-water mark alone
ErrLeavesLastId == [][(ret' # ret /\ ret'.err \notin {"", "none"}) => lastId' = lastId]_vars

\* the high-water mark dominates everything issued
HighWater == \A i \in issued : Leq(i, lastId[i[2]])
LastIdNotAhead == \A n \in Nodes : lastId[n][1] <= lastTs[n]

\* the generator recovers as soon as the clock passes lastTs: the caller's retry loop
\* (Topic.GenerateID sleeps 1 ms and retries) therefore waits, it never reuses
RecoversWhenClockPasses ==
  [][\A n \in Nodes : (clock > lastTs[n] /\ ret' # ret /\ ret'.node = n /\ clock' = clock) => ret'.err = ""]_vars

\* refinement: the algorithm implements the user-level id source (GuidAbs)
Abs == INSTANCE GuidAbs WITH high <- lastId, out <- ret
Refines == Abs!ASpec

\* liveness: if the clock keeps advancing, generator n keeps producing ids
EventuallyIssues == \A n \in Nodes : (clock < MaxClock) ~> ((ret.node = n /\ ret.err = "") \/ clock = MaxClock)
===========================================================================
