SPECIFICATION Spec
CONSTANTS
  Chan = {c1, c2, c3}
  Count = 2
  PoolMax = 2
  DirtyPct = 25
INVARIANTS SelectionOK PoolOK SmallAllScanned NoIdleSpin
CHECK_DEADLOCK FALSE
