package main

// C18 binding B: seeded random clusters, the views a real nsqadmin process answers for them recorded
// as ndjson cases for AdminViewTrace.tla (TLC re-computes every view from the recorded cluster).

import (
	"encoding/json"
	"flag"
	"fmt"
	"math/rand"
	"os"
	"sort"
	"strings"
	"sync"

	"github.com/nsqio/nsq/verifharness/hlib"
)

func init() {
	subcmds["view-trace"] = viewTrace
}

func randCluster(rng *rand.Rand) *Cluster {
	cl := &Cluster{Nsqd: NsqdMap{}, Lookupd: LookupdMap{}, Fail: StrMap{}, L: []string{}, N: []string{}}
	if rng.Intn(3) == 0 {
		cl.Mode = "direct"
	} else {
		cl.Mode = "lookupd"
	}
	nN := 1 + rng.Intn(3)
	names := []string{"N1", "N2", "N3"}[:nN]
	ver := map[string]string{"N1": "1.2.0", "N2": "1.3.0", "N3": "1.3.0"}
	rp := func(maxHi int) Pair {
		hi := int64(0)
		if rng.Intn(3) == 0 {
			hi = int64(rng.Intn(maxHi + 1))
		}
		return Pair{hi, int64(rng.Intn(1000))}
	}
	le := func(a Pair) Pair { // componentwise <= a
		return Pair{int64(rng.Intn(int(a[0]) + 1)), int64(rng.Intn(int(a[1]) + 1))}
	}
	for _, n := range names {
		nd := NsqdC{Ver: ver[n], Topics: TopicMap{}}
		for _, t := range []string{"t1", "t2", "t3"} {
			if rng.Intn(10) < 6 {
				d := rp(3)
				tc := TopicC{Depth: d, BackendDepth: le(d), MessageCount: rp(5), Paused: rng.Intn(5) == 0, Channels: ChanMap{}}
				for _, c := range []string{"c1", "c2"} {
					if rng.Intn(10) < 6 {
						cd := rp(3)
						cc := ChanC{Depth: cd, BackendDepth: le(cd), InFlight: Pair{0, int64(rng.Intn(50))}, Deferred: Pair{0, int64(rng.Intn(50))},
							Requeue: rp(2), Timeout: rp(2), MessageCount: rp(5), Paused: rng.Intn(5) == 0, Clients: []string{}}
						for i := 0; i < rng.Intn(4); i++ {
							cc.Clients = append(cc.Clients, fmt.Sprintf("%s/%s/%s/%c", n, t, c, "abcd"[i]))
						}
						tc.Channels[c] = cc
					}
				}
				nd.Topics[t] = tc
			}
		}
		cl.Nsqd[n] = nd
		cl.N = append(cl.N, n)
	}
	if cl.Mode == "lookupd" {
		nL := 1 + rng.Intn(2)
		for _, l := range []string{"L1", "L2"}[:nL] {
			ld := LookupdC{Topics: []string{}, Nodes: LNodeMap{}}
			for _, n := range names {
				if rng.Intn(10) < 8 {
					ln := LNode{Topics: []string{}, Tomb: []string{}}
					for t := range cl.Nsqd[n].Topics {
						if rng.Intn(10) < 9 {
							ln.Topics = append(ln.Topics, t)
							if rng.Intn(8) == 0 {
								ln.Tomb = append(ln.Tomb, t)
							}
							if !has(ld.Topics, t) {
								ld.Topics = append(ld.Topics, t)
							}
						}
					}
					sort.Strings(ln.Topics)
					sort.Strings(ln.Tomb)
					ld.Nodes[n] = ln
				}
			}
			if rng.Intn(4) == 0 && !has(ld.Topics, "t3") {
				ld.Topics = append(ld.Topics, "t3")
			}
			sort.Strings(ld.Topics)
			cl.Lookupd[l] = ld
			cl.L = append(cl.L, l)
		}
		// now and then an nsqd the lookupds still name is gone
		if nN > 1 && rng.Intn(6) == 0 {
			gone := names[nN-1]
			delete(cl.Nsqd, gone)
			cl.N = cl.N[:nN-1]
		}
	}
	classes := []string{"reset", "e500", "garbage", "wrongtype"}
	for _, u := range append(append([]string{}, cl.L...), cl.N...) {
		cl.Fail[u] = "ok"
		if rng.Intn(7) == 0 {
			cl.Fail[u] = classes[rng.Intn(len(classes))]
		} else if rng.Intn(60) == 0 {
			cl.Fail[u] = "slow"
		}
	}
	return cl
}

func viewTrace(args []string) int {
	fs := flag.NewFlagSet("view-trace", flag.ExitOnError)
	bin := fs.String("nsqadmin", "", "nsqadmin binary")
	seed := fs.Int64("seed", 1, "seed")
	n := fs.Int("n", 100, "clusters")
	out := fs.String("out", "", "ndjson")
	report := fs.String("report", "", "report")
	cells := fs.Int("cells", 8, "parallel cells")
	timeout := fs.String("upstream-timeout", "1s", "nsqadmin's upstream request timeout")
	fs.Parse(args)
	rep := map[string]interface{}{}
	fail := func(err error) int {
		rep["error"] = err.Error()
		hlib.WriteJSON(*report, rep)
		fmt.Fprintln(os.Stderr, err)
		return 2
	}
	rng := rand.New(rand.NewSource(*seed))
	clusters := make([]*Cluster, *n)
	for i := range clusters {
		clusters[i] = randCluster(rng)
	}
	events := make([]map[string]interface{}, *n)
	findings := map[string]*ViewFinding{}
	var mu sync.Mutex
	next, views, crashes := 0, 0, 0
	var firstErr error
	var wg sync.WaitGroup
	for w := 0; w < *cells; w++ {
		wg.Add(1)
		go func() {
			defer wg.Done()
			vc, err := newViewCell(*bin, *timeout)
			if err != nil {
				mu.Lock()
				firstErr = err
				mu.Unlock()
				return
			}
			defer vc.Close()
			for {
				mu.Lock()
				if next >= len(clusters) || firstErr != nil {
					mu.Unlock()
					return
				}
				i := next
				next++
				mu.Unlock()
				cl := clusters[i]
				vc.cell.set(cl)
				raw, _ := json.Marshal(map[string]interface{}{"cl": cl})
				cs := &ViewCase{Cl: *cl, Raw: raw}
				obs := jmap{"topic": jmap{}, "channel": jmap{}, "node": jmap{}}
				get := func(kind, path string) (jmap, bool) {
					o, err := vc.one(cs, viewReq{kind: kind, path: path})
					if err != nil {
						mu.Lock()
						firstErr = err
						mu.Unlock()
						return nil, false
					}
					mu.Lock()
					views++
					mu.Unlock()
					if o.Crash != "" {
						mu.Lock()
						crashes++
						key := "crash:" + strings.SplitN(o.Crash, " -- ", 2)[0]
						if f := findings[key]; f != nil {
							f.Count++
						} else {
							fk := "crash"
							if strings.HasPrefix(o.Crash, "exit-without-panic") {
								fk = "child-exit"
							}
							findings[key] = &ViewFinding{Kind: fk, Key: key, View: kind, Path: path, Case: raw, Obs: o, Count: 1,
								What: "nsqadmin crashed while serving " + kind + ": " + o.Crash}
						}
						mu.Unlock()
						return nil, false
					}
					v := o.V
					if v == nil {
						v = jmap{}
					}
					return jmap{"st": o.St, "warn": o.Warn, "v": v}, true
				}
				ok := true
				var r jmap
				if r, ok = get("topics", "/api/topics"); ok {
					obs["topics"] = r
				}
				for _, t := range []string{"t1", "t2", "t3"} {
					if !ok {
						break
					}
					if r, ok = get("topic", "/api/topics/"+t); ok {
						obs["topic"].(jmap)[t] = r
					}
					chm := jmap{}
					for _, c := range []string{"c1", "c2"} {
						if !ok {
							break
						}
						if r, ok = get("channel", "/api/topics/"+t+"/"+c); ok {
							chm[c] = r
						}
					}
					obs["channel"].(jmap)[t] = chm
				}
				if ok {
					if r, ok = get("nodes", "/api/nodes"); ok {
						obs["nodes"] = r
					}
				}
				for _, nn := range []string{"N1", "N2", "N3"} {
					if !ok {
						break
					}
					addr := vc.cell.stubAddr(nn)
					for _, l := range cl.Lookupd {
						if _, named := l.Nodes[nn]; named {
							addr = vc.cell.addrOf(nn)
						}
					}
					if r, ok = get("node", "/api/nodes/"+addr); ok {
						obs["node"].(jmap)[nn] = r
					}
				}
				if ok {
					if r, ok = get("counter", "/api/counter"); ok {
						obs["counter"] = r
					}
				}
				if ok {
					events[i] = map[string]interface{}{"ev": "Case", "cl": cl, "obs": obs}
				}
			}
		}()
	}
	wg.Wait()
	if firstErr != nil {
		return fail(firstErr)
	}
	w, err := hlib.NewNDJSON(*out)
	if err != nil {
		return fail(err)
	}
	nc := 0
	var samples []interface{}
	for _, e := range events {
		if e != nil {
			w.Put(e)
			nc++
			if len(samples) < 2 {
				samples = append(samples, e)
			}
		}
	}
	w.Close()
	rep["clusters"] = nc
	rep["views"] = views
	rep["crashes"] = crashes
	rep["samples"] = samples
	var fl []*ViewFinding
	for _, f := range findings {
		fl = append(fl, f)
	}
	sort.Slice(fl, func(i, j int) bool { return fl[i].Key < fl[j].Key })
	rep["findings"] = fl
	hlib.WriteJSON(*report, rep)
	if len(fl) > 0 {
		return 1
	}
	return 0
}
