SPECIFICATION TraceSpec
CONSTRAINT HW
INVARIANTS DurSane FinOnlyAfterDurable NothingOwedIsMissing
PROPERTIES NeverOverwrite
POSTCONDITION TraceAccepted
CHECK_DEADLOCK FALSE
