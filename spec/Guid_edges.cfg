SPECIFICATION Spec
CONSTANTS
  SeqMask = 2
  MaxClock = 3
  MaxBack = 2
  Nodes = {1}
ACTION_CONSTRAINT EdgeOut
CHECK_DEADLOCK FALSE
