\* quick 2: batches of two messages (pending order, gzip members holding two records), every option combination
SPECIFICATION Spec
CONSTANTS
  Msgs = {1, 2}
  MaxInFlight = 2
  MaxNow = 1
  DatePeriod = 1
  MaxRev = 3
  MaxHups = 0
  MaxRestarts = 0
  MaxPower = 1
  PreNames = {}
  PreSize = 2
  ForeignNames = {}
  MaxForeign = 0
  GzipAppendOnRestart = FALSE
  OptSet <- AllOpts
CONSTRAINT RevBound
INVARIANTS TypeOK DurSane FinOnlyAfterDurable NothingOwedIsMissing FinqIsDurable Custody SyncOnOpenFile
PROPERTIES NeverOverwrite
CHECK_DEADLOCK FALSE
