------------------------- MODULE NsqdPauseAckProof -------------------------
(* NsqdPauseAck for ANY set of simultaneous handlers and any number of        *)
(* rounds, proved with TLAPS: as coded (SkipWhenSame = FALSE) whoever is      *)
(* answered finds the value it asked for on disk.                             *)
EXTENDS NsqdPauseAck, TLAPS

ASSUME NoSkip == SkipWhenSame = FALSE

PC == {"idle", "flagged", "locked", "written", "renamed", "acked"}
TypeOK == /\ flag \in BOOLEAN /\ file \in BOOLEAN /\ phase \in BOOLEAN
          /\ lock \in Handlers \cup {""}
          /\ pc \in [Handlers -> PC] /\ want \in [Handlers -> BOOLEAN] /\ snap \in [Handlers -> BOOLEAN]

Holding(h) == pc[h] \in {"locked", "written", "renamed"}
IndInv ==
  /\ TypeOK
  /\ "" \notin Handlers
  /\ \A h \in Handlers : Holding(h) <=> lock = h                   \* NSQD's lock: one persist at a time
  /\ \A h \in Handlers : pc[h] # "idle" => want[h] = phase /\ flag = phase
  /\ \A h \in Handlers : Holding(h) => snap[h] = phase
  /\ \A h \in Handlers : pc[h] \in {"renamed", "acked"} => file = phase

ASSUME NameOK == "" \notin Handlers

THEOREM Safe == Spec => []AckedIsOnDisk
<1>1. Init => IndInv
  BY NameOK DEF Init, IndInv, TypeOK, PC, Holding
<1>2. IndInv /\ [Next]_vars => IndInv'
  <2> SUFFICES ASSUME IndInv, [Next]_vars PROVE IndInv'
    OBVIOUS
  <2> USE NoSkip, NameOK DEF IndInv, TypeOK, PC, Holding
  <2>1. ASSUME NEW h \in Handlers, Request(h) PROVE IndInv'
    BY <2>1 DEF Request
  <2>2. ASSUME NEW h \in Handlers, Lock(h) PROVE IndInv'
    BY <2>2 DEF Lock
  <2>3. ASSUME NEW h \in Handlers, Write(h) PROVE IndInv'
    BY <2>3 DEF Write
  <2>4. ASSUME NEW h \in Handlers, Rename(h) PROVE IndInv'
    BY <2>4 DEF Rename
  <2>5. ASSUME NEW h \in Handlers, Answer(h) PROVE IndInv'
    BY <2>5 DEF Answer
  <2>6. CASE Turn
    BY <2>6 DEF Turn
  <2>7. CASE UNCHANGED vars
    BY <2>7 DEF vars
  <2> QED BY <2>1, <2>2, <2>3, <2>4, <2>5, <2>6, <2>7 DEF Next
<1>3. IndInv => AckedIsOnDisk
  BY DEF IndInv, AckedIsOnDisk
<1> QED BY <1>1, <1>2, <1>3, PTL DEF Spec
=============================================================================
