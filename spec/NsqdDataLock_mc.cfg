SPECIFICATION Spec
CONSTANTS
  Daemons = {a, b, c}
  UnlockEarly = FALSE
INVARIANTS OnlyTheOwnerWrites OneAlive
CHECK_DEADLOCK FALSE
