\* quick 1: one message, every option combination, interval + date rollover, SIGHUP, SIGTERM, kill and power loss
\* at every step, pre-existing and concurrently created colliding names
SPECIFICATION Spec
CONSTANTS
  Msgs = {1}
  MaxInFlight = 1
  MaxNow = 2
  DatePeriod = 2
  MaxRev = 3
  MaxHups = 1
  MaxRestarts = 0
  MaxPower = 1
  PreNames <- PreNamesQ
  PreSize = 2
  ForeignNames <- ForeignQ
  MaxForeign = 1
  OptSet <- AllOpts
CONSTRAINT RevBound
INVARIANTS TypeOK DurSane FinOnlyAfterDurable NothingOwedIsMissing FinqIsDurable Custody SyncOnOpenFile
PROPERTIES NeverOverwrite
CHECK_DEADLOCK FALSE
