package main

import (
	"bufio"
	"bytes"
	"encoding/binary"
	"encoding/json"
	"errors"
	"fmt"
	"io"
	"log"
	"math/rand"
	"net"
	"net/http"
	"net/url"
	"os"
	"sort"
	"strconv"
	"strings"
	"time"

	"github.com/nsqio/nsq/nsqd"
)

// ---------------------------------------------------------------- abstract requests (mirror of NsqdHttp.tla)

type Item struct {
	Decl int64 `json:"decl"`
	Have int64 `json:"have"`
}

type Body struct {
	Kind  string  `json:"kind"` // "text" | "bin"
	Segs  []int64 `json:"segs"`
	Hdr   int64   `json:"hdr"`
	Count int64   `json:"count"`
	Items []Item  `json:"items"`
	Extra int64   `json:"extra"`
}

type Req struct {
	Route   string   `json:"route"`
	Method  string   `json:"method"`
	Topic   []string `json:"topic"`
	Channel []string `json:"channel"`
	Defer   []string `json:"defer"`
	Binary  []string `json:"binary"`
	BadQ    bool     `json:"badq"`
	Arg     string   `json:"arg"`
	Chunked bool     `json:"chunked"`
	Body    Body     `json:"body"`
}

type Slice struct {
	At int64 `json:"at"`
	N  int64 `json:"n"`
}

type ChanObs struct {
	Ex     bool  `json:"ex"`
	Paused bool  `json:"paused"`
	Depth  int64 `json:"depth"`
	Cnt    int64 `json:"cnt"`
	Def    int64 `json:"def"`
}

type TopicObs struct {
	Ex     bool               `json:"ex"`
	Paused bool               `json:"paused"`
	Depth  int64              `json:"depth"`
	Cnt    int64              `json:"cnt"`
	Bytes  int64              `json:"bytes"`
	Ch     map[string]ChanObs `json:"ch"`
}

type Obs map[string]TopicObs

func (b Body) Len() int64 {
	if b.Kind == "text" {
		var n int64
		for _, s := range b.Segs {
			n += s
		}
		return n + int64(len(b.Segs)) - 1
	}
	n := b.Hdr + b.Extra
	for _, it := range b.Items {
		n += 4 + it.Have
	}
	return n
}

func normReq(r *Req) {
	if r.Topic == nil {
		r.Topic = []string{}
	}
	if r.Channel == nil {
		r.Channel = []string{}
	}
	if r.Defer == nil {
		r.Defer = []string{}
	}
	if r.Binary == nil {
		r.Binary = []string{}
	}
	if r.Body.Segs == nil {
		r.Body.Segs = []int64{}
	}
	if r.Body.Items == nil {
		r.Body.Items = []Item{}
	}
}

func emptyObs(topics, channels []string) Obs {
	o := Obs{}
	for _, t := range topics {
		to := TopicObs{Ch: map[string]ChanObs{}}
		for _, c := range channels {
			to.Ch[c] = ChanObs{}
		}
		o[t] = to
	}
	return o
}

func obsEqual(a, b Obs) bool {
	ja, _ := json.Marshal(a)
	jb, _ := json.Marshal(b)
	return bytes.Equal(ja, jb)
}

func obsString(o Obs) string {
	b, _ := json.Marshal(o)
	return string(b)
}

// ---------------------------------------------------------------- daemon

type Daemon struct {
	N        *nsqd.NSQD
	HTTPAddr string
	TCPAddr  string
	dir      string
	MaxMsg   int64
	MaxBody  int64
	MaxDefer int64 // ms
	done     chan error
}

func startDaemon(base string, maxMsg, maxBody int64, maxReq time.Duration) (*Daemon, error) {
	opts := nsqd.NewOptions()
	opts.Logger = log.New(io.Discard, "", 0)
	opts.TCPAddress = "127.0.0.1:0"
	opts.HTTPAddress = "127.0.0.1:0"
	opts.HTTPSAddress = ""
	opts.MaxMsgSize = maxMsg
	opts.MaxBodySize = maxBody
	opts.MaxReqTimeout = maxReq
	opts.QueueScanInterval = 10 * time.Millisecond
	opts.QueueScanRefreshInterval = 20 * time.Millisecond // new channels are scanned (deferred messages released) promptly
	opts.MsgTimeout = 60 * time.Second
	opts.TLSRequired = nsqd.TLSNotRequired
	d, err := os.MkdirTemp(base, "nsqd-")
	if err != nil {
		return nil, err
	}
	opts.DataPath = d
	n, err := nsqd.New(opts)
	if err != nil {
		os.RemoveAll(d)
		return nil, err
	}
	dm := &Daemon{N: n, dir: d, MaxMsg: maxMsg, MaxBody: maxBody, MaxDefer: int64(maxReq / time.Millisecond), done: make(chan error, 1)}
	go func() { dm.done <- n.Main() }()
	dm.HTTPAddr = n.RealHTTPAddr().String()
	dm.TCPAddr = n.RealTCPAddr().String()
	return dm, nil
}

func (d *Daemon) Stop() {
	d.N.Exit()
	os.RemoveAll(d.dir)
}

// wipe removes every topic through the daemon's own API (between behaviours)
func (d *Daemon) wipe() {
	st := d.N.GetStats("", "", false)
	for _, t := range st.Topics {
		d.N.DeleteExistingTopic(t.TopicName)
	}
}

// ---------------------------------------------------------------- raw HTTP client (keep-alive, full control of framing)

type HTTPResp struct {
	Status int
	Header http.Header
	Body   []byte
	Closed bool
}

type HTTPConn struct {
	addr string
	c    net.Conn
	br   *bufio.Reader
}

func (h *HTTPConn) close() {
	if h.c != nil {
		h.c.Close()
		h.c = nil
	}
}

// do sends raw request bytes and reads one response. A stale keep-alive connection is retried once.
func (h *HTTPConn) do(method string, raw []byte, deadline time.Duration) (*HTTPResp, error) {
	var lastErr error
	for attempt := 0; attempt < 2; attempt++ {
		fresh := false
		if h.c == nil {
			c, err := net.DialTimeout("tcp", h.addr, 20*time.Second)
			if err != nil {
				return nil, err
			}
			h.c = c
			h.br = bufio.NewReader(c)
			fresh = true
		}
		h.c.SetDeadline(time.Now().Add(deadline))
		_, werr := h.c.Write(raw)
		resp, err := http.ReadResponse(h.br, &http.Request{Method: method})
		if err != nil {
			h.close()
			if werr != nil {
				lastErr = werr
			} else {
				lastErr = err
			}
			if fresh {
				return nil, lastErr
			}
			continue
		}
		b, err := io.ReadAll(resp.Body)
		resp.Body.Close()
		if err != nil {
			h.close()
			return nil, err
		}
		r := &HTTPResp{Status: resp.StatusCode, Header: resp.Header, Body: b, Closed: resp.Close}
		if resp.Close {
			h.close()
		}
		return r, nil
	}
	return nil, lastErr
}

func buildHTTP(method, target string, body []byte, chunked bool, rng *rand.Rand, sendBody bool) []byte {
	var w bytes.Buffer
	fmt.Fprintf(&w, "%s %s HTTP/1.1\r\nHost: nsqd\r\n", method, target)
	if !sendBody {
		w.WriteString("\r\n")
		return w.Bytes()
	}
	if chunked {
		w.WriteString("Transfer-Encoding: chunked\r\n\r\n")
		rest := body
		for len(rest) > 0 {
			n := len(rest)
			if rng != nil && n > 1 && rng.Intn(3) != 0 {
				n = 1 + rng.Intn(n)
			}
			fmt.Fprintf(&w, "%x\r\n", n)
			w.Write(rest[:n])
			w.WriteString("\r\n")
			rest = rest[n:]
		}
		w.WriteString("0\r\n\r\n")
	} else {
		fmt.Fprintf(&w, "Content-Length: %d\r\n\r\n", len(body))
		w.Write(body)
	}
	return w.Bytes()
}

// ---------------------------------------------------------------- stats projection

type statsDoc struct {
	Health string `json:"health"`
	Topics []struct {
		TopicName    string `json:"topic_name"`
		Depth        int64  `json:"depth"`
		MessageCount int64  `json:"message_count"`
		MessageBytes int64  `json:"message_bytes"`
		Paused       bool   `json:"paused"`
		Channels     []struct {
			ChannelName   string `json:"channel_name"`
			Depth         int64  `json:"depth"`
			InFlightCount int64  `json:"in_flight_count"`
			DeferredCount int64  `json:"deferred_count"`
			MessageCount  int64  `json:"message_count"`
			Paused        bool   `json:"paused"`
		} `json:"channels"`
	} `json:"topics"`
}

// fetchStats does GET /stats?format=json (the observation point the property names)
func fetchStats(h *HTTPConn) (*statsDoc, error) {
	r, err := h.do("GET", []byte("GET /stats?format=json&include_clients=false&include_mem=false HTTP/1.1\r\nHost: nsqd\r\n\r\n"), 60*time.Second)
	if err != nil {
		return nil, err
	}
	if r.Status != 200 {
		return nil, fmt.Errorf("stats status %d", r.Status)
	}
	var d statsDoc
	if err := json.Unmarshal(r.Body, &d); err != nil {
		return nil, fmt.Errorf("stats json: %v", err)
	}
	return &d, nil
}

// project maps /stats to the model's Obs over the symbols in names (symbol -> real name).
// strangers: real topics / channels that no symbol stands for.
// wantDef: per symbol-topic/channel the number of long-deferred messages the caller expects (nil: report as seen)
func project(d *statsDoc, tsyms, csyms []string, tname, cname map[string]string) (Obs, []string) {
	o := emptyObs(tsyms, csyms)
	var strangers []string
	rt := map[string]string{}
	for s, n := range tname {
		rt[n] = s
	}
	rc := map[string]string{}
	for s, n := range cname {
		rc[n] = s
	}
	for _, t := range d.Topics {
		ts, ok := rt[t.TopicName]
		if !ok {
			strangers = append(strangers, "topic "+strconv.Quote(t.TopicName))
			continue
		}
		to := o[ts]
		to.Ex, to.Paused, to.Depth, to.Cnt, to.Bytes = true, t.Paused, t.Depth, t.MessageCount, t.MessageBytes
		for _, c := range t.Channels {
			cs, ok := rc[c.ChannelName]
			if !ok {
				strangers = append(strangers, "channel "+strconv.Quote(t.TopicName+"/"+c.ChannelName))
				continue
			}
			to.Ch[cs] = ChanObs{Ex: true, Paused: c.Paused, Depth: c.Depth + c.InFlightCount + c.DeferredCount,
				Cnt: c.MessageCount, Def: c.DeferredCount}
		}
		o[ts] = to
	}
	sort.Strings(strangers)
	return o, strangers
}

// ---------------------------------------------------------------- concretiser (trusted): classes -> spellings / bytes

const nameChars = ".abcdefghijklmnopqrstuvwxyzABCDEFGHIJKLMNOPQRSTUVWXYZ0123456789_-"

func randValidName(rng *rand.Rand, allowEph bool) string {
	var n int
	switch rng.Intn(6) {
	case 0:
		n = 1
	case 1:
		n = 64
	case 2:
		n = 63
	default:
		n = 2 + rng.Intn(20)
	}
	eph := allowEph && rng.Intn(8) == 0
	if eph {
		if n > 64-len("#ephemeral") {
			n = 64 - len("#ephemeral")
		}
	}
	b := make([]byte, n)
	for i := range b {
		b[i] = nameChars[rng.Intn(len(nameChars))]
	}
	if n >= 10 && rng.Intn(4) == 0 {
		// names that contain the words the routes are made of are names like any other
		w := []string{"unpause", "pause", "delete", "create", "empty", "topic", "channel", "unpaused"}[rng.Intn(8)]
		copy(b[rng.Intn(n-len(w)+1):], w)
	}
	s := string(b)
	if eph {
		s += "#ephemeral"
	}
	return s
}

// invalid topic / channel names (protocol.IsValidTopicName: ^[.a-zA-Z0-9_-]+(#ephemeral)?$, 1..64 bytes)
func invalidNames(rng *rand.Rand) []string {
	long := make([]byte, 65)
	for i := range long {
		long[i] = nameChars[rng.Intn(len(nameChars))]
	}
	long55 := string(long[:55]) + "#ephemeral"
	return []string{"", "a b", "bad$", "tü", string(long), long55, "#ephemeral", "a#ephemeralx", "a#b", "a/b", "a,b",
		"abc\n", "\x00", "a#ephemeral#ephemeral", "a:b", "a%b", "a+b", "a&b=c", strings.Repeat("x", 300)}
}

// names that can also be written into a TCP command line
func tcpSafe(s string) bool {
	return s != "" && !strings.ContainsAny(s, " \n\r\t")
}

type deferSpell struct{ canon, extra []string }

// longSmall: twin experiments measure delivery times, so their short deferrals must be well above the
// daemon's queue-scan interval (10 ms here) for a shortened deferral to be observable
func deferSpellings(class string, maxMs int64, rng *rand.Rand, longSmall bool) deferSpell {
	small := func() string {
		hi := maxMs - 1
		if longSmall && hi > 400 {
			return strconv.FormatInt(150+rng.Int63n(250), 10)
		}
		if hi > 20 {
			hi = 20
		}
		if hi < 1 {
			hi = 1
		}
		return strconv.FormatInt(1+rng.Int63n(hi), 10)
	}
	switch class {
	case "0":
		return deferSpell{[]string{"0", "00", "000000000000000000000000"}, []string{"-0"}}
	case "small":
		s := small()
		return deferSpell{[]string{s, "0" + s}, nil}
	case "max":
		return deferSpell{[]string{strconv.FormatInt(maxMs, 10)}, nil}
	case "plus":
		return deferSpell{nil, []string{"+" + small(), "+0"}}
	case "max+1":
		return deferSpell{[]string{strconv.FormatInt(maxMs+1, 10), strconv.FormatInt(maxMs*2+7, 10), "9223372036854"}, nil}
	case "mulovf":
		// ms * 1e6 wraps around int64 to a small positive number of nanoseconds
		return deferSpell{[]string{"18446744073710", "9223372036854776", "36893488147420", "184467440737096"}, nil}
	case "i64max":
		return deferSpell{[]string{"9223372036854775807"}, nil}
	case "2^63":
		return deferSpell{[]string{"9223372036854775808", "18446744073709551615"}, nil}
	case "2^64":
		return deferSpell{[]string{"18446744073709551616", "18446744073709551617", "99999999999999999999999999", "18446744073709551616000"}, nil}
	case "neg":
		return deferSpell{nil, []string{"-1", "-100", "-9223372036854775808", "-18446744073710"}}
	case "nonnum":
		return deferSpell{nil, []string{"abc", "1.5", "1e3", "0x10", " 1", "1 ", "1_0", "١", "1,0", "NaN"}}
	case "empty":
		return deferSpell{nil, []string{""}}
	}
	return deferSpell{nil, []string{"?" + class}}
}

func pick(rng *rand.Rand, l []string) string { return l[rng.Intn(len(l))] }

func binarySpelling(class string, rng *rand.Rand) string {
	switch class {
	case "true", "1", "false", "0":
		return class
	case "empty":
		return ""
	}
	return pick(rng, []string{"yes", "TRUE", "2", "no", "False", "FALSE", "00", "-1", "t"})
}

var routePath = map[string]string{
	"ping": "/ping", "info": "/info", "stats": "/stats", "pub": "/pub", "mpub": "/mpub",
	"topic_create": "/topic/create", "topic_delete": "/topic/delete", "topic_empty": "/topic/empty",
	"topic_pause": "/topic/pause", "topic_unpause": "/topic/unpause",
	"channel_create": "/channel/create", "channel_delete": "/channel/delete", "channel_empty": "/channel/empty",
	"channel_pause": "/channel/pause", "channel_unpause": "/channel/unpause",
	"setblockrate": "/debug/setblockrate", "freememory": "/debug/freememory",
}

var unknownPaths = []string{"/", "/nope", "/pub/x", "/topic", "/topic/creat", "/channel/create/x", "/mput", "/debug/nope",
	"/config", "/topic/create2", "/channel", "/v1/pub", "/ping/x", "/statz", "/debug/pprof/nope/x"}
var pprofPaths = []string{"/debug/pprof/cmdline", "/debug/pprof/heap?debug=1", "/debug/pprof/threadcreate?debug=1", "/debug/pprof/block?debug=1"}

// Names: symbol -> concrete spelling for one behaviour
type Names struct {
	T map[string]string
	C map[string]string
}

func newNames(rng *rand.Rand, tsyms, csyms []string, allowEph bool) Names {
	n := Names{T: map[string]string{}, C: map[string]string{}}
	used := map[string]bool{}
	for _, s := range tsyms {
		for {
			v := randValidName(rng, allowEph)
			if !used[v] {
				used[v] = true
				n.T[s] = v
				break
			}
		}
	}
	used = map[string]bool{}
	for _, s := range csyms {
		for {
			v := randValidName(rng, false)
			if !used[v] {
				used[v] = true
				n.C[s] = v
				break
			}
		}
	}
	return n
}

// Concrete is one concretised request
type Concrete struct {
	Method  string
	Target  string
	Body    []byte
	Chunked bool
	Raw     []byte
	Deferms int64  // value of the first defer argument when it is a valid in-range number, else -1
	DeferS  string // spelling used for the first defer argument
	TopicS  string // spelling used for the first topic argument
}

type Concretiser struct {
	rng       *rand.Rand
	maxMsg    int64
	maxBody   int64
	maxDefer  int64
	canonical bool // digits-only defer spellings and TCP-safe invalid names (twin experiments)
	longSmall bool // short deferrals of 150..400 ms instead of 1..20 ms (twin experiments)
}

func (cz *Concretiser) name(sym string, m map[string]string) string {
	if v, ok := m[sym]; ok {
		return v
	}
	// not a symbol of the model's valid names: an invalid spelling
	l := invalidNames(cz.rng)
	for {
		v := pick(cz.rng, l)
		if !cz.canonical || tcpSafe(v) {
			return v
		}
	}
}

func textBytes(rng *rand.Rand, n int64, asciiOnly bool) []byte {
	b := make([]byte, n)
	for i := range b {
		for {
			var c byte
			if asciiOnly || rng.Intn(4) != 0 {
				c = byte(0x20 + rng.Intn(0x5f))
			} else {
				c = byte(rng.Intn(256))
			}
			if c != '\n' {
				b[i] = c
				break
			}
		}
	}
	return b
}

func (cz *Concretiser) bodyBytes(b Body, asciiHead bool) []byte {
	var w bytes.Buffer
	if b.Kind == "text" {
		for i, s := range b.Segs {
			if i > 0 {
				w.WriteByte('\n')
			}
			w.Write(textBytes(cz.rng, s, asciiHead))
		}
		return w.Bytes()
	}
	var tmp [4]byte
	binary.BigEndian.PutUint32(tmp[:], uint32(int32(b.Count)))
	w.Write(tmp[:b.Hdr])
	for _, it := range b.Items {
		binary.BigEndian.PutUint32(tmp[:], uint32(int32(it.Decl)))
		w.Write(tmp[:])
		x := make([]byte, it.Have)
		cz.rng.Read(x)
		w.Write(x)
	}
	x := make([]byte, b.Extra)
	cz.rng.Read(x)
	w.Write(x)
	return w.Bytes()
}

func (cz *Concretiser) concretise(r Req, nm Names) (*Concrete, error) {
	rng := cz.rng
	c := &Concrete{Method: r.Method, Chunked: r.Chunked, Deferms: -1}
	var path string
	type kv struct{ k, v string }
	var q []kv
	switch r.Route {
	case "unknown":
		path = pick(rng, unknownPaths)
	case "pprof":
		path = pick(rng, pprofPaths)
	case "config":
		switch r.Arg {
		case "log_level":
			path = "/config/log_level"
		case "lookupd":
			path = "/config/nsqlookupd_tcp_addresses"
		case "readonly":
			path = "/config/" + pick(rng, []string{"max_msg_size", "mem_queue_size", "max_body_size", "data_path", "max_req_timeout"})
		default:
			path = "/config/" + pick(rng, []string{"nope", "logger", "MaxMsgSize", "log-level", "x", "log_level2"})
		}
	default:
		p, ok := routePath[r.Route]
		if !ok {
			return nil, fmt.Errorf("no path for route %q", r.Route)
		}
		path = p
	}
	for i, t := range r.Topic {
		v := cz.name(t, nm.T)
		if i == 0 {
			c.TopicS = v
		}
		q = append(q, kv{"topic", v})
	}
	for _, t := range r.Channel {
		q = append(q, kv{"channel", cz.name(t, nm.C)})
	}
	for i, d := range r.Defer {
		sp := deferSpellings(d, cz.maxDefer, rng, cz.longSmall)
		l := sp.canon
		if !cz.canonical {
			l = append(append([]string{}, sp.canon...), sp.extra...)
		}
		if len(l) == 0 {
			return nil, fmt.Errorf("no canonical spelling for defer class %q", d)
		}
		v := pick(rng, l)
		if i == 0 {
			c.DeferS = v
			if d == "0" || d == "small" || d == "max" || d == "plus" {
				n, err := strconv.ParseInt(v, 10, 64)
				if err != nil {
					return nil, fmt.Errorf("concretiser: %q is not a number", v)
				}
				c.Deferms = n
			}
		}
		q = append(q, kv{"defer", v})
	}
	if r.Route != "config" {
		for _, b := range r.Binary {
			q = append(q, kv{"binary", binarySpelling(b, rng)})
		}
	}
	switch r.Route {
	case "stats":
		if r.Arg == "json" {
			q = append(q, kv{"format", "json"})
		} else if rng.Intn(2) == 0 {
			q = append(q, kv{"format", pick(rng, []string{"text", "", "JSON", "xml"})})
		}
	case "setblockrate":
		switch r.Arg {
		case "valid":
			q = append(q, kv{"rate", pick(rng, []string{"0", "-1", "00"})})
		case "invalid":
			q = append(q, kv{"rate", pick(rng, []string{"abc", "1.5", "", "99999999999999999999"})})
		}
	}
	// arguments no handler of this route looks at
	if rng.Intn(3) == 0 {
		ign := []kv{{"foo", "bar"}, {"x", ""}, {"Topic", "zzz"}, {"TOPIC", "zzz"}, {"timeout", "1"}}
		if r.Route != "pub" {
			ign = append(ign, kv{"defer", "abc"})
		}
		if r.Route != "mpub" {
			ign = append(ign, kv{"binary", "true"})
		}
		if !strings.HasPrefix(r.Route, "channel_") && r.Route != "stats" {
			ign = append(ign, kv{"channel", "zzz"})
		}
		e := ign[rng.Intn(len(ign))]
		pos := rng.Intn(len(q) + 1)
		q = append(q[:pos], append([]kv{e}, q[pos:]...)...)
	}
	// order across different keys does not matter; keep the relative order of equal keys
	if len(q) > 1 && rng.Intn(2) == 0 {
		i := rng.Intn(len(q) - 1)
		if q[i].k != q[i+1].k {
			q[i], q[i+1] = q[i+1], q[i]
		}
	}
	var parts []string
	for _, e := range q {
		parts = append(parts, url.QueryEscape(e.k)+"="+url.QueryEscape(e.v))
	}
	if r.BadQ {
		bad := pick(rng, []string{"a=%zz", "%zz=1", "a=%", "x=1;y=2", "%G1", "a=%1"})
		pos := rng.Intn(len(parts) + 1)
		parts = append(parts[:pos], append([]string{bad}, parts[pos:]...)...)
	}
	c.Target = path
	if len(parts) > 0 {
		sep := "?"
		if strings.Contains(path, "?") {
			sep = "&"
		}
		c.Target += sep + strings.Join(parts, "&")
	}
	// body
	if r.Route == "config" && r.Method == "PUT" {
		n := int(r.Body.Len())
		valid := len(r.Binary) == 1 && r.Binary[0] == "valid"
		c.Body = configValue(r.Arg, valid, n, cz.maxMsg, rng)
		if c.Body == nil {
			return nil, fmt.Errorf("no %s value of length %d for option class %s", r.Binary, n, r.Arg)
		}
	} else {
		asciiHead := r.Body.Kind == "text" && len(r.Binary) > 0
		c.Body = cz.bodyBytes(r.Body, asciiHead)
	}
	sendBody := !(r.Method == "GET" || r.Method == "HEAD" || r.Method == "OPTIONS") || len(c.Body) > 0
	c.Raw = buildHTTP(r.Method, c.Target, c.Body, r.Chunked, rng, sendBody)
	return c, nil
}

func configValue(arg string, valid bool, n int, maxMsg int64, rng *rand.Rand) []byte {
	if n == 0 {
		return []byte{}
	}
	if int64(n) > maxMsg || !valid {
		// content is irrelevant (too big) or must be invalid for both option kinds
		return bytes.Repeat([]byte("x"), n)
	}
	switch arg {
	case "log_level":
		var l []string
		for _, v := range []string{"debug", "info", "warn", "error", "fatal", "DEBUG", "Info"} {
			if len(v) == n {
				l = append(l, v)
			}
		}
		if len(l) == 0 {
			return nil
		}
		return []byte(pick(rng, l))
	case "lookupd":
		if n < 2 {
			return nil
		}
		return []byte("[" + strings.Repeat(" ", n-2) + "]")
	}
	return bytes.Repeat([]byte("v"), n)
}

// ---------------------------------------------------------------- response shape

// v1Message extracts {"message": "..."} of an error answer rendered by http_api.V1
func v1Message(r *HTTPResp) (string, error) {
	var m map[string]interface{}
	if err := json.Unmarshal(r.Body, &m); err != nil {
		return "", fmt.Errorf("error body is not JSON: %q", trunc(string(r.Body), 200))
	}
	s, ok := m["message"].(string)
	if !ok || len(m) != 1 {
		return "", fmt.Errorf("error body is not {\"message\": string}: %q", trunc(string(r.Body), 200))
	}
	if ct := r.Header.Get("Content-Type"); !strings.HasPrefix(ct, "application/json") {
		return s, fmt.Errorf("error body without JSON content type (%q)", ct)
	}
	return s, nil
}

func trunc(s string, n int) string {
	if len(s) > n {
		return s[:n] + "..."
	}
	return s
}

var plainRoutes = map[string]bool{"ping": true, "setblockrate": true, "freememory": true, "pprof": true}

// checkShape: is the answer well-formed for this route, and which message does it carry.
// returns (message as the model names it, malformed-description or "")
func checkShape(r Req, resp *HTTPResp) (string, string) {
	if r.Method == "HEAD" {
		return "", ""
	}
	routerLevel := r.Route == "unknown" || resp.Status == 405 || resp.Status == 404 && plainRoutes[r.Route]
	if resp.Status != 200 {
		if plainRoutes[r.Route] && !routerLevel {
			return "*", ""
		}
		m, err := v1Message(resp)
		if err != nil {
			return m, err.Error()
		}
		if resp.Header.Get("X-NSQ-Content-Type") != "nsq; version=1.0" {
			return m, "missing X-NSQ-Content-Type header"
		}
		return m, ""
	}
	if r.Method == "OPTIONS" {
		if len(resp.Body) != 0 {
			return "?", ""
		}
		return "", ""
	}
	switch r.Route {
	case "ping", "pub", "mpub":
		return string(resp.Body), ""
	case "info":
		var m map[string]interface{}
		if err := json.Unmarshal(resp.Body, &m); err != nil || m["version"] == nil || m["tcp_port"] == nil {
			return "json", "info answer is not the documented JSON object: " + trunc(string(resp.Body), 200)
		}
		return "json", ""
	case "config":
		// the option's value: a string option is written raw, everything else as JSON
		return "json", ""
	case "stats":
		if r.Arg == "json" {
			var d statsDoc
			if err := json.Unmarshal(resp.Body, &d); err != nil || d.Health == "" {
				return "stats", "stats answer is not the documented JSON object: " + trunc(string(resp.Body), 200)
			}
		} else if !bytes.Contains(resp.Body, []byte("Health:")) {
			return "stats", "stats text answer without Health line: " + trunc(string(resp.Body), 200)
		}
		return "stats", ""
	case "pprof":
		return "*", ""
	}
	return string(resp.Body), ""
}

// ---------------------------------------------------------------- TCP protocol client (publish twin and drain)

type TCPConn struct {
	c  net.Conn
	br *bufio.Reader
}

func dialNSQ(addr string) (*TCPConn, error) {
	c, err := net.DialTimeout("tcp", addr, 20*time.Second)
	if err != nil {
		return nil, err
	}
	c.Write([]byte("  V2"))
	return &TCPConn{c: c, br: bufio.NewReader(c)}, nil
}

func (t *TCPConn) Close() { t.c.Close() }

// frame: (type, data). type 0 response, 1 error, 2 message
func (t *TCPConn) readFrame(deadline time.Time) (int32, []byte, error) {
	t.c.SetReadDeadline(deadline)
	var hdr [8]byte
	if _, err := io.ReadFull(t.br, hdr[:]); err != nil {
		return 0, nil, err
	}
	sz := int32(binary.BigEndian.Uint32(hdr[:4]))
	ft := int32(binary.BigEndian.Uint32(hdr[4:]))
	if sz < 4 || sz > 64<<20 {
		return 0, nil, fmt.Errorf("bad frame size %d", sz)
	}
	data := make([]byte, sz-4)
	if _, err := io.ReadFull(t.br, data); err != nil {
		return 0, nil, err
	}
	return ft, data, nil
}

// command writes a command and returns the answer: "OK" or the error code (first word of the error frame)
func (t *TCPConn) command(line string, payload []byte, withSize bool) (string, error) {
	var w bytes.Buffer
	w.WriteString(line)
	w.WriteByte('\n')
	if withSize {
		var tmp [4]byte
		binary.BigEndian.PutUint32(tmp[:], uint32(len(payload)))
		w.Write(tmp[:])
		w.Write(payload)
	}
	t.c.SetWriteDeadline(time.Now().Add(30 * time.Second))
	if _, err := t.c.Write(w.Bytes()); err != nil {
		return "", err
	}
	for {
		ft, data, err := t.readFrame(time.Now().Add(60 * time.Second))
		if err != nil {
			return "", err
		}
		if ft == 0 && string(data) == "_heartbeat_" {
			t.c.Write([]byte("NOP\n"))
			continue
		}
		if ft == 0 {
			return string(data), nil
		}
		if ft == 1 {
			s := string(data)
			if i := strings.IndexByte(s, ' '); i > 0 {
				s = s[:i]
			}
			return s, nil
		}
		return "", errors.New("unexpected message frame")
	}
}

type Delivery struct {
	Body     []byte
	Attempts uint16
	At       time.Time
}

// consume reads message frames, FINishing each, until want messages arrived or the deadline passed;
// then keeps listening for `linger` to catch messages that should not exist.
func (t *TCPConn) consume(want int, deadline time.Time, linger time.Duration) ([]Delivery, error) {
	var out []Delivery
	var lingerEnd time.Time
	for {
		end := deadline
		if len(out) >= want {
			if lingerEnd.IsZero() {
				lingerEnd = time.Now().Add(linger)
			}
			end = lingerEnd
		}
		ft, data, err := t.readFrame(end)
		if err != nil {
			var ne net.Error
			if errors.As(err, &ne) && ne.Timeout() {
				return out, nil
			}
			return out, err
		}
		switch ft {
		case 0:
			if string(data) == "_heartbeat_" {
				t.c.Write([]byte("NOP\n"))
			}
		case 1:
			return out, fmt.Errorf("error frame while consuming: %s", data)
		case 2:
			if len(data) < 26 {
				return out, fmt.Errorf("short message frame")
			}
			att := binary.BigEndian.Uint16(data[8:10])
			id := data[10:26]
			out = append(out, Delivery{Body: append([]byte{}, data[26:]...), Attempts: att, At: time.Now()})
			t.c.SetWriteDeadline(time.Now().Add(30 * time.Second))
			t.c.Write(append(append([]byte("FIN "), id...), '\n'))
		}
	}
}
