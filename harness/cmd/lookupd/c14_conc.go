package main

// c14-conc: binding B for C14.  Producer connections, admin callers and pollers run concurrently against an
// in-process nsqlookupd; the verif hook events (logged inside RegistrationDB's critical sections) and the
// harness's own begin/end events share one totally ordered log, written as ndjson for LookupdTrace.tla.
//
// c14-race: binding A' (gated interleaving) for the one check-then-act window in UNREGISTER: the connection that
// unregisters an ephemeral topic/channel is parked between RemoveProducer and RemoveRegistration (verif.Yield gate),
// another connection registers the same key, then the first one is released.

import (
	"encoding/json"
	"flag"
	"fmt"
	"math/rand"
	"net/url"
	"net/http"
	"os"
	"strings"
	"sync"
	"time"

	"github.com/nsqio/nsq/internal/verif"
	"github.com/nsqio/nsq/verifharness/hlib"
)

func init() {
	subcmds["c14-conc"] = c14Conc
	subcmds["c14-race"] = c14Race
}

type c14ConcReport struct {
	HooksMissing bool                     `json:"hooks_missing"`
	Runs         int                      `json:"runs"`
	Events       int                      `json:"events"`
	HookEvents   int                      `json:"hook_events"`
	Commands     int64                    `json:"commands"`
	Queries      int64                    `json:"queries"`
	Overlapped   int64                    `json:"queries_overlapping_a_mutation"`
	KindCounts   map[string]int64         `json:"event_counts"`
	Errors       []string                 `json:"errors"`
	Interfered   []string                 `json:"interfered_runs"` // runs dropped: a foreign client touched the daemon
	Violations   []string                 `json:"violations"`
	Stuck        bool                     `json:"stuck"`
	Samples      []map[string]interface{} `json:"samples"`
	RaceObserved map[string]interface{}   `json:"race_observed,omitempty"`
}

var (
	c14Topics   = []string{"t1", "t2#ephemeral"}
	c14Channels = []string{"c1", "c2#ephemeral"}
)

// c14Translate turns the recorded events into trace lines: peer ids become model producer names.
// It returns false (and writes nothing) when the run was touched by something that is not this harness: a hook event
// for a connection the harness did not open, or a key outside the harness's names.
func c14Translate(evs []verif.Event, nodeModel map[string]string, w *hlib.NDJSON, rep *c14ConcReport) bool {
	own := map[string]bool{"": true}
	for _, t := range c14Topics {
		own[t] = true
	}
	for _, c := range c14Channels {
		own[c] = true
	}
	known := map[string]bool{}
	for _, e := range evs {
		if e.Ev == "CmdEnd" && hlib.KVStr(e, "op") == "Connect" {
			known[hlib.KVStr(e, "id")] = true
		}
	}
	alias := map[string]string{}
	names := map[string]bool{}
	for _, n := range nodeModel {
		names[n] = true
	}
	for _, e := range evs {
		// a connection of one of this run's producers that the daemon files under a key other than its remote
		// address (the key is internal to the registry): still that producer
		if e.Ev == "PeerIdentify" && !known[hlib.KVStr(e, "id")] && names[hlib.KVStr(e, "hostname")] {
			known[hlib.KVStr(e, "id")] = true
			alias[hlib.KVStr(e, "id")] = hlib.KVStr(e, "hostname")
		}
	}
	for _, e := range evs {
		if id := hlib.KVStr(e, "id"); id != "" && e.Ev != "CmdEnd" && !known[id] {
			rep.Interfered = append(rep.Interfered, fmt.Sprintf("%s for foreign connection %s", e.Ev, id))
			return false
		}
		if strings.HasPrefix(e.Ev, "DB") && (!own[hlib.KVStr(e, "key")] || !own[hlib.KVStr(e, "sub")]) {
			rep.Interfered = append(rep.Interfered, fmt.Sprintf("%s for foreign key %s:%s", e.Ev, hlib.KVStr(e, "key"), hlib.KVStr(e, "sub")))
			return false
		}
	}
	idmap := map[string]string{}
	who := func(id string) string {
		if p, ok := idmap[id]; ok {
			return p
		}
		if p, ok := alias[id]; ok {
			return p
		}
		return "?" + id
	}
	openQ := map[string]bool{}
	mutSince := map[string]bool{}
	for _, e := range evs {
		m := e.Map()
		delete(m, "seq")
		rep.KindCounts[e.Ev]++
		switch e.Ev {
		case "CmdEnd":
			if m["op"] == "Connect" {
				idmap[m["id"].(string)] = m["p"].(string)
			}
		case "DBAddProd", "DBRemProd", "PeerIdentify", "PeerPing", "PeerGone":
			m["p"] = who(hlib.KVStr(e, "id"))
			delete(m, "id")
			delete(m, "ts")
			delete(m, "hostname")
			rep.HookEvents++
		case "DBAddReg", "DBRemReg":
			rep.HookEvents++
		case "Tombstone":
			m["p"] = who(hlib.KVStr(e, "id"))
			m["t"] = m["topic"]
			if nm, ok := nodeModel[hlib.KVStr(e, "node")]; ok {
				m["node"] = nm
			}
			delete(m, "id")
			delete(m, "ts")
			delete(m, "topic")
			rep.HookEvents++
		case "QBegin":
			openQ[m["q"].(string)] = true
			mutSince[m["q"].(string)] = false
		case "QEnd":
			if mutSince[m["q"].(string)] {
				rep.Overlapped++
			}
			delete(openQ, m["q"].(string))
		}
		if strings.HasPrefix(e.Ev, "DB") || e.Ev == "Tombstone" {
			for q := range openQ {
				mutSince[q] = true
			}
		}
		w.Put(m)
	}
	return true
}

type c14ConcRun struct {
	d       *c14Daemon
	rng     *rand.Rand
	mu      map[string]*sync.Mutex // per producer: one command round trip at a time, not raced with a tombstone naming it
	tombMu  sync.RWMutex           // Producer.Tombstone() runs outside the registry lock: never raced with a query
	peers   map[string]*c14Peer
	idn     *c14Identity
	errs    []string
	errMu   sync.Mutex
	cmds    int64
	queries int64
}

func (r *c14ConcRun) fail(f string, a ...interface{}) {
	r.errMu.Lock()
	r.errs = append(r.errs, fmt.Sprintf(f, a...))
	r.errMu.Unlock()
}

func (r *c14ConcRun) producer(name string, seed int64, ops int) {
	rng := rand.New(rand.NewSource(seed))
	p := r.peers[name]
	mu := r.mu[name]
	connected, identified := false, false
	do := func(op, t, c string, f func() (string, error), extra ...interface{}) bool {
		mu.Lock()
		defer mu.Unlock()
		hlib.Emit("CmdBegin", "p", name, "op", op, "t", t, "c", c)
		resp, err := f()
		kv := []interface{}{"p", name, "op", op, "resp", resp}
		if op == "Connect" {
			kv = append(kv, "id", p.id)
		}
		if err != nil {
			r.fail("%s %s %s %s: %v", name, op, t, c, err)
			kv = append(kv, "err", err.Error())
		}
		hlib.Emit("CmdEnd", kv...)
		r.errMu.Lock()
		r.cmds++
		r.errMu.Unlock()
		return err == nil
	}
	for i := 0; i < ops; i++ {
		switch {
		case !connected:
			if !do("Connect", "", "", func() (string, error) {
				err := p.Connect(r.d.tcp)
				if err == nil {
					r.idn.setID(p.id, name)
				}
				return "", err
			}) {
				return
			}
			connected = true
		case !identified && rng.Intn(10) > 0:
			if !do("Identify", "", "", func() (string, error) {
				resp, err := p.Identify()
				if err == nil && strings.HasPrefix(resp, "{") {
					resp = "OK"
				}
				return resp, err
			}) {
				return
			}
			identified = true
		default:
			x := rng.Intn(100)
			t := c14Topics[rng.Intn(len(c14Topics))]
			c := ""
			if rng.Intn(10) < 6 {
				c = c14Channels[rng.Intn(len(c14Channels))]
			}
			switch {
			case x < 12 || !identified && x < 60:
				if !do("Ping", "", "", func() (string, error) { return p.Cmd("PING", nil) }) {
					return
				}
			case x < 24 || !identified:
				how := rng.Intn(3)
				wasID := identified
				if !do("Disconnect", "", "", func() (string, error) { _, err := p.Disconnect(how, wasID); return "", err }) {
					return
				}
				connected, identified = false, false
			case x < 65:
				line := "REGISTER " + t
				if c != "" {
					line += " " + c
				}
				if !do("Register", t, c, func() (string, error) { return p.Cmd(line, nil) }) {
					return
				}
			default:
				line := "UNREGISTER " + t
				if c != "" {
					line += " " + c
				}
				if !do("Unregister", t, c, func() (string, error) { return p.Cmd(line, nil) }) {
					return
				}
			}
		}
	}
	if connected {
		do("Disconnect", "", "", func() (string, error) { _, err := p.Disconnect(0, identified); return "", err })
	}
}

func (r *c14ConcRun) admin(name string, seed int64, ops int, prods []string) {
	rng := rand.New(rand.NewSource(seed))
	h := c14NewHTTP(r.d.http)
	defer h.Close()
	for i := 0; i < ops; i++ {
		t := c14Topics[rng.Intn(len(c14Topics))]
		c := c14Channels[rng.Intn(len(c14Channels))]
		op := []string{"CreateTopic", "CreateChannel", "DeleteTopic", "DeleteChannel", "Tombstone"}[rng.Intn(5)]
		q := url.Values{"topic": {t}}
		path := ""
		carg := ""
		var locked []*sync.Mutex
		switch op {
		case "CreateTopic":
			path = "/topic/create"
		case "DeleteTopic":
			path = "/topic/delete"
		case "CreateChannel":
			path, carg = "/channel/create", c
			q.Set("channel", c)
		case "DeleteChannel":
			path, carg = "/channel/delete", c
			q.Set("channel", c)
		case "Tombstone":
			pn := prods[rng.Intn(len(prods))]
			pp := r.peers[pn]
			path, carg = "/topic/tombstone", pn // model node name = producer name (no shared nodes here)
			q.Set("node", c14NodeName(pp.broadcast, pp.httpPort))
			r.tombMu.Lock()
			r.mu[pn].Lock()
			locked = append(locked, r.mu[pn])
		}
		hlib.Emit("AdmBegin", "a", name, "op", op, "t", t, "c", carg)
		code, body, err := h.Do("POST", path, q)
		if err != nil {
			r.fail("%s %s: %v", name, op, err)
		}
		hlib.Emit("AdmEnd", "a", name, "op", op, "code", code)
		if op == "Tombstone" {
			for _, m := range locked {
				m.Unlock()
			}
			r.tombMu.Unlock()
		}
		if code >= 500 {
			r.fail("%s %s %s %s: status %d %s", name, op, t, c, code, body)
		}
		r.errMu.Lock()
		r.cmds++
		r.errMu.Unlock()
	}
}

func (r *c14ConcRun) query(h *c14HTTP, name, kind, t string) {
	r.tombMu.RLock()
	defer r.tombMu.RUnlock()
	idn := r.idn
	hlib.Emit("QBegin", "q", name, "kind", kind, "t", t)
	kv := []interface{}{"q", name, "kind", kind}
	var err error
	switch kind {
	case "lookup":
		var l *c14LookupObs
		l, err = c14QueryLookup(h, t, idn)
		if err == nil {
			kv = append(kv, "found", l.Found, "channels", l.Channels, "producers", l.Producers)
		}
	case "channels":
		var ch []string
		ch, err = c14QueryChannels(h, t)
		kv = append(kv, "channels", ch)
	case "topics":
		var tp []string
		tp, err = c14QueryTopics(h)
		kv = append(kv, "topics", tp)
	case "nodes":
		var n []c14NodeObs
		n, err = c14QueryNodes(h, idn)
		kv = append(kv, "nodes", n)
	case "debug":
		var d []c14DebugObs
		var cl []string
		d, cl, err = c14QueryDebug(h, idn)
		kv = append(kv, "debug", d, "clients", cl)
	}
	if err != nil {
		r.fail("%s %s %s: %v", name, kind, t, err)
		kv = append(kv, "err", err.Error())
	}
	hlib.Emit("QEnd", kv...)
	r.errMu.Lock()
	r.queries++
	r.errMu.Unlock()
}

func (r *c14ConcRun) poller(name string, seed int64, stop <-chan struct{}) {
	rng := rand.New(rand.NewSource(seed))
	h := c14NewHTTP(r.d.http)
	defer h.Close()
	kinds := []string{"lookup", "lookup", "lookup", "channels", "topics", "nodes", "nodes", "debug"}
	for {
		select {
		case <-stop:
			// quiescent round: nothing else is running, every result must equal the final state exactly
			for _, t := range c14Topics {
				r.query(h, name, "lookup", t)
				r.query(h, name, "channels", t)
			}
			r.query(h, name, "topics", c14Topics[0])
			r.query(h, name, "nodes", c14Topics[0])
			r.query(h, name, "debug", c14Topics[0])
			return
		default:
		}
		r.query(h, name, kinds[rng.Intn(len(kinds))], c14Topics[rng.Intn(len(c14Topics))])
	}
}

func c14NewConcRun(prods []string) (*c14ConcRun, error) {
	d, err := c14StartDaemon(24*time.Hour, 24*time.Hour)
	if err != nil {
		return nil, err
	}
	r := &c14ConcRun{d: d, mu: map[string]*sync.Mutex{}, peers: map[string]*c14Peer{},
		idn: &c14Identity{byHost: map[string]*c14Peer{}, byID: map[string]string{}}}
	for i, name := range prods {
		b, tp, hp := c14PeerIdentity(name, i, false)
		p := &c14Peer{name: name, broadcast: b, tcpPort: tp, httpPort: hp}
		r.peers[name] = p
		r.idn.byHost[name] = p
		r.mu[name] = &sync.Mutex{}
	}
	return r, nil
}

func c14Conc(args []string) int {
	fs := flag.NewFlagSet("c14-conc", flag.ExitOnError)
	seed := fs.Int64("seed", 1, "seed")
	runs := fs.Int("runs", 20, "runs (each a Reset in the trace)")
	ops := fs.Int("ops", 60, "commands per producer connection goroutine")
	adminOps := fs.Int("admin-ops", 30, "calls per admin goroutine")
	out := fs.String("out", "trace.ndjson", "trace output")
	rep := fs.String("report", "report.json", "report output")
	fs.Parse(args)

	prods := []string{"p1", "p2", "p3"}
	admins := []string{"a1", "a2"}
	pollers := []string{"q1", "q2", "q3"}
	nodeModel := map[string]string{}
	report := &c14ConcReport{KindCounts: map[string]int64{}}
	w, err := hlib.NewNDJSON(*out)
	if err != nil {
		fmt.Fprintln(os.Stderr, err)
		return 2
	}
	for run := 0; run < *runs; run++ {
		rec := &hlib.Recorder{}
		rec.Install()
		hlib.Emit("Reset")
		r, err := c14NewConcRun(prods)
		if err != nil {
			rec.Uninstall()
			fmt.Fprintln(os.Stderr, "start nsqlookupd:", err)
			return 2
		}
		for _, p := range r.peers {
			nodeModel[c14NodeName(p.broadcast, p.httpPort)] = p.name
		}
		base := *seed*1000003 + int64(run)*101
		var wg, pwg sync.WaitGroup
		stop := make(chan struct{})
		// watchdog: an in-process daemon that stops answering a registry query for 20 s is not slow, it is stuck (and
		// cannot even be stopped any more): report and leave
		go func(addr string, run int) {
			hc := &http.Client{Timeout: 20 * time.Second}
			for {
				select {
				case <-stop:
					return
				case <-time.After(2 * time.Second):
				}
				resp, err := hc.Get("http://" + addr + "/topics")
				if err == nil {
					resp.Body.Close()
					continue
				}
				select {
				case <-stop:
					return
				default:
				}
				report.Violations = append(report.Violations, fmt.Sprintf("run %d: nsqlookupd stopped answering GET /topics (20 s) while producers were registering / unregistering and /lookup, /nodes were being polled: %v", run, err))
				report.Stuck = true
				hlib.WriteJSON(*rep, report)
				os.Exit(1)
			}
		}(r.d.http, run)
		for i, p := range prods {
			wg.Add(1)
			go func(i int, p string) { defer wg.Done(); r.producer(p, base+int64(i), *ops) }(i, p)
		}
		for i, a := range admins {
			wg.Add(1)
			go func(i int, a string) { defer wg.Done(); r.admin(a, base+50+int64(i), *adminOps, prods) }(i, a)
		}
		for i, q := range pollers {
			pwg.Add(1)
			go func(i int, q string) { defer pwg.Done(); r.poller(q, base+80+int64(i), stop) }(i, q)
		}
		wg.Wait()
		close(stop)
		pwg.Wait()
		r.d.Stop()
		rec.Uninstall()
		evs := rec.Take()
		before := report.HookEvents
		if !c14Translate(evs, nodeModel, w, report) {
			continue // not an execution of nsqlookupd under this harness alone
		}
		report.Events += len(evs)
		report.Commands += r.cmds
		report.Queries += r.queries
		report.Runs++
		for _, e := range r.errs {
			if len(report.Errors) < 20 {
				report.Errors = append(report.Errors, fmt.Sprintf("run %d: %s", run, e))
			}
		}
		if report.Runs == 1 && report.HookEvents == before {
			// the registry hooks are not in this tree: nothing to validate
			report.HooksMissing = true
			break
		}
		if report.Runs == 1 {
			n := 0
			for _, e := range evs {
				if n >= 14 {
					break
				}
				if e.Ev != "Reset" && (n > 0 || strings.HasPrefix(e.Ev, "DB")) {
					report.Samples = append(report.Samples, e.Map())
					n++
				}
			}
		}
	}
	w.Close()
	if err := hlib.WriteJSON(*rep, report); err != nil {
		fmt.Fprintln(os.Stderr, err)
		return 2
	}
	if len(report.Errors) > 0 {
		return 2
	}
	return 0
}

// ---------------------------------------------------------------- gated race

// c14Race forces, for an ephemeral topic and for an ephemeral channel: p1 UNREGISTER parked after RemoveProducer
// (it has seen left == 0), p2 REGISTER of the same key acknowledged, p1 released.
func c14Race(args []string) int {
	fs := flag.NewFlagSet("c14-race", flag.ExitOnError)
	out := fs.String("out", "race.ndjson", "trace output")
	rep := fs.String("report", "race.json", "report output")
	fs.Parse(args)
	report := &c14ConcReport{KindCounts: map[string]int64{}, RaceObserved: map[string]interface{}{}}
	w, err := hlib.NewNDJSON(*out)
	if err != nil {
		fmt.Fprintln(os.Stderr, err)
		return 2
	}
	nodeModel := map[string]string{}
	for _, variant := range []string{"topic", "channel"} {
		rec := &hlib.Recorder{}
		rec.Install()
		hlib.Emit("Reset")
		r, err := c14NewConcRun([]string{"p1", "p2", "p3"})
		if err != nil {
			rec.Uninstall()
			fmt.Fprintln(os.Stderr, "start nsqlookupd:", err)
			return 2
		}
		for _, p := range r.peers {
			nodeModel[c14NodeName(p.broadcast, p.httpPort)] = p.name
		}
		p1, p2 := r.peers["p1"], r.peers["p2"]
		step := func(p *c14Peer, op, t, c string, f func() (string, error)) (string, error) {
			hlib.Emit("CmdBegin", "p", p.name, "op", op, "t", t, "c", c)
			resp, err := f()
			kv := []interface{}{"p", p.name, "op", op, "resp", resp}
			if op == "Connect" {
				kv = append(kv, "id", p.id)
				r.idn.setID(p.id, p.name)
			}
			hlib.Emit("CmdEnd", kv...)
			return resp, err
		}
		ok := true
		must := func(resp string, err error) {
			if err != nil || (resp != "" && resp != "OK") {
				report.Errors = append(report.Errors, fmt.Sprintf("%s: setup: %q %v", variant, resp, err))
				ok = false
			}
		}
		for _, p := range []*c14Peer{p1, p2} {
			pp := p
			must(step(pp, "Connect", "", "", func() (string, error) { return "", pp.Connect(r.d.tcp) }))
			must(step(pp, "Identify", "", "", func() (string, error) {
				resp, err := pp.Identify()
				if strings.HasPrefix(resp, "{") {
					resp = "OK"
				}
				return resp, err
			}))
		}
		t, c := "t2#ephemeral", ""
		point := "lookupd.unregister.topic.afterRemoveProducer"
		if variant == "channel" {
			t, c = "t1", "c2#ephemeral"
			point = "lookupd.unregister.channel.afterRemoveProducer"
		}
		arg := t
		if c != "" {
			arg += " " + c
		}
		if ok {
			must(step(p1, "Register", t, c, func() (string, error) { return p1.Cmd("REGISTER "+arg, nil) }))
		}
		reached := make(chan struct{}, 1)
		release := make(chan struct{})
		if ok {
			verif.SetGate(func(pt string, key interface{}) {
				if pt == point && key == p1.id {
					reached <- struct{}{}
					<-release
				}
			})
			done := make(chan error, 1)
			hlib.Emit("CmdBegin", "p", "p1", "op", "Unregister", "t", t, "c", c)
			go func() {
				resp, err := p1.Cmd("UNREGISTER "+arg, nil)
				if err == nil && resp != "OK" {
					err = fmt.Errorf("response %q", resp)
				}
				done <- err
			}()
			select {
			case <-reached:
				must(step(p2, "Register", t, c, func() (string, error) { return p2.Cmd("REGISTER "+arg, nil) }))
				close(release)
				if err := <-done; err != nil {
					report.Errors = append(report.Errors, variant+": UNREGISTER: "+err.Error())
				}
				hlib.Emit("CmdEnd", "p", "p1", "op", "Unregister", "resp", "OK")
			case err := <-done:
				// the yield point was never reached: hooks not in this tree (or the code path changed)
				close(release)
				report.HooksMissing = true
				if err != nil {
					report.Errors = append(report.Errors, variant+": UNREGISTER: "+err.Error())
				}
				hlib.Emit("CmdEnd", "p", "p1", "op", "Unregister", "resp", "OK")
			case <-time.After(c14IOTimeout):
				close(release)
				report.Errors = append(report.Errors, variant+": neither the gate nor the response within the deadline")
			}
			verif.SetGate(nil)
			// what a client sees afterwards (quiescent): p2's acknowledged registration must be there
			h := c14NewHTTP(r.d.http)
			obs, _, err := c14Observe(h, c14Topics, r.idn)
			h.Close()
			if err != nil {
				report.Errors = append(report.Errors, variant+": observe: "+err.Error())
			} else {
				seen := false
				for _, d := range obs.Debug {
					if d.P == "p2" && d.K[1] == t && d.K[2] == c {
						seen = true
					}
				}
				b, _ := json.Marshal(obs)
				report.RaceObserved[variant] = map[string]interface{}{
					"schedule": []string{"p1 REGISTER " + arg + " -> OK", "p1 UNREGISTER " + arg + " (parked after RemoveProducer, left == 0)",
						"p2 REGISTER " + arg + " -> OK", "p1 released (RemoveRegistration) -> OK"},
					"p2_registration_present": seen, "observed": json.RawMessage(b)}
				if !seen && !report.HooksMissing {
					report.Violations = append(report.Violations, fmt.Sprintf(
						"%s variant: p2's REGISTER %s was acknowledged with OK while p1's UNREGISTER %s was in progress; afterwards (both commands "+
							"finished, p2 connected and identified) p2 is not registered under the key: /lookup, /channels and /debug do not list what "+
							"either order of the two commands predicts", variant, arg, arg))
				}
			}
			// a quiescent query round for the trace
			qh := c14NewHTTP(r.d.http)
			for _, tt := range c14Topics {
				r.query(qh, "q1", "lookup", tt)
				r.query(qh, "q1", "channels", tt)
			}
			r.query(qh, "q1", "debug", c14Topics[0])
			qh.Close()
		}
		for _, p := range []*c14Peer{p1, p2} {
			if p.conn != nil {
				pp := p
				step(pp, "Disconnect", "", "", func() (string, error) { _, err := pp.Disconnect(0, true); return "", err })
			}
		}
		r.d.Stop()
		rec.Uninstall()
		evs := rec.Take()
		if !c14Translate(evs, nodeModel, w, report) {
			report.Errors = append(report.Errors, "gated run disturbed by a foreign client")
		}
		report.Events += len(evs)
		report.Runs++
	}
	w.Close()
	if err := hlib.WriteJSON(*rep, report); err != nil {
		fmt.Fprintln(os.Stderr, err)
		return 2
	}
	if len(report.Errors) > 0 {
		return 2
	}
	return 0
}
