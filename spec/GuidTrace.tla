----------------------------- MODULE GuidTrace -----------------------------
(* Trace validation of the real generator against Guid.                     *)
(* Events (one JSON object per line, written by the harness from the        *)
(* verif hook in guidFactory.NewGUID, timestamps made relative):            *)
(*   {"ev":"Reset"}                              new run, fresh generators   *)
(*   {"ev":"Inject","n":..,"lastTs":..,"sq":..,"idts":..,"idnode":..,"idsq":..}  *)
(*   {"ev":"Guid","n":..,"ts":..,"lastTs":..,"sq":..,"err":..,"idts","idnode","idsq"} *)
EXTENDS Guid, Json, Sequences

Trace == ndJsonDeserialize("trace.ndjson")

VARIABLE l
tvars == <<vars, l>>

TraceInit == /\ clock = 0 /\ backs = 0
             /\ lastTs = [n \in Nodes |-> 0]
             /\ sq     = [n \in Nodes |-> 0]
             /\ lastId = [n \in Nodes |-> ZeroId]
             /\ ret = NoRet
             /\ issued = {}
             /\ l = 1
             /\ TLCSet(1, 1) /\ TLCSet(2, <<>>)

IsEvent(e) == l <= Len(Trace) /\ Trace[l].ev = e /\ l' = l + 1

TReset == /\ IsEvent("Reset")
          /\ clock' = 0 /\ backs' = 0
          /\ lastTs' = [n \in Nodes |-> 0]
          /\ sq'     = [n \in Nodes |-> 0]
          /\ lastId' = [n \in Nodes |-> ZeroId]
          /\ ret' = NoRet /\ issued' = {}

TInject == /\ IsEvent("Inject")
           /\ LET e == Trace[l] IN
              /\ lastTs' = [lastTs EXCEPT ![e.n] = e.lastTs]
              /\ sq'     = [sq EXCEPT ![e.n] = e.sq]
              /\ lastId' = [lastId EXCEPT ![e.n] = <<e.idts, e.idnode, e.idsq>>]
           /\ UNCHANGED <<clock, backs, ret, issued>>

TGuid == /\ IsEvent("Guid")
         /\ LET e == Trace[l] IN
            /\ clock' = e.ts
            /\ Gen(e.n, e.ts)
            /\ ret'.err = e.err
            /\ (e.err \in {"", "idbackwards"} => ret'.id = <<e.idts, e.idnode, e.idsq>>)
            /\ sq'[e.n] = e.sq
            /\ lastTs'[e.n] = e.lastTs
         /\ UNCHANGED <<backs, issued>>

TraceNext == TReset \/ TInject \/ TGuid
TraceSpec == TraceInit /\ [][TraceNext]_tvars

\* high-water mark of matched lines (needs -workers 1)
HW == IF l > TLCGet(1) THEN TLCSet(1, l) /\ TLCSet(2, [lastTs |-> lastTs, sq |-> sq, lastId |-> lastId]) ELSE TRUE

TraceAccepted ==
  LET hw == TLCGet(1) IN
  IF hw = Len(Trace) + 1 THEN PrintT(<<"TRACE_OK", Len(Trace)>>)
  ELSE /\ PrintT(<<"TRACE_REJECTED", hw, Trace[hw], TLCGet(2)>>)
       /\ FALSE
=============================================================================
