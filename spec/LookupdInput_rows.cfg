SPECIFICATION Spec
CONSTANTS
  AsImplemented = {}
  MaxOwn = 0
CONSTRAINT Stop
CHECK_DEADLOCK FALSE
