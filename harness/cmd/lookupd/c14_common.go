package main

// C14 shared pieces: an in-process nsqlookupd, a raw producer-side TCP client, the HTTP query
// surface, and the normalised observation that is compared with the values of the Lookupd.tla
// query operators (Lookup(t), TopicsQ, ChannelsQ(t), NodesQ, DebugQ, ClientsQ).

import (
	"bufio"
	"encoding/binary"
	"encoding/json"
	"fmt"
	"io"
	"net"
	"net/http"
	"net/url"
	"sort"
	"strings"
	"sync"
	"time"

	"github.com/nsqio/nsq/internal/lg"
	"github.com/nsqio/nsq/nsqlookupd"
)

const c14IOTimeout = 60 * time.Second

// ---------------------------------------------------------------- daemon

type c14Daemon struct {
	l    *nsqlookupd.NSQLookupd
	tcp  string
	http string
	done chan error
}

func c14StartDaemon(inactive, tombstone time.Duration) (*c14Daemon, error) {
	opts := nsqlookupd.NewOptions()
	opts.TCPAddress = "127.0.0.1:0"
	opts.HTTPAddress = "127.0.0.1:0"
	opts.Logger = lg.NilLogger{}
	opts.LogLevel = lg.FATAL
	opts.InactiveProducerTimeout = inactive
	opts.TombstoneLifetime = tombstone
	l, err := nsqlookupd.New(opts)
	if err != nil {
		return nil, err
	}
	d := &c14Daemon{l: l, tcp: l.RealTCPAddr().String(), http: l.RealHTTPAddr().String(), done: make(chan error, 1)}
	go func() { d.done <- l.Main() }()
	return d, nil
}

func (d *c14Daemon) Stop() {
	d.l.Exit()
}

// ---------------------------------------------------------------- producer-side TCP client

type c14Peer struct {
	name      string // model name ("p1")
	broadcast string
	tcpPort   int
	httpPort  int
	conn      *net.TCPConn
	r         *bufio.Reader
	id        string // the peer id nsqlookupd uses: our local address as the daemon sees it
}

func c14PeerIdentity(name string, idx int, shared bool) (broadcast string, tcpPort, httpPort int) {
	if shared {
		// one and the same broadcast_address, tcp_port and http_port: the same nsqd seen over two connections
		// (it reconnected before the old connection was noticed dead); only the hostname tells them apart here
		return "nX", 4150, 4999
	}
	return name, 4150 + 10*idx, 5161 + 7*idx
}

// node name as POST /topic/tombstone wants it
func c14NodeName(broadcast string, httpPort int) string {
	return fmt.Sprintf("%s:%d", broadcast, httpPort)
}

func c14Dial(addr string) (*net.TCPConn, error) {
	c, err := net.DialTimeout("tcp", addr, c14IOTimeout)
	if err != nil {
		return nil, err
	}
	return c.(*net.TCPConn), nil
}

func (p *c14Peer) Connect(addr string) error {
	c, err := c14Dial(addr)
	if err != nil {
		return err
	}
	p.conn = c
	p.r = bufio.NewReader(c)
	p.id = c.LocalAddr().String()
	c.SetDeadline(time.Now().Add(c14IOTimeout))
	_, err = c.Write([]byte("  V1"))
	return err
}

func c14ReadFrame(r *bufio.Reader) ([]byte, error) {
	var sz int32
	if err := binary.Read(r, binary.BigEndian, &sz); err != nil {
		return nil, err
	}
	if sz < 0 || sz > 1<<20 {
		return nil, fmt.Errorf("bad frame size %d", sz)
	}
	buf := make([]byte, sz)
	if _, err := io.ReadFull(r, buf); err != nil {
		return nil, err
	}
	return buf, nil
}

// Cmd writes one command line (plus optional length-prefixed body) and reads one response frame.
func (p *c14Peer) Cmd(line string, body []byte) (string, error) {
	p.conn.SetDeadline(time.Now().Add(c14IOTimeout))
	buf := []byte(line + "\n")
	if body != nil {
		var sz [4]byte
		binary.BigEndian.PutUint32(sz[:], uint32(len(body)))
		buf = append(buf, sz[:]...)
		buf = append(buf, body...)
	}
	if _, err := p.conn.Write(buf); err != nil {
		return "", err
	}
	resp, err := c14ReadFrame(p.r)
	return string(resp), err
}

func (p *c14Peer) Identify() (string, error) {
	body, _ := json.Marshal(map[string]interface{}{
		"broadcast_address": p.broadcast,
		"hostname":          p.name,
		"tcp_port":          p.tcpPort,
		"http_port":         p.httpPort,
		"version":           "verif-" + p.name,
	})
	return p.Cmd("IDENTIFY", body)
}

// Disconnect ends the connection and returns only when the daemon has finished its exit path:
// the daemon closes its side of the socket after IOLoop's cleanup (tcp.go Handle: IOLoop, then
// client.Close), so reading EOF is a barrier that needs no hook.
//
//	how 0: half-close (the daemon reads EOF)
//	how 1: an unknown command (fatal E_INVALID, the daemon closes)
//	how 2: a second IDENTIFY / REGISTER before IDENTIFY (fatal E_INVALID, the daemon closes)
func (p *c14Peer) Disconnect(how int, identified bool) (string, error) {
	defer func() {
		p.conn.Close()
		p.conn = nil
	}()
	p.conn.SetDeadline(time.Now().Add(c14IOTimeout))
	note := ""
	switch how {
	case 1:
		r, err := p.Cmd("BOGUS x", nil)
		if err != nil {
			return "", fmt.Errorf("BOGUS: %v", err)
		}
		note = r
	case 2:
		var r string
		var err error
		if identified {
			r, err = p.Cmd("IDENTIFY", []byte("{}"))
		} else {
			r, err = p.Cmd("REGISTER t1", nil)
		}
		if err != nil {
			return "", fmt.Errorf("fatal command: %v", err)
		}
		note = r
	default:
		if err := p.conn.CloseWrite(); err != nil {
			return "", err
		}
	}
	if how != 0 && !strings.HasPrefix(note, "E_INVALID") {
		return note, fmt.Errorf("expected E_INVALID, got %q", note)
	}
	// wait for the daemon's close
	for {
		_, err := p.r.ReadByte()
		if err == io.EOF {
			return note, nil
		}
		if err != nil {
			if ne, ok := err.(net.Error); ok && ne.Timeout() {
				return note, fmt.Errorf("timeout waiting for the daemon to close the connection")
			}
			// a reset also means the daemon closed
			return note, nil
		}
	}
}

// ---------------------------------------------------------------- observation

type c14LookupObs struct {
	Found     bool     `json:"found"`
	Channels  []string `json:"channels"`
	Producers []string `json:"producers"`
}
type c14NodeObs struct {
	P          string   `json:"p"`
	Topics     []string `json:"topics"`
	Tombstoned []string `json:"tombstoned"`
}
type c14DebugObs struct {
	K          []string `json:"k"`
	P          string   `json:"p"`
	Tombstoned bool     `json:"tombstoned"`
}
type c14Obs struct {
	Lookup   map[string]c14LookupObs `json:"lookup"`
	Topics   []string                `json:"topics"`
	Channels map[string][]string     `json:"channels"`
	Nodes    []c14NodeObs            `json:"nodes"`
	Debug    []c14DebugObs           `json:"debug"`
	Clients  []string                `json:"clients"`
	Now      int                     `json:"now"`
}

func c14SortedCopy(s []string) []string {
	r := append([]string{}, s...)
	sort.Strings(r)
	return r
}

func (o *c14Obs) Normalize() {
	for t, l := range o.Lookup {
		l.Channels = c14SortedCopy(l.Channels)
		l.Producers = c14SortedCopy(l.Producers)
		o.Lookup[t] = l
	}
	o.Topics = c14SortedCopy(o.Topics)
	for t, c := range o.Channels {
		o.Channels[t] = c14SortedCopy(c)
	}
	for i := range o.Nodes {
		o.Nodes[i].Topics = c14SortedCopy(o.Nodes[i].Topics)
		o.Nodes[i].Tombstoned = c14SortedCopy(o.Nodes[i].Tombstoned)
	}
	sort.Slice(o.Nodes, func(i, j int) bool { return o.Nodes[i].P < o.Nodes[j].P })
	sort.Slice(o.Debug, func(i, j int) bool {
		a, b := o.Debug[i], o.Debug[j]
		ka, kb := strings.Join(a.K, "\x00"), strings.Join(b.K, "\x00")
		if ka != kb {
			return ka < kb
		}
		return a.P < b.P
	})
	o.Clients = c14SortedCopy(o.Clients)
}

// Diff returns the names of the query results that differ ("" when equal). Now is not compared.
func (o *c14Obs) Diff(e *c14Obs) []string {
	var d []string
	js := func(v interface{}) string { b, _ := json.Marshal(v); return string(b) }
	for t, el := range e.Lookup {
		if js(el) != js(o.Lookup[t]) {
			d = append(d, "/lookup?topic="+t)
		}
	}
	if js(e.Topics) != js(o.Topics) {
		d = append(d, "/topics")
	}
	for t, ec := range e.Channels {
		if js(ec) != js(o.Channels[t]) {
			d = append(d, "/channels?topic="+t)
		}
	}
	if js(e.Nodes) != js(o.Nodes) {
		d = append(d, "/nodes")
	}
	if js(e.Debug) != js(o.Debug) {
		d = append(d, "/debug")
	}
	if js(e.Clients) != js(o.Clients) {
		d = append(d, "/debug(client)")
	}
	return d
}

// ---------------------------------------------------------------- HTTP

type c14HTTP struct {
	base string
	c    *http.Client
}

func c14NewHTTP(addr string) *c14HTTP {
	tr := &http.Transport{MaxIdleConnsPerHost: 4, IdleConnTimeout: 30 * time.Second}
	return &c14HTTP{base: "http://" + addr, c: &http.Client{Transport: tr, Timeout: c14IOTimeout}}
}

func (h *c14HTTP) Close() { h.c.CloseIdleConnections() }

func (h *c14HTTP) Do(method, path string, q url.Values) (int, []byte, error) {
	u := h.base + path
	if len(q) > 0 {
		u += "?" + q.Encode()
	}
	req, err := http.NewRequest(method, u, nil)
	if err != nil {
		return 0, nil, err
	}
	resp, err := h.c.Do(req)
	if err != nil {
		return 0, nil, err
	}
	defer resp.Body.Close()
	b, err := io.ReadAll(resp.Body)
	return resp.StatusCode, b, err
}

type c14PeerInfoJSON struct {
	RemoteAddress    string   `json:"remote_address"`
	Hostname         string   `json:"hostname"`
	BroadcastAddress string   `json:"broadcast_address"`
	TCPPort          int      `json:"tcp_port"`
	HTTPPort         int      `json:"http_port"`
	Version          string   `json:"version"`
	Tombstones       []bool   `json:"tombstones"`
	Topics           []string `json:"topics"`
}

// c14Identity is what the observer knows about the producers: who identified as what, from where.
type c14Identity struct {
	mu     sync.Mutex
	byHost map[string]*c14Peer // hostname -> peer (hostname is the model name)
	byID   map[string]string   // peer id (remote address) -> model name; ids of closed connections stay (harmless)
}

func (idn *c14Identity) setID(id, name string) {
	idn.mu.Lock()
	idn.byID[id] = name
	idn.mu.Unlock()
}

func (idn *c14Identity) nameOf(id string) (string, bool) {
	idn.mu.Lock()
	defer idn.mu.Unlock()
	n, ok := idn.byID[id]
	return n, ok
}

// who maps an observed producer entry to a model producer name; any field that is not what that
// producer identified with makes the entry foreign ("?...").
func (idn *c14Identity) who(pi *c14PeerInfoJSON) string {
	p := idn.byHost[pi.Hostname]
	if p == nil {
		return "?host=" + pi.Hostname
	}
	owner, _ := idn.nameOf(pi.RemoteAddress) // the connection it was identified on must be one of that producer's
	if pi.BroadcastAddress != p.broadcast || pi.TCPPort != p.tcpPort || pi.HTTPPort != p.httpPort ||
		pi.Version != "verif-"+p.name || owner != p.name {
		return fmt.Sprintf("?%s(%s:%d/%d %s %s)", pi.Hostname, pi.BroadcastAddress, pi.TCPPort, pi.HTTPPort, pi.Version, pi.RemoteAddress)
	}
	return p.name
}

// c14Observe issues /lookup and /channels for every topic, /topics, /nodes and /debug and
// assembles the normalised observation.
func c14Observe(h *c14HTTP, topics []string, idn *c14Identity) (*c14Obs, int, error) {
	o := &c14Obs{Lookup: map[string]c14LookupObs{}, Channels: map[string][]string{}, Topics: []string{}, Nodes: []c14NodeObs{},
		Debug: []c14DebugObs{}, Clients: []string{}}
	nq := 0
	for _, t := range topics {
		l, err := c14QueryLookup(h, t, idn)
		nq++
		if err != nil {
			return nil, nq, err
		}
		o.Lookup[t] = *l
		ch, err := c14QueryChannels(h, t)
		nq++
		if err != nil {
			return nil, nq, err
		}
		o.Channels[t] = ch
	}
	tp, err := c14QueryTopics(h)
	nq++
	if err != nil {
		return nil, nq, err
	}
	o.Topics = tp
	nodes, err := c14QueryNodes(h, idn)
	nq++
	if err != nil {
		return nil, nq, err
	}
	o.Nodes = nodes
	dbg, clients, err := c14QueryDebug(h, idn)
	nq++
	if err != nil {
		return nil, nq, err
	}
	o.Debug, o.Clients = dbg, clients
	o.Normalize()
	return o, nq, nil
}

func c14QueryLookup(h *c14HTTP, t string, idn *c14Identity) (*c14LookupObs, error) {
	code, body, err := h.Do("GET", "/lookup", url.Values{"topic": {t}})
	if err != nil {
		return nil, err
	}
	if code == 404 {
		return &c14LookupObs{Found: false, Channels: []string{}, Producers: []string{}}, nil
	}
	if code != 200 {
		return nil, fmt.Errorf("/lookup?topic=%s: status %d %s", t, code, body)
	}
	var doc struct {
		Channels  []string           `json:"channels"`
		Producers []*c14PeerInfoJSON `json:"producers"`
	}
	if err := json.Unmarshal(body, &doc); err != nil {
		return nil, fmt.Errorf("/lookup?topic=%s: %v in %s", t, err, body)
	}
	l := &c14LookupObs{Found: true, Channels: append([]string{}, doc.Channels...), Producers: []string{}}
	for _, pi := range doc.Producers {
		l.Producers = append(l.Producers, idn.who(pi))
	}
	return l, nil
}

func c14QueryChannels(h *c14HTTP, t string) ([]string, error) {
	code, body, err := h.Do("GET", "/channels", url.Values{"topic": {t}})
	if err != nil {
		return nil, err
	}
	if code != 200 {
		return nil, fmt.Errorf("/channels?topic=%s: status %d %s", t, code, body)
	}
	var doc struct {
		Channels []string `json:"channels"`
	}
	if err := json.Unmarshal(body, &doc); err != nil {
		return nil, fmt.Errorf("/channels: %v in %s", err, body)
	}
	return append([]string{}, doc.Channels...), nil
}

func c14QueryTopics(h *c14HTTP) ([]string, error) {
	code, body, err := h.Do("GET", "/topics", nil)
	if err != nil {
		return nil, err
	}
	if code != 200 {
		return nil, fmt.Errorf("/topics: status %d %s", code, body)
	}
	var doc struct {
		Topics []string `json:"topics"`
	}
	if err := json.Unmarshal(body, &doc); err != nil {
		return nil, fmt.Errorf("/topics: %v in %s", err, body)
	}
	return append([]string{}, doc.Topics...), nil
}

func c14QueryNodes(h *c14HTTP, idn *c14Identity) ([]c14NodeObs, error) {
	code, body, err := h.Do("GET", "/nodes", nil)
	if err != nil {
		return nil, err
	}
	if code != 200 {
		return nil, fmt.Errorf("/nodes: status %d %s", code, body)
	}
	var doc struct {
		Producers []*c14PeerInfoJSON `json:"producers"`
	}
	if err := json.Unmarshal(body, &doc); err != nil {
		return nil, fmt.Errorf("/nodes: %v in %s", err, body)
	}
	res := []c14NodeObs{}
	for _, pi := range doc.Producers {
		n := c14NodeObs{P: idn.who(pi), Topics: append([]string{}, pi.Topics...), Tombstoned: []string{}}
		if len(pi.Tombstones) != len(pi.Topics) {
			n.P = fmt.Sprintf("?%s(tombstones %d topics %d)", pi.Hostname, len(pi.Tombstones), len(pi.Topics))
		} else {
			for i, tb := range pi.Tombstones {
				if tb {
					n.Tombstoned = append(n.Tombstoned, pi.Topics[i])
				}
			}
		}
		res = append(res, n)
	}
	return res, nil
}

func c14QueryDebug(h *c14HTTP, idn *c14Identity) ([]c14DebugObs, []string, error) {
	code, body, err := h.Do("GET", "/debug", nil)
	if err != nil {
		return nil, nil, err
	}
	if code != 200 {
		return nil, nil, fmt.Errorf("/debug: status %d %s", code, body)
	}
	var doc map[string][]struct {
		ID         string `json:"id"`
		Hostname   string `json:"hostname"`
		Tombstoned bool   `json:"tombstoned"`
	}
	if err := json.Unmarshal(body, &doc); err != nil {
		return nil, nil, fmt.Errorf("/debug: %v in %s", err, body)
	}
	dbg := []c14DebugObs{}
	clients := []string{}
	for key, plist := range doc {
		parts := strings.SplitN(key, ":", 3)
		for len(parts) < 3 {
			parts = append(parts, "")
		}
		for _, e := range plist {
			name, ok := idn.nameOf(e.ID)
			if !ok || name != e.Hostname {
				if idn.byHost[e.Hostname] != nil {
					// one of this run's producers under a key the harness did not predict (the registry's internal
					// key is not part of what the property speaks about): still that producer, not a stranger
					name = e.Hostname
				} else {
					name = "?id=" + e.ID + "/" + e.Hostname
				}
			}
			if parts[0] == "client" {
				clients = append(clients, name)
				continue
			}
			dbg = append(dbg, c14DebugObs{K: parts, P: name, Tombstoned: e.Tombstoned})
		}
	}
	return dbg, clients, nil
}
