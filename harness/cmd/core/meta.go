package main

import (
	"bufio"
	"bytes"
	"encoding/json"
	"flag"
	"fmt"
	"io"
	"math/rand"
	"net"
	"net/http"
	"os"
	"os/exec"
	"path/filepath"
	"regexp"
	"sort"
	"strings"
	"sync"
	"sync/atomic"
	"syscall"
	"time"
	"unsafe"

	"github.com/nsqio/nsq/verifharness/hlib"
)

// C06: a REAL nsqd binary (built with -tags verif) as a child process; metadata churn over HTTP; SIGKILL at
// named points of the write protocol (VERIF_CRASH), at idle, and at random instants; a concurrent reader of
// nsqd.dat; restart and comparison with what the daemon had passed through.

type child struct {
	cmd    *exec.Cmd
	http   string
	tcp    string
	dir    string
	trace  string
	exited chan struct{}
	err    error
	stderr *strings.Builder
	mu     sync.Mutex
}

var reListen = regexp.MustCompile(`(TCP|HTTP): listening on (\S+)`)

func startChild(bin, dir, trace, crash string, extra ...string) (*child, error) {
	c := &child{dir: dir, trace: trace, exited: make(chan struct{}), stderr: &strings.Builder{}}
	c.cmd = exec.Command(bin, append([]string{"--data-path", dir, "--tcp-address", "127.0.0.1:0", "--http-address", "127.0.0.1:0",
		"--https-address", "127.0.0.1:0", "--broadcast-address", "127.0.0.1", "--mem-queue-size", "5"}, extra...)...)
	c.cmd.Env = append(os.Environ(), "VERIF_TRACE_FILE="+trace)
	if crash != "" {
		c.cmd.Env = append(c.cmd.Env, "VERIF_CRASH="+crash)
	}
	pr, err := c.cmd.StderrPipe()
	if err != nil {
		return nil, err
	}
	if err := c.cmd.Start(); err != nil {
		return nil, err
	}
	ready := make(chan struct{})
	go func() {
		sc := bufio.NewScanner(pr)
		sc.Buffer(make([]byte, 1<<20), 1<<20)
		var once sync.Once
		for sc.Scan() {
			line := sc.Text()
			c.mu.Lock()
			if c.stderr.Len() < 1<<16 {
				c.stderr.WriteString(line + "\n")
			}
			if m := reListen.FindStringSubmatch(line); m != nil {
				if m[1] == "TCP" {
					c.tcp = m[2]
				} else if c.http == "" {
					c.http = m[2]
				}
			}
			ok := c.tcp != "" && c.http != ""
			c.mu.Unlock()
			if ok {
				once.Do(func() { close(ready) })
			}
		}
	}()
	go func() { c.err = c.cmd.Wait(); close(c.exited) }()
	select {
	case <-ready:
	case <-c.exited:
		return c, fmt.Errorf("nsqd exited during start: %v\n%s", c.err, c.stderr.String())
	case <-time.After(30 * time.Second):
		c.cmd.Process.Kill()
		return c, fmt.Errorf("nsqd did not start listening within 30s")
	}
	for i := 0; i < 600; i++ {
		if st, _ := c.req("GET", "/ping"); st == 200 {
			return c, nil
		}
		select {
		case <-c.exited:
			return c, fmt.Errorf("nsqd exited during start: %v", c.err)
		default:
		}
		time.Sleep(5 * time.Millisecond)
	}
	return c, fmt.Errorf("nsqd does not answer /ping")
}

var hcli = &http.Client{Timeout: 10 * time.Second}

func (c *child) req(method, path string) (int, []byte) {
	rq, _ := http.NewRequest(method, "http://"+c.http+path, nil)
	resp, err := hcli.Do(rq)
	if err != nil {
		return 0, nil
	}
	defer resp.Body.Close()
	b, _ := io.ReadAll(resp.Body)
	return resp.StatusCode, b
}

func (c *child) alive() bool {
	select {
	case <-c.exited:
		return false
	default:
		return true
	}
}

func (c *child) kill() {
	if c.alive() {
		c.cmd.Process.Signal(syscall.SIGKILL)
		<-c.exited
	}
}

// topology as a set of strings: "t", "t!P", "t/c", "t/c!P" (non-ephemeral only)
func topoFromStats(b []byte) ([]string, error) {
	var s Stats
	if err := json.Unmarshal(b, &s); err != nil {
		return nil, err
	}
	var out []string
	for _, t := range s.Topics {
		if strings.HasSuffix(t.Name, "#ephemeral") {
			continue
		}
		out = append(out, t.Name)
		if t.Paused {
			out = append(out, t.Name+"!P")
		}
		for _, c := range t.Channels {
			if strings.HasSuffix(c.Name, "#ephemeral") {
				continue
			}
			out = append(out, t.Name+"/"+c.Name)
			if c.Paused {
				out = append(out, t.Name+"/"+c.Name+"!P")
			}
		}
	}
	sort.Strings(out)
	return out, nil
}

type metaDoc struct {
	Topics []struct {
		Name     string `json:"name"`
		Paused   bool   `json:"paused"`
		Channels []struct {
			Name   string `json:"name"`
			Paused bool   `json:"paused"`
		} `json:"channels"`
	} `json:"topics"`
	Version string `json:"version"`
}

func topoFromDoc(b []byte) ([]string, error) {
	var d metaDoc
	if err := json.Unmarshal(b, &d); err != nil {
		return nil, err
	}
	var out []string
	for _, t := range d.Topics {
		out = append(out, t.Name)
		if t.Paused {
			out = append(out, t.Name+"!P")
		}
		for _, c := range t.Channels {
			out = append(out, t.Name+"/"+c.Name)
			if c.Paused {
				out = append(out, t.Name+"/"+c.Name+"!P")
			}
		}
	}
	sort.Strings(out)
	return out, nil
}

type metaCase struct {
	Kind         string   `json:"kind"` // crashpoint | idle | random | second
	Point        string   `json:"point,omitempty"`
	Nth          int      `json:"nth,omitempty"`
	Seed         int64    `json:"seed"`
	Fails        []string `json:"fails"`
	Incon        string   `json:"inconclusive,omitempty"`
	Died         bool     `json:"died_at_point"`
	Ops          int      `json:"ops"`
	Reads        int64    `json:"file_reads"`
	Loaded       []string `json:"loaded"`
	Trace        string   `json:"trace,omitempty"`
	Restarts     int      `json:"restarts"`
	FailedStarts int      `json:"failed_starts"`
}

func (m *metaCase) failf(f string, a ...interface{}) { m.Fails = append(m.Fails, fmt.Sprintf(f, a...)) }

// one churn step; returns the request path and whether it is a pause/unpause (acknowledged state change)
func churnStep(rng *rand.Rand) string {
	t := []string{"t1", "t1", "t2", "t2", "e1#ephemeral"}[rng.Intn(5)]
	c := []string{"c1", "c1", "c2", "x#ephemeral"}[rng.Intn(4)]
	esc := func(s string) string { return strings.ReplaceAll(s, "#", "%23") }
	switch rng.Intn(10) {
	case 0, 1:
		return "/topic/create?topic=" + esc(t)
	case 2, 3:
		return "/channel/create?topic=" + esc(t) + "&channel=" + esc(c)
	case 4:
		return "/channel/delete?topic=" + esc(t) + "&channel=" + esc(c)
	case 5:
		return "/topic/delete?topic=" + esc(t)
	case 6:
		return "/channel/pause?topic=" + esc(t) + "&channel=" + esc(c)
	case 7:
		return "/channel/unpause?topic=" + esc(t) + "&channel=" + esc(c)
	case 8:
		return "/topic/pause?topic=" + esc(t)
	default:
		return "/topic/unpause?topic=" + esc(t)
	}
}

func metaMain(args []string) int {
	fs := flag.NewFlagSet("meta", flag.ExitOnError)
	bin := fs.String("nsqd", "", "nsqd binary built with -tags verif")
	in := fs.String("cases", "cases.json", "cases")
	out := fs.String("out", "meta-obs.json", "observations")
	dir := fs.String("dir", "", "scratch dir")
	fs.Parse(args)
	data, err := os.ReadFile(*in)
	if err != nil {
		fmt.Fprintln(os.Stderr, err)
		return 2
	}
	var cases []*metaCase
	if err := json.Unmarshal(data, &cases); err != nil {
		fmt.Fprintln(os.Stderr, err)
		return 2
	}
	// in-process gated cases use the process-wide hook sink and gate: one at a time, before the parallel part
	for i, mc := range cases {
		if mc.Kind == "gated-delete" {
			d := filepath.Join(*dir, fmt.Sprintf("metag%d", i))
			os.MkdirAll(d, 0755)
			metaGated(d, mc)
			os.RemoveAll(d)
		}
	}
	var wg sync.WaitGroup
	sem := make(chan struct{}, 6)
	for i, mc := range cases {
		if mc.Kind == "gated-delete" {
			continue
		}
		wg.Add(1)
		sem <- struct{}{}
		go func(i int, mc *metaCase) {
			defer wg.Done()
			defer func() { <-sem }()
			d := filepath.Join(*dir, fmt.Sprintf("meta%d", i))
			os.MkdirAll(d, 0755)
			runMetaCase(*bin, d, mc)
			os.RemoveAll(d)
		}(i, mc)
	}
	wg.Wait()
	hlib.WriteJSON(*out, cases)
	return 0
}

func runMetaCase(bin, dir string, mc *metaCase) {
	if mc.Kind == "handover" {
		runHandover(bin, dir, mc)
		return
	}
	rng := rand.New(rand.NewSource(mc.Seed))
	data := filepath.Join(dir, "data")
	os.MkdirAll(data, 0755)
	trace := filepath.Join(dir, "trace1.ndjson")
	crash := ""
	if mc.Kind == "crashpoint" {
		crash = fmt.Sprintf("%s:%d", mc.Point, mc.Nth)
	}
	c, err := startChild(bin, data, trace, crash)
	if err != nil {
		if mc.Kind == "crashpoint" && strings.HasPrefix(mc.Point, "persist.") && c != nil && !c.alive() {
			// died during the start-up persist: that is a crash point too -- fall through to the restart checks
			mc.Died = true
		} else {
			mc.Incon = err.Error()
			if c != nil {
				c.kill()
			}
			return
		}
	}
	defer func() { c.kill() }()
	// concurrent reader: nsqd.dat is absent or a complete document at every instant
	stopRead := int32(0)
	var rwg sync.WaitGroup
	rwg.Add(1)
	go func() {
		defer rwg.Done()
		fn := filepath.Join(data, "nsqd.dat")
		for atomic.LoadInt32(&stopRead) == 0 {
			b, err := os.ReadFile(fn)
			if err == nil {
				atomic.AddInt64(&mc.Reads, 1)
				if _, perr := topoFromDoc(b); perr != nil {
					mc.failf("nsqd.dat read while the daemon was running is not a complete document (%d bytes: %q): %v", len(b), string(b[:min(len(b), 80)]), perr)
					return
				}
			}
			time.Sleep(200 * time.Microsecond)
		}
	}()
	var vanishMu sync.Mutex
	vanished := ""
	// ... and the final name, once there, is never taken away again: the kernel reports every rename-away and unlink
	// in the data path (inotify), so this does not depend on catching the instant by polling
	rwg.Add(1)
	go func() {
		defer rwg.Done()
		fd, err := syscall.InotifyInit1(syscall.IN_NONBLOCK | syscall.IN_CLOEXEC)
		if err != nil {
			return
		}
		defer syscall.Close(fd)
		if _, err := syscall.InotifyAddWatch(fd, data, syscall.IN_MOVED_FROM|syscall.IN_DELETE); err != nil {
			return
		}
		buf := make([]byte, 64*1024)
		for {
			n, err := syscall.Read(fd, buf)
			if n <= 0 || err != nil {
				if atomic.LoadInt32(&stopRead) != 0 {
					return
				}
				time.Sleep(2 * time.Millisecond)
				continue
			}
			for off := 0; off+syscall.SizeofInotifyEvent <= n; {
				ev := (*syscall.InotifyEvent)(unsafe.Pointer(&buf[off]))
				name := strings.TrimRight(string(buf[off+syscall.SizeofInotifyEvent:off+syscall.SizeofInotifyEvent+int(ev.Len)]), "\x00")
				if name == "nsqd.dat" {
					what := "unlinked"
					if ev.Mask&syscall.IN_MOVED_FROM != 0 {
						what = "renamed away"
					}
					vanishMu.Lock()
					vanished = what
					vanishMu.Unlock()
					return
				}
				off += syscall.SizeofInotifyEvent + int(ev.Len)
			}
		}
	}()
	acked := map[string]bool{} // object -> last acknowledged paused flag
	pending := ""              // object with a request in flight when the daemon died
	nops := 40 + rng.Intn(40)
	if mc.Kind == "second" {
		nops = 10
	}
	var script []string
	if mc.Kind == "idledelete" {
		// the last thing that happens before the daemon goes idle is a deletion
		script = []string{"/topic/create?topic=t1", "/channel/create?topic=t1&channel=c1", "/channel/create?topic=t1&channel=c2",
			"/topic/create?topic=t2", "/channel/create?topic=t2&channel=c1", "/channel/pause?topic=t1&channel=c2"}
		if mc.Seed%2 == 0 {
			script = append(script, "/channel/delete?topic=t1&channel=c1")
		} else {
			script = append(script, "/topic/delete?topic=t2")
		}
		nops = len(script)
	}
	secondBurst := mc.Kind == "secondburst"
	if secondBurst {
		mc.Kind = "ackburst" // same burst, same oracles; in addition other nsqd processes are pointed at the data path meanwhile
	}
	if mc.Kind == "idleburst" || mc.Kind == "ackburst" {
		// set-up, then a burst of CONCURRENT admin requests, each on its own object, all acknowledged
		for _, p := range []string{"/topic/create?topic=t1", "/topic/create?topic=t2"} {
			c.req("POST", p)
			mc.Ops++
		}
		n := 6 + rng.Intn(10)
		if mc.Kind == "ackburst" {
			for i := 0; i < n; i++ {
				c.req("POST", fmt.Sprintf("/channel/create?topic=t1&channel=b%d", i))
				mc.Ops++
			}
			c.req("POST", "/channel/create?topic=t2&channel=twin")
			mc.Ops++
			time.Sleep(100 * time.Millisecond)
		}
		var bw sync.WaitGroup
		var amu sync.Mutex
		if mc.Kind == "ackburst" {
			// several clients ask for the SAME pause of the same object at the same moment (then the same unpause): whoever
			// is answered 200 -- first or not -- must find it on disk, nobody asks for the opposite meanwhile
			for _, target := range []struct{ path, name string }{{"/channel/%s?topic=t2&channel=twin", "t2/twin"}, {"/topic/%s?topic=t2", "t2"}} {
				target := target
				bw.Add(1)
				go func() {
					defer bw.Done()
					for round := 0; round < 6; round++ {
						verb := []string{"pause", "unpause"}[round%2]
						want := verb == "pause"
						var tw sync.WaitGroup
						for k := 0; k < 3; k++ {
							tw.Add(1)
							go func() {
								defer tw.Done()
								st, _ := c.req("POST", fmt.Sprintf(target.path, verb))
								if st != 200 {
									return
								}
								b, err := os.ReadFile(filepath.Join(data, "nsqd.dat"))
								if err != nil {
									return
								}
								names, perr := topoFromDoc(b)
								if perr != nil {
									return
								}
								listed, onDisk := false, false
								for _, nm := range names {
									if nm == target.name {
										listed = true
									}
									if nm == target.name+"!P" {
										onDisk = true
									}
								}
								if listed && onDisk != want {
									amu.Lock()
									mc.failf("one of three simultaneous POST %s requests for %s was answered 200 while nsqd.dat still has paused=%v: a kill now loses an acknowledged %s",
										fmt.Sprintf(target.path, verb), target.name, onDisk, verb)
									amu.Unlock()
								}
							}()
						}
						tw.Wait()
					}
				}()
			}
		}
		stopSecond := int32(0)
		var sw sync.WaitGroup
		if secondBurst {
			// a supervisor that keeps starting another nsqd on the data path in use: every attempt must be refused AND
			// must leave the owner's files alone
			sw.Add(1)
			go func() {
				defer sw.Done()
				for k := 0; k < 12 && atomic.LoadInt32(&stopSecond) == 0; k++ {
					c2, err2 := startChild(bin, data, filepath.Join(dir, fmt.Sprintf("trace-second%d.ndjson", k)), "")
					if err2 == nil {
						mc.failf("a second nsqd started on a data path that is in use (it listens on %s)", c2.http)
					}
					if c2 != nil {
						c2.kill()
					}
				}
			}()
		}
		for i := 0; i < n; i++ {
			bw.Add(1)
			go func(i int) {
				defer bw.Done()
				if mc.Kind == "idleburst" {
					st, _ := c.req("POST", fmt.Sprintf("/channel/create?topic=t%d&channel=b%d", 1+i%2, i))
					_ = st
					return
				}
				obj := fmt.Sprintf("t1/b%d", i)
				switch i % 3 {
				case 0, 1:
					// a few pause/unpause toggles of this goroutine's own channel: the last acknowledged value counts
					val, okAll := false, true
					rounds := 3 + i%4
					if secondBurst {
						rounds += 24 // keep the owner writing for as long as the other processes keep coming
					}
					for j := 0; j < rounds; j++ {
						verb := "pause"
						if j%2 == 1 {
							verb = "unpause"
						}
						st, _ := c.req("POST", fmt.Sprintf("/channel/%s?topic=t1&channel=b%d", verb, i))
						if st != 200 {
							okAll = false
							break
						}
						val = verb == "pause"
						// acknowledged => on disk NOW (nobody else touches this goroutine's channel): a kill at this very
						// instant must find it (NsqdMeta!AckedPausePersisted, evaluated on the real file)
						if b, err := os.ReadFile(filepath.Join(data, "nsqd.dat")); err == nil {
							if names, perr := topoFromDoc(b); perr == nil {
								onDisk, listed := false, false
								for _, nm := range names {
									if nm == obj {
										listed = true
									}
									if nm == obj+"!P" {
										onDisk = true
									}
								}
								if listed && onDisk != val {
									amu.Lock()
									mc.failf("POST /channel/%s for %s was answered 200 but nsqd.dat read right after the answer has paused=%v: a kill now loses an acknowledged %s", verb, obj, onDisk, verb)
									amu.Unlock()
									okAll = false
									break
								}
							}
						}
					}
					if okAll {
						amu.Lock()
						acked[obj] = val
						amu.Unlock()
					}
				case 2:
					c.req("POST", fmt.Sprintf("/channel/delete?topic=t1&channel=b%d", i))
				}
			}(i)
		}
		bw.Wait()
		atomic.StoreInt32(&stopSecond, 1)
		sw.Wait()
		mc.Ops += n
		nops = 0
	}
	if !mc.Died {
		for i := 0; i < nops && c.alive(); i++ {
			p := churnStep(rng)
			if script != nil {
				p = script[i]
				time.Sleep(30 * time.Millisecond)
			}
			obj := ""
			val := false
			if strings.Contains(p, "pause") {
				q := p[strings.Index(p, "?")+1:]
				var t, ch string
				for _, kv := range strings.Split(q, "&") {
					if strings.HasPrefix(kv, "topic=") {
						t = strings.ReplaceAll(kv[6:], "%23", "#")
					}
					if strings.HasPrefix(kv, "channel=") {
						ch = strings.ReplaceAll(kv[8:], "%23", "#")
					}
				}
				obj = t
				if ch != "" {
					obj = t + "/" + ch
				}
				val = !strings.Contains(p, "unpause")
			}
			if strings.Contains(p, "delete") {
				// a deletion forgets the flags of what it deletes
				q := p[strings.Index(p, "?")+1:]
				var t, ch string
				for _, kv := range strings.Split(q, "&") {
					if strings.HasPrefix(kv, "topic=") {
						t = strings.ReplaceAll(kv[6:], "%23", "#")
					}
					if strings.HasPrefix(kv, "channel=") {
						ch = strings.ReplaceAll(kv[8:], "%23", "#")
					}
				}
				for k := range acked {
					if (ch == "" && (k == t || strings.HasPrefix(k, t+"/"))) || (ch != "" && k == t+"/"+ch) {
						delete(acked, k)
					}
				}
			}
			pending = obj
			if obj != "" {
				delete(acked, obj)
			}
			st, _ := c.req("POST", p)
			mc.Ops++
			if st == 0 {
				break // the daemon died (or is dying) under this request
			}
			pending = ""
			if st == 500 {
				mc.failf("[C10] %s answered 500", p)
			}
			if obj != "" && st == 200 && !strings.Contains(obj, "#ephemeral") {
				acked[obj] = val
			}
			if mc.Kind == "random" && rng.Intn(nops) == 0 {
				break
			}
		}
	}
	var idleTopo []string
	switch mc.Kind {
	case "crashpoint":
		if c.alive() {
			// the point was not reached often enough: nothing to learn from this case beyond a random kill
			time.Sleep(20 * time.Millisecond)
		} else {
			mc.Died = true
		}
	case "idle", "idledelete", "idleburst", "ackburst", "idleterm":
		// wait until every notify goroutine has finished and the file has stopped changing
		deadline := time.Now().Add(20 * time.Second)
		for {
			sp, dn := countEvents(trace)
			fi1, _ := os.Stat(filepath.Join(data, "nsqd.dat"))
			time.Sleep(150 * time.Millisecond)
			sp2, dn2 := countEvents(trace)
			fi2, _ := os.Stat(filepath.Join(data, "nsqd.dat"))
			if sp == dn && sp2 == sp && dn2 == dn && fi1 != nil && fi2 != nil && fi1.ModTime() == fi2.ModTime() {
				break
			}
			if time.Now().After(deadline) {
				mc.Incon = "daemon did not become idle"
				atomic.StoreInt32(&stopRead, 1)
				rwg.Wait()
				return
			}
		}
		_, b := c.req("GET", "/stats?format=json")
		idleTopo, err = topoFromStats(b)
		if err != nil {
			mc.Incon = "stats: " + err.Error()
		}
	case "second":
		// a second nsqd on the same data path must refuse to start while the first one lives
		c2, err2 := startChild(bin, data, filepath.Join(dir, "trace-second.ndjson"), "")
		if err2 == nil {
			mc.failf("a second nsqd started on a data path that is in use (it listens on %s)", c2.http)
			c2.kill()
		} else if c2 != nil && c2.alive() {
			c2.kill()
			mc.Incon = "second instance neither started nor exited: " + err2.Error()
		} else if c2 != nil {
			if ee, ok := c2.err.(*exec.ExitError); !ok || ee.ExitCode() == 0 {
				mc.failf("second nsqd on a busy data path exited with %v", c2.err)
			}
		}
		if st, _ := c.req("GET", "/ping"); st != 200 {
			mc.failf("the first nsqd stopped answering after a second one was pointed at its data path")
		}
	}
	var lateNames []string
	var lmu sync.Mutex
	if mc.Kind == "idleterm" && mc.Incon == "" {
		// a graceful shutdown with creations under way: whatever the daemon writes on its way out, the
		// next one starts with everything that was there when the daemon was last idle
		// (a handful of clients keep creating channels and topics, one after the other, until the daemon stops answering)
		lateNames = append(lateNames, "t1")
		for g := 0; g < 6; g++ {
			go func(g int) {
				for i := 0; i < 400; i++ {
					var p, name string
					if (g+i)%3 == 0 {
						name = fmt.Sprintf("lt%d-%d", g, i)
						p = "/topic/create?topic=" + name
					} else {
						name = fmt.Sprintf("t1/lc%d-%d", g, i)
						p = "/channel/create?topic=t1&channel=" + fmt.Sprintf("lc%d-%d", g, i)
					}
					lmu.Lock()
					lateNames = append(lateNames, name)
					lmu.Unlock()
					if st, _ := c.req("POST", p); st == 0 {
						return
					}
				}
			}(g)
		}
		time.Sleep(time.Duration(2000+rng.Intn(8000)) * time.Microsecond)
		c.cmd.Process.Signal(syscall.SIGTERM)
		select {
		case <-c.exited:
		case <-time.After(40 * time.Second):
			mc.failf("[C05] nsqd did not exit within 40 s of SIGTERM")
		}
	}
	c.kill() // SIGKILL (no-op if it killed itself)
	atomic.StoreInt32(&stopRead, 1)
	rwg.Wait()
	// ---- after the kill
	fn := filepath.Join(data, "nsqd.dat")
	var fileTopo []string
	if b, err := os.ReadFile(fn); err == nil {
		fileTopo, err = topoFromDoc(b)
		if err != nil {
			mc.failf("nsqd.dat after SIGKILL is not a complete document: %v", err)
			return
		}
	}
	visited := snapshotsOf(trace)
	// a start that fails half-way (after the data path has been taken: an address in use, an option the daemon refuses) in
	// between: it must leave the metadata exactly as it found it
	if mc.Kind == "random" || mc.Kind == "idle" || mc.Kind == "idleburst" {
		before, _ := os.ReadFile(fn)
		var extra []string
		var hold net.Listener
		switch mc.Seed % 6 {
		case 0, 1:
			if ln, err := net.Listen("tcp", "127.0.0.1:0"); err == nil {
				hold = ln
				flag := []string{"--tcp-address", "--http-address"}[mc.Seed%2]
				extra = []string{flag, ln.Addr().String()}
			}
		case 2:
			extra = []string{"--max-deflate-level", "0"}
		case 3:
			extra = []string{"--node-id", "5000"}
		case 4:
			extra = []string{"--tls-required", "true"}
		case 5:
			extra = []string{"--auth-http-address", "127.0.0.1:1", "--auth-http-request-method", "put"}
		}
		if extra != nil {
			cf, ferr := startChild(bin, data, filepath.Join(dir, "trace-failed.ndjson"), "", extra...)
			if hold != nil {
				hold.Close()
			}
			if ferr == nil {
				cf.kill() // it started after all: nothing to learn
			} else {
				if cf != nil {
					cf.kill()
				}
				after, _ := os.ReadFile(fn)
				if !bytes.Equal(before, after) {
					mc.failf("a start attempt that failed (%v) changed nsqd.dat: it held %q before and holds %q after", extra, string(before[:min(len(before), 300)]), string(after[:min(len(after), 300)]))
					return
				}
				mc.FailedStarts++
			}
		}
	}
	c2, err := startChild(bin, data, filepath.Join(dir, "trace2.ndjson"), "")
	mc.Restarts++
	if err != nil {
		mc.failf("nsqd does not start again on the data path after SIGKILL: %v", err)
		if c2 != nil {
			c2.kill()
		}
		return
	}
	defer c2.kill()
	_, b := c2.req("GET", "/stats?format=json")
	loaded, err := topoFromStats(b)
	if err != nil {
		mc.Incon = "stats after restart: " + err.Error()
		return
	}
	mc.Loaded = loaded
	key := strings.Join(loaded, ",")
	if strings.Join(fileTopo, ",") != key {
		mc.failf("restarted daemon has %v but nsqd.dat held %v", loaded, fileTopo)
	}
	if len(loaded) > 0 && !visited[key] {
		mc.failf("after the restart the daemon has topics/channels %v, a set it never passed through (it persisted only %d distinct documents)", loaded, len(visited))
	}
	if mc.Kind == "idleterm" && mc.Incon == "" {
		has := map[string]bool{}
		for _, k := range loaded {
			has[k] = true
		}
		for _, k := range idleTopo {
			if !has[k] {
				mc.failf("[idleterm] the daemon was idle with %v; after SIGTERM (with channel and topic creations under way) and restart it has %v: %s is gone", idleTopo, loaded, k)
				break
			}
		}
		was := map[string]bool{}
		for _, k := range idleTopo {
			was[k] = true
		}
		for _, k := range loaded {
			lmu.Lock()
			late := has_(lateNames, k)
			lmu.Unlock()
			if !was[k] && !late {
				mc.failf("[idleterm] after SIGTERM and restart the daemon has %s, which it neither had when idle nor was asked to create", k)
			}
		}
	}
	if (mc.Kind == "idle" || mc.Kind == "idledelete" || mc.Kind == "idleburst" || mc.Kind == "ackburst") && mc.Incon == "" {
		if strings.Join(idleTopo, ",") != key {
			mc.failf("[idle] the daemon was idle with %v; after SIGKILL and restart it has %v", idleTopo, loaded)
		}
	}
	// the final name was taken away at some moment: what does a daemon find that starts on the data path as it looks
	// at such a moment (everything that is there now, but no nsqd.dat)?  Only if THAT loses the topology is it a defect.
	vanishMu.Lock()
	vw := vanished
	vanishMu.Unlock()
	if vw != "" && len(fileTopo) > 0 {
		c2.kill()
		cp := data + "-vanish"
		os.MkdirAll(cp, 0755)
		if ents, err := os.ReadDir(data); err == nil {
			for _, e := range ents {
				if e.IsDir() || e.Name() == "nsqd.dat" || strings.HasSuffix(e.Name(), ".lock") {
					continue
				}
				if b, err := os.ReadFile(filepath.Join(data, e.Name())); err == nil {
					os.WriteFile(filepath.Join(cp, e.Name()), b, 0644)
				}
			}
		}
		c3, err := startChild(bin, cp, filepath.Join(dir, "trace3.ndjson"), "")
		if err == nil {
			_, b3 := c3.req("GET", "/stats?format=json")
			l3, err3 := topoFromStats(b3)
			c3.kill()
			if err3 == nil && (len(l3) == 0 || !visited[strings.Join(l3, ",")]) {
				mc.failf("nsqd.dat was %s while the daemon was running (kernel notification); a daemon started on the data path as it is at such a moment -- all other files present, no nsqd.dat -- comes up with %v instead of a set the first one had persisted (last: %v)", vw, l3, fileTopo)
			}
		} else if c3 != nil {
			c3.kill()
		}
		os.RemoveAll(cp)
	}
	// acknowledged pause/unpause survive
	has := map[string]bool{}
	for _, k := range loaded {
		has[k] = true
	}
	for obj, val := range acked {
		if obj == pending || !has[obj] {
			continue
		}
		if has[obj+"!P"] != val {
			mc.failf("pause state of %s was acknowledged as %v over HTTP, after SIGKILL and restart it is %v", obj, val, has[obj+"!P"])
		}
	}
	// more cycles: the restarted daemon goes through churn of its own and is killed at a random instant, one to three times
	// over; every time the next one loads a set its predecessor had persisted (or had loaded itself)
	if mc.Kind == "random" && vw == "" && len(mc.Fails) == 0 && mc.Incon == "" {
		prev, prevTrace, prevKey := c2, filepath.Join(dir, "trace2.ndjson"), key
		for cyc := 0; cyc < 1+int(mc.Seed%3); cyc++ {
			for i, n := 0, 1+rng.Intn(25); i < n; i++ {
				st, _ := prev.req("POST", churnStep(rng))
				mc.Ops++
				if st == 0 {
					break
				}
				if st == 500 {
					mc.failf("[C10] churn request answered 500 in restart cycle %d", cyc+1)
				}
			}
			time.Sleep(time.Duration(rng.Intn(3000)) * time.Microsecond)
			prev.kill()
			var ft []string
			if b, err := os.ReadFile(fn); err == nil {
				if ft, err = topoFromDoc(b); err != nil {
					mc.failf("nsqd.dat after SIGKILL number %d is not a complete document: %v", cyc+2, err)
					return
				}
			}
			vis := snapshotsOf(prevTrace)
			delete(vis, "") // the empty set counts only if this predecessor loaded or persisted it
			for k := range snapshotsOfStrict(prevTrace) {
				vis[k] = true
			}
			vis[prevKey] = true
			tr := filepath.Join(dir, fmt.Sprintf("trace-cycle%d.ndjson", cyc))
			nx, err := startChild(bin, data, tr, "")
			mc.Restarts++
			if err != nil {
				mc.failf("nsqd does not start again on the data path after SIGKILL number %d: %v", cyc+2, err)
				if nx != nil {
					nx.kill()
				}
				return
			}
			defer nx.kill()
			_, b := nx.req("GET", "/stats?format=json")
			ld, err := topoFromStats(b)
			if err != nil {
				mc.Incon = "stats after restart: " + err.Error()
				return
			}
			k := strings.Join(ld, ",")
			if strings.Join(ft, ",") != k {
				mc.failf("restart cycle %d: the daemon has %v but nsqd.dat held %v", cyc+2, ld, ft)
			}
			if !vis[k] {
				mc.failf("restart cycle %d: the daemon has topics/channels %v, a set its predecessor (which had loaded %q) never passed through (it persisted %d distinct documents)", cyc+2, ld, prevKey, len(vis))
			}
			prev, prevTrace, prevKey = nx, tr, k
		}
	}
}

func min(a, b int) int {
	if a < b {
		return a
	}
	return b
}

func countEvents(trace string) (spawn, done int) {
	f, err := os.Open(trace)
	if err != nil {
		return 0, 0
	}
	defer f.Close()
	sc := bufio.NewScanner(f)
	sc.Buffer(make([]byte, 1<<20), 1<<20)
	for sc.Scan() {
		l := sc.Text()
		if strings.Contains(l, `"ev":"NotifySpawn"`) {
			spawn++
		} else if strings.Contains(l, `"ev":"NotifyDone"`) {
			done++
		}
	}
	return
}

// snapshotsOf: every document the first lifetime took a snapshot of (= states it passed through, under the lock)
func has_(ss []string, s string) bool {
	for _, x := range ss {
		if x == s {
			return true
		}
	}
	return false
}

func snapshotsOf(trace string) map[string]bool {
	out := snapshotsOfStrict(trace)
	out[""] = true
	return out
}

func snapshotsOfStrict(trace string) map[string]bool {
	out := map[string]bool{}
	f, err := os.Open(trace)
	if err != nil {
		return out
	}
	defer f.Close()
	sc := bufio.NewScanner(f)
	sc.Buffer(make([]byte, 1<<22), 1<<22)
	for sc.Scan() {
		var m map[string]interface{}
		if json.Unmarshal(sc.Bytes(), &m) != nil {
			continue
		}
		if m["ev"] == "MetaSnapshot" || m["ev"] == "MetaLoaded" {
			if doc, ok := m["doc"].(string); ok {
				if t, err := topoFromDoc([]byte(doc)); err == nil {
					out[strings.Join(t, ",")] = true
				}
			}
		}
	}
	return out
}

// eventTime: the clock reading ("now") of the first event of that name (and stage) in a child's trace file; 0 = none
func eventTime(trace, ev, stage string) int64 {
	b, err := os.ReadFile(trace)
	if err != nil {
		return 0
	}
	for _, line := range strings.Split(string(b), "\n") {
		if !strings.Contains(line, "\""+ev+"\"") {
			continue
		}
		var m map[string]interface{}
		if json.Unmarshal([]byte(line), &m) != nil || m["ev"] != ev {
			continue
		}
		if stage != "" && m["stage"] != stage {
			continue
		}
		if f, ok := m["now"].(float64); ok {
			return int64(f)
		}
	}
	return 0
}

// runHandover: C06 "a second nsqd pointed at a data path that is in use refuses to start" -- also while the first one
// is on its way out.  The first nsqd talks to an nsqlookupd that accepts connections and never answers, so its lookup
// loop (one of the goroutines nsqd.Exit waits for) takes its time; SIGTERM; a second nsqd is started on the data path
// over and over.  It may be admitted only after the first one has stopped everything (its NExit "stopped" event,
// emitted right before it gives the data-path lock back): both clock readings come from the hooks.
func runHandover(bin, dir string, mc *metaCase) {
	data := filepath.Join(dir, "data")
	os.MkdirAll(data, 0755)
	ln, err := net.Listen("tcp", "127.0.0.1:0")
	if err != nil {
		mc.Incon = "listen: " + err.Error()
		return
	}
	defer ln.Close()
	go func() {
		for {
			cn, err := ln.Accept()
			if err != nil {
				return
			}
			go func() { io.Copy(io.Discard, cn); cn.Close() }() // reads, never answers
		}
	}()
	traceA := filepath.Join(dir, "trace-a.ndjson")
	a, err := startChild(bin, data, traceA, "", "--lookupd-tcp-address", ln.Addr().String())
	if err != nil {
		mc.Incon = "start: " + err.Error()
		if a != nil {
			a.kill()
		}
		return
	}
	defer a.kill()
	rng := rand.New(rand.NewSource(mc.Seed))
	for i := 0; i < 2+rng.Intn(3); i++ {
		a.req("POST", fmt.Sprintf("/topic/create?topic=h%d", i))
		a.req("POST", fmt.Sprintf("/channel/create?topic=h%d&channel=c", i))
	}
	time.Sleep(time.Duration(rng.Intn(300)) * time.Millisecond)
	a.req("POST", "/channel/create?topic=h0&channel=late") // its notification keeps the lookup loop busy with the mute peer
	a.cmd.Process.Signal(syscall.SIGTERM)
	var admitted int64
	attempts := 0
	deadline := time.Now().Add(40 * time.Second)
	for time.Now().Before(deadline) {
		attempts++
		tb := filepath.Join(dir, fmt.Sprintf("trace-b%d.ndjson", attempts))
		b, errb := startChild(bin, data, tb, "")
		if t := eventTime(tb, "NDataLock", ""); t != 0 {
			admitted = t
			if b != nil {
				b.kill()
			}
			break
		}
		if b != nil && b.alive() {
			b.kill()
		}
		_ = errb
		if !a.alive() && attempts > 3 && eventTime(traceA, "NExit", "stopped") != 0 {
			// the first one is gone and the data path still cannot be locked
			time.Sleep(50 * time.Millisecond)
		}
		time.Sleep(15 * time.Millisecond)
	}
	mc.Ops = attempts
	// let the first one finish (it was asked to stop gracefully)
	select {
	case <-a.exited:
	case <-time.After(40 * time.Second):
		mc.Incon = "the first nsqd did not exit within 40s of SIGTERM"
		return
	}
	stopped := eventTime(traceA, "NExit", "stopped")
	if stopped == 0 {
		mc.Incon = "the first nsqd's shutdown left no NExit(stopped) event"
		return
	}
	if admitted == 0 {
		mc.failf("no nsqd could be started on the data path within 40s although the first one had stopped")
		return
	}
	if admitted < stopped {
		mc.failf("a second nsqd was admitted to the data path %d ms before the first one (SIGTERM, shutting down) had stopped its "+
			"goroutines and given the lock back (attempt %d)", (stopped-admitted)/1e6, attempts)
	}
}
