---------------------------- MODULE LookupdRace ----------------------------
(***************************************************************************)
(* UNREGISTER at the granularity of its critical sections (binding A').    *)
(*                                                                         *)
(* lookup_protocol_v1.go UNREGISTER: RemoveProducer (under the registry    *)
(* lock) returns `left'; the lock is released; when left = 0 and the name  *)
(* is #ephemeral, RemoveRegistration (a second critical section) drops the *)
(* key.  Every other command is kept atomic, so TLC enumerates exactly the *)
(* interleavings of that one window with the commands of other connections *)
(* and admin calls.                                                        *)
(*                                                                         *)
(* Fixed = FALSE: as implemented - the second section deletes the key      *)
(*                unconditionally (named deviation; TLC shows it breaks    *)
(*                RegistrationsKept: a lead that the gated replay and the  *)
(*                black-box hammer of checks/C14.py reproduce on the code) *)
(* Fixed = TRUE : as intended - the second section deletes the key only if *)
(*                it is still empty (RemoveRegistrationIfEmpty).           *)
(***************************************************************************)
EXTENDS Lookupd

CONSTANT Fixed
VARIABLES parked,  \* [Producers -> key]: UNREGISTER in progress between its two sections (NoKey: none)
          owed     \* {<<key, p>>}: p's REGISTER under key was acknowledged and neither p (unregister, disconnect)
                   \*               nor an admin delete has taken it back since

rvars == <<vars, parked, owed>>
NoKey == <<"none", "", "">>

RInit == Init /\ parked = [p \in Producers |-> NoKey] /\ owed = {}

Idle(p) == parked[p] = NoKey

RRegister(p, t, c) ==
  /\ Idle(p) /\ Register(p, t, c)
  /\ owed' = owed \cup {<<TopicKey(t), p>>} \cup (IF c # "" THEN {<<ChanKey(t, c), p>>} ELSE {})
  /\ UNCHANGED parked

\* first critical section(s): the RemoveProducer calls
RUnregisterBegin(p, t, c) ==
  /\ Idle(p) /\ conn[p] = "identified"
  /\ LET K  == IF c # "" THEN {ChanKey(t, c)}
               ELSE {k \in ChanKeys : k[2] = t /\ k \in regs} \cup {TopicKey(t)}
         k0 == IF c # "" THEN ChanKey(t, c) ELSE TopicKey(t)
         d  == RemProdAll(DB, K, p)
         eph == IF c # "" THEN c \in EphChannels ELSE t \in EphTopics
     IN /\ Commit(d)
        /\ parked' = [parked EXCEPT ![p] = IF eph /\ d.prods[k0] = {} THEN k0 ELSE NoKey]
        /\ owed' = owed \ {<<k, p>> : k \in K}
  /\ act' = Act("UnregisterBegin", p, t, c, "")
  /\ UNCHANGED <<conn, lu, now>>

\* second critical section: RemoveRegistration, then the OK
RUnregisterEnd(p) ==
  /\ ~Idle(p)
  /\ IF Fixed /\ prods[parked[p]] # {} THEN UNCHANGED dbvars ELSE Commit(RemReg(DB, parked[p]))
  /\ parked' = [parked EXCEPT ![p] = NoKey]
  /\ act' = Act("UnregisterEnd", p, parked[p][2], parked[p][3], "OK")
  /\ UNCHANGED <<conn, lu, now, owed>>

RDisconnect(p) == /\ Idle(p) /\ Disconnect(p)
                  /\ owed' = {x \in owed : x[2] # p} /\ UNCHANGED parked
RPeerOther(p)  == /\ Idle(p) /\ (Connect(p) \/ Identify(p) \/ Ping(p)) /\ UNCHANGED <<parked, owed>>
RAdmin ==
  \/ /\ \E t \in Topics : CreateTopic(t)
     /\ UNCHANGED <<parked, owed>>
  \/ /\ \E t \in Topics, c \in Channels : CreateChannel(t, c)
     /\ UNCHANGED <<parked, owed>>
  \/ \E t \in Topics : /\ DeleteTopic(t)
                       /\ owed' = {x \in owed : x[1][2] # t} /\ UNCHANGED parked
  \/ \E t \in Topics, c \in Channels : /\ DeleteChannel(t, c)
                                       /\ owed' = {x \in owed : x[1] # ChanKey(t, c)} /\ UNCHANGED parked

RNext == \/ RAdmin
         \/ \E p \in Producers : \/ RPeerOther(p) \/ RDisconnect(p) \/ RUnregisterEnd(p)
                                 \/ \E t \in Topics, c \in ChanOrNone : RRegister(p, t, c) \/ RUnregisterBegin(p, t, c)
RSpec == RInit /\ [][RNext]_rvars

\* what a connection registered (and was told OK) stays registered until it, or an admin, takes it back
RegistrationsKept == \A x \in owed : x[1] \in regs /\ x[2] \in prods[x[1]]
rview == <<regs, prods, tomb, conn, lu, now, parked, owed>>
=============================================================================
