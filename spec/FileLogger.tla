----------------------------- MODULE FileLogger -----------------------------
(***************************************************************************)
(* apps/nsq_to_file/file_logger.go as the code has it (C19).               *)
(*                                                                         *)
(* One FileLogger (one topic): the router() loop, split into one action    *)
(* per system call / per point at which the process can be stopped:        *)
(*   select over StopChan / termChan / hupChan / ticker / logChan          *)
(*   needsRotation (f.out == nil, file name changed, interval, size)       *)
(*   updateFile: Close(); name and revision; the <REV> probing loop with   *)
(*               the output-dir stat, O_EXCL (gzip or rotate-interval) or  *)
(*               O_APPEND open, the rotate-size check of an existing file  *)
(*   Write body, Write "\n"                                                *)
(*   Sync: gzip member close, fsync                                        *)
(*   Finish of the pending batch, last first; the FIN itself leaves        *)
(*         asynchronously (go-nsq writeLoop): finq, SendFin                *)
(*   Close: gzip member close, fsync, close, exclusiveRename = link +      *)
(*          unlink with revision bumping on EEXIST                         *)
(* The file system and the acknowledged set are the variables of           *)
(* FileLoggerAbs and every step goes through its operations, so the        *)
(* properties of FileLoggerAbs are checked on this algorithm directly.     *)
(*                                                                         *)
(* Deliberately modelled as the code is, not as one would like it:         *)
(*  * Close() returns BEFORE `f.out = nil` when the first link succeeds    *)
(*    (work-dir case): f.out stays a closed *os.File ("stale").  The next  *)
(*    Write / Sync on it fails and the tool exits(1) -- Fatal here.  That  *)
(*    costs availability after SIGHUP / skip-empty-files rotation with a   *)
(*    work-dir, but acknowledges nothing: outside C19's statement.         *)
(*  * a closed termChan is ready forever: SelTerm can be taken again and   *)
(*    again, each time forcing a sync.                                     *)
(*  * rotate-size `continue` in updateFile leaks the descriptor.           *)
(* Stops: Kill (SIGKILL / exit(1): the process is gone, the page cache is  *)
(* not), PowerLoss (FileLoggerAbs: files cut back to anything >= fsynced), *)
(* Exit after SIGTERM; then Restart: nsqd re-queues what was not finished. *)
(***************************************************************************)
EXTENDS FileLoggerAbs

CONSTANTS Msgs,         \* message tokens, positive integers
          MaxInFlight,  \* --max-in-flight (cap of the router's output slice and RDY)
          MaxNow,       \* clock ticks explored
          DatePeriod,   \* the <DATETIME> part of the file name changes every DatePeriod ticks
          MaxRev,       \* state constraint on <REV>
          MaxHups, MaxRestarts, MaxPower,
          PreNames,     \* names that may exist before the tool starts
          PreSize,      \* records in each pre-existing file
          ForeignNames, MaxForeign,   \* names somebody else may create while the tool runs, and how often
          OptSet,       \* option combinations explored (chosen in Init)
          GzipAppendOnRestart  \* FALSE: the code (gzip => O_EXCL, a restart takes the next <REV>).  TRUE: the design
                               \* "gzip members concatenate, re-open the existing file in append mode": kept so that
                               \* TLC shows what O_EXCL is there for (FileLogger_gzappend.cfg must FAIL)

VARIABLES opt,      \* [gzip, workdir, skipEmpty : BOOLEAN, rotSize, rotInt : Nat]  (0 = off)
          now,      \* clock
          queue,    \* messages nsqd would deliver (published, not finished, not in flight)
          held,     \* in flight: received by go-nsq, not yet taken by the router (handler / logChan)
          sig,      \* [term, hup : BOOLEAN, hups : Nat] signals delivered to the process
          restarts,
          r         \* the router's locals (one record; field pc is the program counter)

vars == <<avars, opt, now, queue, held, sig, restarts, r>>

AllOpts == [gzip : BOOLEAN, workdir : BOOLEAN, skipEmpty : BOOLEAN, rotSize : {0, 1}, rotInt : {0, 1}]
RestartOpts == [gzip : BOOLEAN, workdir : BOOLEAN, skipEmpty : {FALSE}, rotSize : {0}, rotInt : {0, 1}]

PreNamesMC == {<<"o", 0, 0>>, <<"w", 0, 0>>, <<"o", 0, 1>>}
PreNamesQ  == {<<"o", 0, 0>>, <<"w", 0, 0>>}
ForeignQ   == {<<"o", 0, 0>>, <<"o", 0, 1>>}
NoName == <<"-", 0, 0>>
R0 == [pc |-> "select", cur |-> 0, pending |-> <<>>, finq |-> {}, syncF |-> FALSE, closeF |-> FALSE,
       exitF |-> FALSE, ret |-> "loop", ufret |-> "tick", out |-> "nil", ino |-> 0, oname |-> NoName,
       fname |-> 0 - 1, rev |-> 0, lrev |-> 0, first |-> FALSE, otime |-> 0, fsize |-> 0, gzbuf |-> <<>>,
       termed |-> FALSE, stop |-> FALSE]

Pcs == {"select", "w_body", "w_nl", "sync", "sy_gz", "sy_fsync", "finish", "closechk", "exitchk",
        "cl_start", "cl_gz", "cl_fsync", "cl_closefd", "cl_link", "cl_unlink", "uf_name", "uf_probe",
        "done", "dead"}

\* computeFilenameFormat: <REV> is kept in the name only when one of these is on
HasRev      == opt.gzip \/ opt.rotSize > 0 \/ opt.rotInt > 0 \/ opt.workdir
RevIn(x)    == IF HasRev THEN x ELSE 0
WorkName(d, x) == <<IF opt.workdir THEN "w" ELSE "o", d, RevIn(x)>>
OutName(d, x)  == <<"o", d, RevIn(x)>>
Date(t)     == t \div DatePeriod
Excl        == (opt.gzip /\ ~GzipAppendOnRestart) \/ opt.rotInt > 0      \* O_EXCL, otherwise O_APPEND
Alive       == r.pc # "dead"
At(p)       == r.pc = p

Init == /\ opt \in OptSet
        /\ now = 0 /\ queue = Msgs /\ held = {}
        /\ sig = [term |-> FALSE, hup |-> FALSE, hups |-> 0, frn |-> 0]
        /\ restarts = 0
        /\ r = R0
        /\ \E pre \in SUBSET {n \in PreNames : (opt.workdir \/ n[1] = "o") /\ (HasRev \/ n[3] = 0)} :
              AInit(pre, PreSize)

Env    == <<opt, now, queue, held, sig, restarts>>
Dead   == [R0 EXCEPT !.pc = "dead"]          \* the process is gone: its locals are gone with it
Fatal  == r' = Dead /\ ProcessDeath          \* logf(FATAL) + os.Exit(1)

NeedsRot == \/ r.out = "nil"
            \/ Date(now) # r.fname
            \/ opt.rotInt > 0 /\ now - r.otime > 0       \* time.Since(openTime) > RotateInterval: the clock moved
            \/ opt.rotSize > 0 /\ r.fsize > opt.rotSize

----------------------------------------------------------------------------
(* select *)
SelStop == /\ At("select") /\ r.stop
           /\ r' = [r EXCEPT !.syncF = TRUE, !.closeF = TRUE, !.exitF = TRUE, !.pc = "sync"]
           /\ UNCHANGED <<avars, Env>>
SelTerm == /\ At("select") /\ sig.term
           /\ r' = [r EXCEPT !.termed = TRUE, !.syncF = TRUE, !.pc = "sync"]
           /\ UNCHANGED <<avars, Env>>
SelHup  == /\ At("select") /\ sig.hup
           /\ sig' = [sig EXCEPT !.hup = FALSE]
           /\ r' = [r EXCEPT !.syncF = TRUE, !.closeF = TRUE, !.pc = "sync"]
           /\ UNCHANGED <<avars, opt, now, queue, held, restarts>>
SelTick == /\ At("select") /\ ~r.termed
           /\ r' = IF NeedsRot
                   THEN IF opt.skipEmpty
                        THEN [r EXCEPT !.closeF = TRUE, !.syncF = TRUE, !.pc = "sync"]
                        ELSE [r EXCEPT !.pc = "cl_start", !.ret = "uf", !.ufret = "tick"]
                   ELSE [r EXCEPT !.syncF = TRUE, !.pc = "sync"]
           /\ UNCHANGED <<avars, Env>>
SelMsg(m) == /\ At("select") /\ m \in held
             /\ held' = held \ {m}
             /\ r' = IF NeedsRot
                     THEN [r EXCEPT !.cur = m, !.pc = "cl_start", !.ret = "uf", !.ufret = "msg"]
                     ELSE [r EXCEPT !.cur = m, !.pc = "w_body"]
             /\ UNCHANGED <<avars, opt, now, queue, sig, restarts>>

(* f.Write(m.Body); f.Write("\n") *)
WBody == /\ At("w_body")
         /\ IF r.out = "stale" THEN Fatal
            ELSE r' = [r EXCEPT !.pc = "w_nl"] /\ UNCHANGED avars
         /\ UNCHANGED Env
WNl == /\ At("w_nl")
       /\ LET p2 == Append(r.pending, r.cur) IN
          /\ r' = [r EXCEPT !.pending = p2, !.cur = 0, !.fsize = @ + 1,
                            !.gzbuf = IF opt.gzip THEN Append(@, r.cur) ELSE @,
                            !.syncF = @ \/ Len(p2) = MaxInFlight, !.pc = "sync"]
          /\ IF opt.gzip
             THEN IF r.gzbuf = <<>> THEN FsOpenMember(r.ino)    \* first Write of a member: the gzip header goes out
                                    ELSE UNCHANGED avars
             ELSE FsAppend(r.ino, <<r.cur>>)
       /\ UNCHANGED Env

(* if sync || f.consumer.IsStarved() { if pos > 0 { Sync(); Finish()... }; sync = false } *)
SyncGo   == /\ At("sync") /\ r.pending # <<>>        \* sync flag set, or IsStarved() said so
            /\ r' = [r EXCEPT !.pc = IF opt.gzip THEN "sy_gz" ELSE "sy_fsync"]
            /\ UNCHANGED <<avars, Env>>
SyncSkip == /\ At("sync") /\ (~r.syncF \/ r.pending = <<>>)
            /\ r' = [r EXCEPT !.syncF = FALSE, !.pc = "closechk"]
            /\ UNCHANGED <<avars, Env>>
SyGz     == /\ At("sy_gz")
            /\ r' = [r EXCEPT !.gzbuf = <<>>, !.pc = "sy_fsync"] /\ FsAppend(r.ino, r.gzbuf)
            /\ UNCHANGED Env
SyFsync  == /\ At("sy_fsync")                      \* r.out = "open" here: invariant SyncOnOpenFile
            /\ r' = [r EXCEPT !.pc = "finish"] /\ FsFsync(r.ino)
            /\ UNCHANGED Env
Finish   == /\ At("finish") /\ r.pending # <<>>
            /\ LET n == Len(r.pending) IN
               r' = [r EXCEPT !.finq = @ \cup {r.pending[n]}, !.pending = SubSeq(@, 1, n - 1)]
            /\ UNCHANGED <<avars, Env>>
FinishDone == /\ At("finish") /\ r.pending = <<>>
              /\ r' = [r EXCEPT !.syncF = FALSE, !.pc = "closechk"]
              /\ UNCHANGED <<avars, Env>>
SendFin(m) == /\ Alive /\ m \in r.finq          \* go-nsq writeLoop: "FIN <id>\n" to the socket
              /\ r' = [r EXCEPT !.finq = @ \ {m}]
              /\ Fin(m)
              /\ UNCHANGED Env

CloseChk == /\ At("closechk")
            /\ r' = IF r.closeF THEN [r EXCEPT !.pc = "cl_start", !.ret = "loop"] ELSE [r EXCEPT !.pc = "exitchk"]
            /\ UNCHANGED <<avars, Env>>
ExitChk  == /\ At("exitchk")
            /\ r' = [r EXCEPT !.closeF = FALSE, !.pc = IF r.exitF THEN "done" ELSE "select"]
            /\ UNCHANGED <<avars, Env>>

(* Close() *)
RetPc == IF r.ret = "loop" THEN "exitchk" ELSE "uf_name"
ClStart == /\ At("cl_start")
           /\ r' = IF r.out = "nil" THEN [r EXCEPT !.pc = RetPc, !.ret = "loop"]
                   ELSE [r EXCEPT !.pc = IF opt.gzip THEN "cl_gz" ELSE "cl_fsync"]
           /\ UNCHANGED <<avars, Env>>
ClGz == /\ At("cl_gz")
        /\ IF r.out = "stale" THEN r' = [r EXCEPT !.pc = "cl_fsync"] /\ UNCHANGED avars
           ELSE r' = [r EXCEPT !.gzbuf = <<>>, !.pc = "cl_fsync"] /\ FsAppend(r.ino, r.gzbuf)
        /\ UNCHANGED Env
ClFsync == /\ At("cl_fsync")
           /\ IF r.out = "stale" THEN Fatal
              ELSE r' = [r EXCEPT !.pc = "cl_closefd"] /\ FsFsync(r.ino)
           /\ UNCHANGED Env
ClCloseFd == /\ At("cl_closefd")
             /\ r' = IF opt.workdir THEN [r EXCEPT !.pc = "cl_link", !.lrev = r.oname[3], !.first = TRUE]
                     ELSE [r EXCEPT !.out = "nil", !.pc = RetPc, !.ret = "loop"]
             /\ UNCHANGED <<avars, Env>>
ClLink == /\ At("cl_link")
          /\ LET dst == <<"o", r.oname[2], r.lrev>> IN
             IF dst \in DOMAIN dir                                    \* EEXIST
             THEN /\ r' = [r EXCEPT !.lrev = IF r.first THEN r.rev + 1 ELSE @ + 1, !.first = FALSE]
                  /\ UNCHANGED avars
             ELSE /\ FsLink(r.oname, dst)
                  /\ r' = [r EXCEPT !.pc = "cl_unlink"]
          /\ UNCHANGED Env
ClUnlink == /\ At("cl_unlink")
            /\ FsUnlink(r.oname)
            /\ r' = [r EXCEPT !.out = IF r.first THEN "stale" ELSE "nil", !.pc = RetPc, !.lrev = 0, !.first = FALSE,
                              !.ret = "loop"]
            /\ UNCHANGED Env

(* updateFile() after its Close() *)
UfName == /\ At("uf_name")
          /\ LET d == Date(now) IN
             r' = [r EXCEPT !.rev = IF d # r.fname THEN 0 ELSE @ + 1, !.fname = d, !.otime = now, !.pc = "uf_probe"]
          /\ UNCHANGED <<avars, Env>>
UfProbe == /\ At("uf_probe")
           /\ LET cand == WorkName(r.fname, r.rev) IN
              IF \/ opt.workdir /\ OutName(r.fname, r.rev) \in DOMAIN dir     \* stat of the output name: exists
                 \/ Excl /\ cand \in DOMAIN dir                               \* O_EXCL: EEXIST
              THEN r' = [r EXCEPT !.rev = @ + 1] /\ UNCHANGED avars
              ELSE LET existed == cand \in DOMAIN dir
                       i  == IF existed THEN dir[cand] ELSE NewIno
                       sz == IF existed THEN Len(data[i]) ELSE 0 IN
                   /\ IF existed THEN UNCHANGED avars ELSE FsCreate(cand)
                   /\ r' = IF opt.rotSize > 0 /\ sz > opt.rotSize
                           THEN [r EXCEPT !.out = "open", !.ino = i, !.oname = cand, !.fsize = sz, !.rev = @ + 1]
                           ELSE [r EXCEPT !.out = "open", !.ino = i, !.oname = cand, !.fsize = sz, !.gzbuf = <<>>,
                                          !.syncF = TRUE, !.ufret = "tick",
                                          !.pc = IF r.ufret = "tick" THEN "sync" ELSE "w_body"]
           /\ UNCHANGED Env

----------------------------------------------------------------------------
(* environment.  The router looks at the clock in needsRotation (called from the select branches) and in   *)
(* currentFilename (updateFile), at signals, logChan and StopChan only in the select: environment steps    *)
(* are therefore enabled only at those program counters (they commute with every other router step).       *)
(* Kill and PowerLoss are enabled at EVERY program counter.                                                *)
InFlight == Cardinality(held) + (IF r.cur # 0 THEN 1 ELSE 0) + Len(r.pending) + Cardinality(r.finq)
Deliver(m) == /\ At("select") /\ ~r.termed /\ m \in queue /\ InFlight < MaxInFlight
              /\ queue' = queue \ {m} /\ held' = held \cup {m}
              /\ UNCHANGED <<avars, opt, now, sig, restarts, r>>
Tick == /\ now < MaxNow /\ r.pc \in {"select", "uf_name", "dead"} /\ now' = now + 1
        /\ UNCHANGED <<avars, opt, queue, held, sig, restarts, r>>
SendHup  == /\ At("select") /\ ~sig.hup /\ sig.hups < MaxHups
            /\ sig' = [sig EXCEPT !.hup = TRUE, !.hups = @ + 1]
            /\ UNCHANGED <<avars, opt, now, queue, held, restarts, r>>
SendTerm == /\ At("select") /\ ~sig.term
            /\ sig' = [sig EXCEPT !.term = TRUE]
            /\ UNCHANGED <<avars, opt, now, queue, held, restarts, r>>
\* somebody else creates a file with a colliding name (2 steps of the abstract file system in one: it is not ours)
Foreign(n) == /\ At("select") /\ sig.frn < MaxForeign /\ n \notin DOMAIN dir
              /\ (opt.workdir \/ n[1] = "o") /\ (HasRev \/ n[3] = 0)
              /\ LET i == NewIno IN
                 /\ dir'  = dir  @@ (n :> i)
                 /\ data' = data @@ (i :> [k \in 1..PreSize |-> 0 - i])
                 /\ dur'  = dur  @@ (i :> PreSize)
                 /\ tail' = tail @@ (i :> "clean")
              /\ sig' = [sig EXCEPT !.frn = @ + 1]
              /\ UNCHANGED <<fin, epoch, opt, now, queue, held, restarts, r>>
\* consumer.StopChan: all connections gone after CLS (or the 30 s give-up timer)
StopClose == /\ At("select") /\ r.termed /\ ~r.stop
             /\ r' = [r EXCEPT !.stop = TRUE]
             /\ UNCHANGED <<avars, Env>>
\* when the process dies nsqd re-queues everything it had in flight (after msg-timeout)
Gone == /\ r' = Dead /\ queue' = Msgs \ fin /\ held' = {}
        /\ sig' = [sig EXCEPT !.term = FALSE, !.hup = FALSE]
        /\ UNCHANGED <<opt, now, restarts>>
Exit == /\ At("done") /\ Gone /\ ProcessDeath
Kill == /\ Alive /\ r.pc # "done" /\ Gone /\ ProcessDeath
\* fsync reports an error (EIO; ENOSPC / EDQUOT on some filesystems): nothing was made durable, the tool logs FATAL and
\* exits without acknowledging the batch -- the same step as a kill at that point, named because the harness injects it
FsyncFails == /\ r.pc \in {"sy_fsync", "cl_fsync"} /\ Gone /\ ProcessDeath
PowerLossStep == /\ epoch < MaxPower
                 /\ PowerLoss
                 /\ Gone
Restart == /\ At("dead") /\ restarts < MaxRestarts
           /\ restarts' = restarts + 1
           /\ r' = R0
           /\ queue' = Msgs \ fin /\ held' = {}
           /\ UNCHANGED <<avars, opt, now, sig>>

Next == \/ SelStop \/ SelTerm \/ SelHup \/ SelTick \/ \E m \in Msgs : SelMsg(m)
        \/ WBody \/ WNl \/ SyncGo \/ SyncSkip \/ SyGz \/ SyFsync \/ Finish \/ FinishDone
        \/ \E m \in Msgs : SendFin(m)
        \/ CloseChk \/ ExitChk \/ ClStart \/ ClGz \/ ClFsync \/ ClCloseFd \/ ClLink \/ ClUnlink
        \/ UfName \/ UfProbe
        \/ \E m \in Msgs : Deliver(m)
        \/ \E n \in ForeignNames : Foreign(n)
        \/ Tick \/ SendHup \/ SendTerm \/ StopClose \/ Exit \/ Kill \/ FsyncFails \/ PowerLossStep \/ Restart

Spec == Init /\ [][Next]_vars

----------------------------------------------------------------------------
RevBound == r.rev <= MaxRev /\ r.lrev <= MaxRev

TypeOK == /\ r.pc \in Pcs /\ r.out \in {"nil", "open", "stale"}
          /\ Range(r.pending) \subseteq Msgs /\ r.finq \subseteq Msgs /\ fin \subseteq Msgs
          /\ held \subseteq Msgs /\ queue \subseteq Msgs
          /\ InFlight <= MaxInFlight

\* what the router relies on between Write and Finish: everything in the pending batch and everything
\* whose Finish() has been called is at least written (readable or in the open gzip member) / fsynced
FinqIsDurable == Alive => \A m \in r.finq : \E n \in DOMAIN dir : DurablyIn(m, dir[n])

\* Sync() is only ever reached with a file that is really open (a batch is pending only after a Write)
SyncOnOpenFile == r.pc \in {"sy_gz", "sy_fsync", "w_nl"} => r.out = "open"

\* no message is ever in two places of the pipeline, none disappears from it
Custody == \A m \in Msgs :
             Cardinality({x \in {"q", "h", "c", "p", "f"} :
                \/ x = "q" /\ m \in queue
                \/ x = "h" /\ m \in held
                \/ x = "c" /\ r.cur = m
                \/ x = "p" /\ m \in Range(r.pending)
                \/ x = "f" /\ m \in r.finq}) <= 1

(* binding A: the (options, program counter) pairs at which the process can be killed *)
OptCode == <<opt.gzip, opt.workdir, opt.skipEmpty, opt.rotSize, opt.rotInt>>
KillPoints ==
  IF r'.pc = "dead" /\ r.pc \notin {"dead", "done"} /\ epoch' = epoch
  THEN LET p == <<OptCode, r.pc>> IN
       IF p \in TLCGet(3) THEN TRUE ELSE PrintT(<<"KILLPT", p>>) /\ TLCSet(3, TLCGet(3) \cup {p})
  ELSE TRUE
InitK == TLCSet(3, {}) /\ Init
SpecK == InitK /\ [][Next]_vars
=============================================================================
