----------------------------- MODULE DelayTable -----------------------------
(***************************************************************************)
(* C04 (range part): how nsqd treats every way of writing a delay, on      *)
(* REQ <id> <ms>, DPUB <topic> <ms> and POST /pub?defer=<ms>.  Numbers are *)
(* classified by how they are written and how large they are relative to   *)
(* max-req-timeout and the 64-bit limits (TLC integers are 32 bit, and the *)
(* point is precisely the behaviour beyond 2^63): the table is total over  *)
(* classes; the replayer substitutes several concrete spellings per class. *)
(***************************************************************************)
EXTENDS Integers, FiniteSets, TLC

Cmds == {"REQ", "DPUB", "HTTP"}

\* form: how it is written;  mag: magnitude class of the digits
Forms == {"digits",       \* ASCII digits only (leading zeros allowed)
          "empty",        \* nothing at all
          "plus",         \* "+" followed by digits
          "minus",        \* "-" followed by digits
          "junk"}         \* anything else: letters, ".", "e", hex, spaces, non-ASCII digits
Mags == {"zero", "low", "max", "over", "over63", "over64", "beyond"}
\* zero: 0            low: 1..max-1        max: max-req-timeout exactly      over: max+1 .. 2^63/10^6 (fits a Duration)
\* over63: ms count whose nanosecond value exceeds 2^63-1 but which is < 2^63 itself (wrapped to a small value before the fix)
\* over64: 2^63 .. 2^64-1      beyond: >= 2^64 (wrapped inside ByteToBase10 before the fix)

Classes == {[form |-> f, mag |-> m] : f \in {"digits", "plus", "minus"}, m \in Mags}
             \cup {[form |-> "empty", mag |-> "zero"], [form |-> "junk", mag |-> "zero"]}

InRange(c) == c.mag \in {"zero", "low", "max"}

\* outcome: [res, delay]   res: "ok" | "E_INVALID" (fatal, connection closed) | "400";  delay: "none" | "zero" | "asis" | "max"
Outcome(cmd, c) ==
  CASE cmd \in {"REQ", "DPUB"} /\ c.form \in {"plus", "minus", "junk"} -> [res |-> "E_INVALID", delay |-> "none"]
    [] cmd \in {"REQ", "DPUB"} /\ c.form = "empty"                      -> [res |-> "ok", delay |-> "zero"]
    [] cmd \in {"REQ", "DPUB"} /\ c.mag = "beyond"                      -> [res |-> "E_INVALID", delay |-> "none"]
    [] cmd = "REQ" /\ InRange(c)                                        -> [res |-> "ok", delay |-> IF c.mag = "zero" THEN "zero" ELSE "asis"]
    [] cmd = "REQ"                                                      -> [res |-> "ok", delay |-> "max"]        \* clamped
    [] cmd = "DPUB" /\ InRange(c)                                       -> [res |-> "ok", delay |-> IF c.mag = "zero" THEN "zero" ELSE "asis"]
    [] cmd = "DPUB"                                                     -> [res |-> "E_INVALID", delay |-> "none"]
    [] cmd = "HTTP" /\ c.form \in {"junk", "empty"}                     -> [res |-> "400", delay |-> "none"]
    [] cmd = "HTTP" /\ c.form = "minus" /\ c.mag # "zero"               -> [res |-> "400", delay |-> "none"]
    [] cmd = "HTTP" /\ c.form = "minus"                                 -> [res |-> "ok", delay |-> "zero"]      \* "-0"
    [] cmd = "HTTP" /\ InRange(c)                                       -> [res |-> "ok", delay |-> IF c.mag = "zero" THEN "zero" ELSE "asis"]
    [] cmd = "HTTP"                                                     -> [res |-> "400", delay |-> "none"]

VARIABLE row
Init == row \in {[cmd |-> cmd, c |-> c] : cmd \in Cmds, c \in Classes}
Next == UNCHANGED row
Spec == Init /\ [][Next]_row

O == Outcome(row.cmd, row.c)
\* the statement's clauses
RequeueNeverAboveMax   == (row.cmd = "REQ" /\ O.res = "ok") => O.delay \in {"zero", "asis", "max"} /\ (O.delay = "asis" => InRange(row.c))
ClampsExactlyWhenAbove == (row.cmd = "REQ" /\ row.c.form = "digits" /\ row.c.mag \in {"over", "over63", "over64"}) => O.delay = "max"
DeferredAcceptedIffInRange ==
   (row.cmd \in {"DPUB", "HTTP"} /\ row.c.form = "digits") => ((O.res = "ok") <=> InRange(row.c))
NothingAcceptedUnclassified == O.res = "ok" => O.delay # "none"
Emit == PrintT(<<"ROW", row.cmd, row.c.form, row.c.mag, O.res, O.delay>>)
=============================================================================
