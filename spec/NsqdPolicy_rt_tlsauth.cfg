\* replay family tlsauth (thorough): depth 4
SPECIFICATION Spec
CONSTANTS
  Policies <- AuthTlsPolicies
  Cmds <- TlsAuthCmds4
  AnswersA <- SmallAnswers
  AnswersR <- SmallAnswers
  Waits = {0, 3}
  MaxDepth = 4
  MaxNow = 18
  HttpReqs <- NoHttp
INVARIANTS TypeOK PropertyLevel PlainHttpServed RefetchIffExpired QueryCountLaw CodeStricter NeverOnExpiry EmitBehaviour
CHECK_DEADLOCK FALSE
