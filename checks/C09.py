"""C09 -- nsqd TCP protocol: every input gets its defined answer; limits hold (spec: NsqdTcp, NsqdTcpTrace)."""
import glob
import hashlib
import json
import os
import re
from vlib import Inconclusive, log

META = {
    "technique": "TLC checks the total per-state command table of NsqdTcp.tla (TableTotal, FatalClosesOnlySelf, "
                 "RejectedPublishEnqueuesNothing, StateMonotone, LimitsHold) and enumerates every command-class sequence "
                 "to the configured depth; each sequence is concretised (boundary + seeded members per argument class, "
                 "for seeded daemon limits) and replayed over real TCP against in-process nsqd daemons with a bystander "
                 "client (publishes to a topic that is being deleted: DeleteExistingTopic is parked at the verif yield "
                 "point between topic.Delete() and the unlink); seeded mutated / garbage byte streams are classified and validated by TLC against the same "
                 "table (NsqdTcpTrace.tla)",
    "design_ref": "5/C09",
}


def _replay_path(ctx, name, obj):
    return ctx.save_replay(name, obj)


def _report(ctx, kind, rep):
    """Turn the harness report lists into verdicts."""
    for m in rep.get("violations") or []:
        row = re.sub(r"\s+", " ", m.get("row", ""))
        key = "%s %s" % (m["kind"], row)
        if "| IDENTIFY obs " in row and re.search(r"zip=(snappy|deflate)", row):
            # one defect, many table rows: SetOutputBuffer rebuilds the writer on the raw connection
            key = "identify output_buffer_size on an upgraded connection"
        seen = ctx.notes.setdefault("violation_keys", {})
        seen[key] = seen.get(key, 0) + 1
        if seen[key] > 1:
            continue        # one report (and one replay file) per key; the count is in the evidence notes
        ctx.violation("%s: real nsqd broke the protocol table: [%s] %s -- %s" % (kind, m["kind"], m.get("row", ""), m["what"]),
                      _replay_path(ctx, "%s-%s-%s" % (kind, m["kind"], hashlib.md5(key.encode()).hexdigest()[:8]), m), key=key)
    for m in rep.get("drift") or []:
        ctx.drift("%s: [%s] %s -- %s" % (kind, m["kind"], m.get("row", ""), m["what"]))
    unre = rep.get("unreproduced") or []
    if unre:
        ctx.notes.setdefault("unreproduced_mismatches", []).extend(
            [{"kind": m["kind"], "row": m.get("row"), "what": m["what"][:300]} for m in unre[:10]])
    inc = rep.get("inconclusive") or []
    return inc


def _table(ctx, tag):
    """Exhaustive TLC run of one configuration + its transition table.  Returns (rows file, #sequences)."""
    # the design: the table is total, a fatal answer closes only this connection, a rejected publish
    # enqueues nothing, the state only moves forward, acceptance == inside the limits; every
    # command-class sequence to the configured depth is a behaviour (one distinct state each)
    r = ctx.model_check("NsqdTcp", "NsqdTcp_%s.cfg" % tag, timeout=2400)
    rr = ctx.tlc("NsqdTcpRows", "NsqdTcp_rows_%s.cfg" % tag, workers=1, timeout=900, label="rows")
    if rr.crashed or not rr.ok:
        raise Inconclusive("row dump failed:\n" + rr.out[-2000:])
    lines = [l.strip() for l in rr.out.splitlines() if l.startswith('"ROW ') or l.startswith('"SETUP ')]
    nrows = sum(1 for l in lines if l.startswith('"ROW '))
    if nrows < 1000:
        raise Inconclusive("only %d table rows extracted" % nrows)
    rows = os.path.join(ctx.scratch, "table-%s.txt" % tag)
    with open(rows, "w") as f:
        f.write("\n".join(lines) + "\n")
    ctx.notes["table_rows"] = nrows
    return rows, r.distinct


def _inflight(ctx):
    """Sequences that were publishing to a topic whose deletion was parked when the harness process died
    (harness/cmd/api09/dying.go Breadcrumb): the files are removed when such a sequence ends."""
    out = []
    for p in sorted(glob.glob(os.path.join(ctx.scratch, "dying-inflight-*.json")))[:20]:
        try:
            out.append(json.load(open(p)))
        except Exception:
            pass
    return out


def _replay(ctx, rows, sequences_tlc, label, extra, timeout):
    """Binding A: replay the sequences of one configuration against real daemons."""
    rep = os.path.join(ctx.scratch, "replay-%s.json" % label)
    for p in glob.glob(os.path.join(ctx.scratch, "dying-inflight-*.json")):
        os.unlink(p)
    args = ["replay", "--rows", rows, "--seed", ctx.seed, "--report", rep, "--scratch", ctx.scratch] + extra
    rc, out, err = ctx.run_harness(args, timeout=timeout, name="api09")
    log(out.strip()[-400:])
    if not os.path.exists(rep):
        if "panic:" in err and "nsqio/nsq/nsqd" in err and "verifharness" not in err.split("panic:")[1][:1500]:
            # an uncaught panic in a daemon goroutine (e.g. a connection's IOLoop) takes the whole harness
            # process down: no report; the trace is on stderr
            fl = _inflight(ctx)
            p = ctx.save_replay("daemon-crash", {"stderr": err[-8000:], "publishing_to_a_topic_being_deleted": fl})
            hint = ""
            if fl:
                hint = "\nin flight at that moment (publish to a topic whose deletion was parked half-way): " + "; ".join(
                    "sequence %s [%s] %s" % (f.get("sequence"), f.get("env"), " / ".join(x.get("cmd", "") for x in f.get("steps", [])))
                    for f in fl[:4])
            ctx.violation("in-process nsqd panicked while the sequences were replayed:\n" + err[-1500:] + hint, p, key="daemon panic")
            return []
        raise Inconclusive("api09 replay failed (rc %s):\n%s" % (rc, (out + err)[-3000:]))
    R = json.load(open(rep))
    if R["nodes"] != sequences_tlc:
        raise Inconclusive("the replayer walked %d nodes, TLC enumerated %d sequences: table and enumeration out of sync"
                           % (R["nodes"], sequences_tlc))
    ctx.cov["evaluations"] += R["commands"]
    ctx.cov["distinct_nontrivial"] += R["replayed"]
    ctx.notes["replay_" + label] = {k: R[k] for k in ("sequences", "replayed", "runs", "commands", "rows_covered",
                                                       "slow_req_checks", "dying_rows", "wall_s", "bystander", "limits")}
    # rows of the name class "dying" (publish to a topic whose deletion is parked half-way) in the table, and
    # how many such publishes were sent to and judged on a real daemon while the deletion was parked
    dying_table = sum(1 for l in open(rows) if l.startswith('"ROW ') and re.search(r"\| (PUB|MPUB|DPUB) dying ", l))
    ctx.notes["dying_topic_" + label] = {"table_rows": dying_table, "publishes_replayed": R["dying_rows"]}
    if dying_table and not R["dying_rows"] and not (R.get("violations") or R.get("inconclusive")):
        raise Inconclusive("the table has %d rows for a publish to a topic being deleted, none was exercised" % dying_table)
    for s in (R.get("samples") or [])[:3]:
        ctx.sample({"replayed_sequence": s})
    return _report(ctx, "replay", R)


def run(ctx):
    quick = ctx.quick
    # quick: every sequence of NsqdTcp_mc.cfg is replayed.  thorough: those, every pair of classes
    # (NsqdTcp_fine.cfg, PrefixFine), plus a seeded third of the ten times larger NsqdTcp_thorough.cfg.
    rows, n = _table(ctx, "mc")
    inc = _replay(ctx, rows, n, "mc", ["--workers", 12, "--big-every", 12, "--default-every", 40], 3600)
    ctx.cov["exhaustive"] = True
    if not quick:
        rows_f, n_f = _table(ctx, "fine")     # every class at both positions of a pair
        inc += _replay(ctx, rows_f, n_f, "fine", ["--prefix-fine", "--workers", 14, "--big-every", 12, "--default-every", 40], 7200)
        rows_t, n_t = _table(ctx, "thorough")
        inc += _replay(ctx, rows_t, n_t, "thorough", ["--workers", 14, "--big-every", 25, "--default-every", 60,
                                                      "--sample-mod", 3, "--sample-rem", ctx.seed % 3], 10800)
        ctx.cov["exhaustive"] = False
        ctx.notes["thorough_sampling"] = "every sequence of the quick and the all-pairs configuration; index %% 3 == %d of the thorough one" % (ctx.seed % 3)

    # 4. binding B: seeded byte streams -> classified events -> TLC against the table
    inc += run_streams(ctx, rows)
    # 5. well-formed PUBs on connections that are being sent messages at the same time (every 53rd with its size field in two
    #    pieces): each is answered OK and enqueues exactly its body
    import corelib
    corelib.pub_while_consuming(ctx, feats=[""] if quick else ["", "", "snappy", ""])

    ctx.cov["rule"] = ("evaluations = commands sent to a real nsqd over TCP; a case is one command-class sequence of the "
                       "bounded model (distinct by its classes; all are non-trivial: each ends in a class whose outcome "
                       "is compared) plus one per distinct classified byte stream")
    ctx.assumptions += [
        "argument classes partition the inputs by the daemon's branch conditions; the harness concretiser "
        "(harness/cmd/api09/wire.go) is trusted to produce members of the class it names",
        "TLS not required, auth disabled (C11 covers the policies); IDENTIFY is not repeated on a compressed connection",
        "non-final positions of a sequence use one representative class per distinct outcome/effect (Core) unless PrefixFine",
        "deliveries to the connection under test are predicted only without sample_rate; timing of deliveries is not judged",
        "a zero-length numeric parameter parses as 0 (the code's behaviour, not flagged)",
    ]
    if inc and not ctx.violations:
        raise Inconclusive("; ".join("[%s] %s %s" % (m["kind"], m.get("row", ""), m["what"][:200]) for m in inc[:5]))


def run_streams(ctx, rows):
    quick = ctx.quick
    trace = os.path.join(ctx.scratch, "streams.ndjson")
    rep = os.path.join(ctx.scratch, "streams.json")
    args = ["fuzz", "--rows", rows, "--seed", ctx.seed, "--out", trace, "--report", rep, "--scratch", ctx.scratch,
            "--streams", 2000 if quick else 30000]
    rc, out, err = ctx.run_harness(args, timeout=1800 if quick else 7200, name="api09")
    log(out.strip()[-400:])
    if not os.path.exists(rep):
        if "panic:" in err and "nsqio/nsq/nsqd" in err and "verifharness" not in err.split("panic:")[1][:1500]:
            p = ctx.save_replay("daemon-crash", {"stderr": err[-8000:]})
            ctx.violation("in-process nsqd panicked on a generated byte stream:\n" + err[-1500:], p, key="daemon panic")
            return []
        raise Inconclusive("api09 fuzz failed (rc %s):\n%s" % (rc, (out + err)[-3000:]))
    F = json.load(open(rep))
    ctx.cov["evaluations"] += F["commands"]
    ctx.cov["distinct_nontrivial"] += F["distinct_streams"]
    ctx.notes["streams"] = {k: F[k] for k in ("streams", "distinct_streams", "commands", "kinds", "bystander") if k in F}
    for s in (F.get("samples") or [])[:4]:
        ctx.sample({"stream": s})
    inc = _report(ctx, "stream", F)
    ctx.validate_trace("NsqdTcpTrace", "NsqdTcpTrace.cfg", trace, F["traces"], "streams", timeout=3000)
    return inc
