----------------------------- MODULE GuidProof -----------------------------
(***************************************************************************)
(* C12 without bounds: one generator of nsqd/guid.go (the per-node state is *)
(* independent, the node id is a constant field of every id), the clock is  *)
(* ANY natural number at every call -- it may stand still, run, or jump     *)
(* back arbitrarily far --, the sequence mask is any positive number and    *)
(* there is no limit on the number of calls.  Ids are pairs <<tick, seq>>    *)
(* in lexicographic order (the order of the packed 64-bit value).           *)
(*                                                                         *)
(* Proved with TLAPS (not model-checked): the high-water mark dominates     *)
(* everything ever issued, so a successful call returns an id strictly      *)
(* above every id handed out before -- no reuse, strictly increasing --,    *)
(* and a failing call changes nothing a caller can observe.                 *)
(***************************************************************************)
EXTENDS Integers, TLAPS

CONSTANT SeqMask
ASSUME MaskPos == SeqMask \in Nat /\ SeqMask > 0

VARIABLES clock, lastTs, sq, lastId, err, rid, issued
vars == <<clock, lastTs, sq, lastId, err, rid, issued>>

Id == Nat \X Nat
Less(a, b) == a[1] < b[1] \/ (a[1] = b[1] /\ a[2] < b[2])
Leq(a, b) == a = b \/ Less(a, b)
Zero == <<0, 0>>

Init == /\ clock \in Nat /\ lastTs = 0 /\ sq = 0 /\ lastId = Zero
        /\ err = "none" /\ rid = Zero /\ issued = {}

\* the clock is the environment's
ClockMoves == /\ clock' \in Nat
              /\ UNCHANGED <<lastTs, sq, lastId, err, rid, issued>>

S1 == IF lastTs = clock THEN (sq + 1) % (SeqMask + 1) ELSE 0

\* guidFactory.NewGUID at clock reading `clock`
Backwards == /\ clock < lastTs
             /\ err' = "backwards" /\ rid' = Zero
             /\ UNCHANGED <<clock, lastTs, sq, lastId, issued>>
Expired   == /\ clock >= lastTs /\ lastTs = clock /\ S1 = 0
             /\ err' = "expired" /\ rid' = Zero /\ sq' = 0
             /\ UNCHANGED <<clock, lastTs, lastId, issued>>
IdBack    == /\ clock >= lastTs /\ ~(lastTs = clock /\ S1 = 0)
             /\ Leq(<<clock, S1>>, lastId)
             /\ err' = "idbackwards" /\ rid' = <<clock, S1>>
             /\ sq' = S1 /\ lastTs' = clock
             /\ UNCHANGED <<clock, lastId, issued>>
Issue     == /\ clock >= lastTs /\ ~(lastTs = clock /\ S1 = 0)
             /\ ~Leq(<<clock, S1>>, lastId)
             /\ err' = "" /\ rid' = <<clock, S1>>
             /\ sq' = S1 /\ lastTs' = clock /\ lastId' = <<clock, S1>>
             /\ issued' = issued \cup {<<clock, S1>>}
             /\ UNCHANGED clock

NewGUID == Backwards \/ Expired \/ IdBack \/ Issue
Next == ClockMoves \/ NewGUID
Spec == Init /\ [][Next]_vars

TypeOK == /\ clock \in Nat /\ lastTs \in Nat /\ sq \in Nat /\ lastId \in Id
          /\ rid \in Id /\ issued \subseteq Id
HighWater == \A i \in issued : Leq(i, lastId)
Inv == TypeOK /\ HighWater

\* what a caller relies on, as a property of every step
StrictStep == (err' = "" /\ issued' # issued) =>
                 /\ \A i \in issued : Less(i, rid')          \* above everything ever handed out
                 /\ rid' \notin issued                        \* in particular never handed out before
ErrStep    == (err' \notin {"", "none"}) => issued' = issued /\ lastId' = lastId

LEMMA S1Type == TypeOK => S1 \in Nat
  BY MaskPos DEF TypeOK, S1

LEMMA LessTrans == \A a, b, c \in Id : Leq(a, b) /\ Less(b, c) => Less(a, c)
  BY DEF Id, Leq, Less

LEMMA NotLeq == \A a, b \in Id : ~Leq(a, b) => Less(b, a)
  BY DEF Id, Leq, Less

THEOREM InvHolds == Spec => []Inv
<1>1. Init => Inv
  BY DEF Init, Inv, TypeOK, HighWater, Id, Zero
<1>2. Inv /\ [Next]_vars => Inv'
  <2> SUFFICES ASSUME Inv, [Next]_vars PROVE Inv'
    OBVIOUS
  <2>1. CASE ClockMoves
    BY <2>1 DEF ClockMoves, Inv, TypeOK, HighWater
  <2>2. CASE Backwards
    BY <2>2 DEF Backwards, Inv, TypeOK, HighWater, Id, Zero
  <2>3. CASE Expired
    BY <2>3 DEF Expired, Inv, TypeOK, HighWater, Id, Zero
  <2>4. CASE IdBack
    BY <2>4, S1Type DEF IdBack, Inv, TypeOK, HighWater, Id
  <2>5. CASE Issue
    <3>1. <<clock, S1>> \in Id
      BY S1Type DEF Inv, TypeOK, Id
    <3>2. Less(lastId, <<clock, S1>>)
      BY <2>5, <3>1, NotLeq DEF Issue, Inv, TypeOK
    <3>3. TypeOK'
      <4>1. S1 \in Nat
        BY S1Type DEF Inv
      <4>2. issued' \subseteq Id
        BY <2>5, <3>1 DEF Issue, Inv, TypeOK
      <4> QED BY <2>5, <3>1, <4>1, <4>2 DEF Issue, Inv, TypeOK
    <3>4. HighWater'
      <4> SUFFICES ASSUME NEW i \in issued' PROVE Leq(i, lastId')
        BY DEF HighWater
      <4>1. CASE i \in issued
        BY <4>1, <2>5, <3>1, <3>2, LessTrans DEF Issue, Inv, TypeOK, HighWater, Leq
      <4>2. CASE i = <<clock, S1>>
        BY <4>2, <2>5 DEF Issue, Leq
      <4> QED BY <4>1, <4>2, <2>5 DEF Issue
    <3> QED BY <3>3, <3>4 DEF Inv
  <2>6. CASE UNCHANGED vars
    BY <2>6 DEF vars, Inv, TypeOK, HighWater
  <2> QED BY <2>1, <2>2, <2>3, <2>4, <2>5, <2>6 DEF Next, NewGUID
<1> QED BY <1>1, <1>2, PTL DEF Spec

THEOREM Strict == Inv /\ [Next]_vars => StrictStep
<1> SUFFICES ASSUME Inv, [Next]_vars, err' = "", issued' # issued
             PROVE (\A i \in issued : Less(i, rid')) /\ rid' \notin issued
  BY DEF StrictStep
<1>1. Issue
  BY DEF Next, NewGUID, ClockMoves, Backwards, Expired, IdBack, vars
<1>2. <<clock, S1>> \in Id
  BY S1Type DEF Inv, TypeOK, Id
<1>3. Less(lastId, <<clock, S1>>)
  BY <1>1, <1>2, NotLeq DEF Issue, Inv, TypeOK
<1>4. \A i \in issued : Less(i, rid')
  BY <1>1, <1>2, <1>3, LessTrans DEF Issue, Inv, TypeOK, HighWater
<1>5. rid' \notin issued
  <2> SUFFICES ASSUME rid' \in issued PROVE FALSE
    OBVIOUS
  <2>1. Less(rid', rid')
    BY <1>4
  <2> QED BY <2>1, <1>1, <1>2 DEF Less, Issue, Id
<1> QED BY <1>4, <1>5

THEOREM Errs == [Next]_vars => ErrStep
  BY DEF Next, NewGUID, ClockMoves, Backwards, Expired, IdBack, Issue, ErrStep, vars
=============================================================================
