package main

import (
	"bytes"
	"encoding/json"
	"flag"
	"fmt"
	"io"
	"math/rand"
	"net"
	"net/http"
	"os"
	"time"
)

// cfgseq: sequences of PUT /config/nsqlookupd_tcp_addresses with lists of 0..4 addresses (growing, shrinking by one or by
// several, reordered, repeated, swapped), interleaved with log_level changes.  Every request is answered 200, a GET
// returns what was put, and the daemon goes on answering (C10: "no request can take the daemon down"; the option is
// applied by the lookup loop, outside the HTTP handlers).  The addresses are listeners that hang up at once.
func init() { subcmds["cfgseq"] = cfgseqCmd }

func cfgseqCmd(args []string) int {
	fs := flag.NewFlagSet("cfgseq", flag.ExitOnError)
	rep := fs.String("report", "report.json", "report")
	scratch := fs.String("scratch", "", "scratch dir")
	seed := fs.Int64("seed", 1, "seed")
	rounds := fs.Int("rounds", 60, "number of PUTs")
	fs.Parse(args)
	rng := rand.New(rand.NewSource(*seed))
	out := map[string]interface{}{"requests": 0, "violations": []map[string]string{}, "inconclusive": []string{}}
	write := func() int {
		b, _ := json.Marshal(out)
		os.WriteFile(*rep, b, 0644)
		if len(out["violations"].([]map[string]string)) > 0 {
			return 1
		}
		return 0
	}
	var addrs []string
	for i := 0; i < 4; i++ {
		ln, err := net.Listen("tcp", "127.0.0.1:0")
		if err != nil {
			out["inconclusive"] = []string{err.Error()}
			return write()
		}
		defer ln.Close()
		go func() {
			for {
				c, err := ln.Accept()
				if err != nil {
					return
				}
				c.Close() // refused at once: the lookup loop is not held up and sees every configuration

			}
		}()
		addrs = append(addrs, ln.Addr().String())
	}
	d, err := startDaemon(*scratch, 1024, 4096, time.Second)
	if err != nil {
		out["inconclusive"] = []string{err.Error()}
		return write()
	}
	defer d.Stop()
	hc := &http.Client{Timeout: 10 * time.Second}
	viol := func(key, what string) {
		out["violations"] = append(out["violations"].([]map[string]string), map[string]string{"key": key, "what": what})
	}
	put := func(path string, body []byte) (int, error) {
		rq, _ := http.NewRequest("PUT", "http://"+d.HTTPAddr+path, bytes.NewReader(body))
		resp, err := hc.Do(rq)
		if err != nil {
			return 0, err
		}
		io.Copy(io.Discard, resp.Body)
		resp.Body.Close()
		return resp.StatusCode, nil
	}
	cur := []string{}
	n := 0
	for i := 0; i < *rounds; i++ {
		var next []string
		switch rng.Intn(6) {
		case 0:
			next = []string{} // everything goes at once
		case 1:
			next = append([]string{}, addrs[:1+rng.Intn(4)]...)
		case 2: // drop several from the front / the middle
			for j, a := range cur {
				if j%2 == 1 {
					next = append(next, a)
				}
			}
		case 3: // reorder
			next = append([]string{}, cur...)
			rng.Shuffle(len(next), func(a, b int) { next[a], next[b] = next[b], next[a] })
		case 4: // swap to the other addresses
			for _, a := range addrs {
				found := false
				for _, c := range cur {
					if c == a {
						found = true
					}
				}
				if !found {
					next = append(next, a)
				}
			}
		default:
			next = append([]string{}, addrs...)
		}
		if next == nil {
			next = []string{}
		}
		body, _ := json.Marshal(next)
		st, err := put("/config/nsqlookupd_tcp_addresses", body)
		n++
		if err != nil || st != 200 {
			viol("cfgseq-put", fmt.Sprintf("PUT /config/nsqlookupd_tcp_addresses %s (after %v) was answered %d %v", body, cur, st, err))
			break
		}
		cur = next
		if rng.Intn(3) == 0 {
			put("/config/log_level", []byte([]string{"debug", "info", "warn"}[rng.Intn(3)]))
			n++
		}
		time.Sleep(time.Duration(15+rng.Intn(30)) * time.Millisecond) // the lookup loop applies it
		resp, err := hc.Get("http://" + d.HTTPAddr + "/config/nsqlookupd_tcp_addresses")
		n++
		if err != nil {
			viol("cfgseq-alive", fmt.Sprintf("after PUT /config/nsqlookupd_tcp_addresses %s the daemon does not answer: %v", body, err))
			break
		}
		b, _ := io.ReadAll(resp.Body)
		resp.Body.Close()
		var got []string
		if json.Unmarshal(b, &got); fmt.Sprint(got) != fmt.Sprint(cur) && !(len(got) == 0 && len(cur) == 0) {
			viol("cfgseq-readback", fmt.Sprintf("GET /config/nsqlookupd_tcp_addresses returns %s after PUT %s", b, body))
			break
		}
	}
	time.Sleep(100 * time.Millisecond)
	if resp, err := hc.Get("http://" + d.HTTPAddr + "/ping"); err != nil || resp.StatusCode != 200 {
		viol("cfgseq-alive", fmt.Sprintf("the daemon does not answer /ping after %d configuration requests: %v", n, err))
	} else {
		resp.Body.Close()
	}
	out["requests"] = n
	return write()
}
