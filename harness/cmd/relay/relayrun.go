package main

import (
	"bufio"
	"bytes"
	"encoding/binary"
	"encoding/hex"
	"encoding/json"
	"flag"
	"fmt"
	"io"
	"math/rand"
	"net"
	"net/http"
	"os"
	"os/exec"
	"path/filepath"
	"strings"
	"sync"
	"syscall"
	"time"

	"github.com/nsqio/nsq/nsqd"
	"github.com/nsqio/nsq/verifharness/hlib"
)

// Binding B for spec/Relay*.tla.  Per scenario: K messages with pairwise different bodies wait in a channel of a
// real source nsqd; the REAL nsq_to_nsq / nsq_to_http binary consumes them through a logging TCP proxy (every
// message frame with id -> body, every FIN / REQ with its id) and forwards them to fake destinations that play a
// TLC-generated schedule (A accept, R definite refusal, L lost, D down) and then accept for ever.  All
// observations go into one totally ordered event log per scenario (taken under one mutex; an acceptance is
// logged BEFORE the OK is written, a FIN when it is read from the relay, so "FIN before its acceptance" cannot
// be an artefact of logging).

func init() { subcmds["relay"] = relayRun }

type rlScenario struct {
	ID        string     `json:"id"`
	Tool      string     `json:"tool"`   // nsq_to_nsq | nsq_to_http
	Mode      string     `json:"mode"`   // round-robin | hostpool | epsilon-greedy
	Method    string     `json:"method"` // post | get (nsq_to_http)
	NDest     int        `json:"ndest"`
	Sched     [][]string `json:"sched"`
	NMsgs     int        `json:"nmsgs"`
	Backoff   bool       `json:"backoff"`
	Filter    string     `json:"filter"` // "" | require | whitelist | sample
	LongStall bool       `json:"long_stall"`
	TermMid   bool       `json:"term_mid"` // the tool is told to stop (SIGTERM) while a destination keeps a request of its waiting
	Defaults  bool       `json:"defaults"` // leave go-nsq's max_attempts at its default (probe, not judged)
	Seed      int64      `json:"seed"`
}

type rlJob struct {
	Bins      map[string]string `json:"bins"`
	Seed      int64             `json:"seed"`
	Workers   int               `json:"workers"`
	DeadlineS int               `json:"deadline_s"`
	Scenarios []rlScenario      `json:"scenarios"`
}

type rlEvent struct {
	Ev   string `json:"ev"`
	M    int    `json:"m,omitempty"`
	D    int    `json:"d,omitempty"`
	K    string `json:"k,omitempty"`  // Fail: down | lost | hang
	Sh   string `json:"sh,omitempty"` // Accept: how the relay's code reads the answer (A | R)
	Info string `json:"info,omitempty"`
}

type rlResult struct {
	ID           string     `json:"id"`
	Scenario     rlScenario `json:"scenario"`
	Concrete     [][]string `json:"concrete_schedule"`
	Events       []rlEvent  `json:"events"`
	Quiescence   string     `json:"quiescence"` // strict | settled | none
	Terminated   bool       `json:"terminated_mid_request,omitempty"`
	Violations   []string   `json:"violations"`
	Drift        []string   `json:"drift"`
	Inconclusive string     `json:"inconclusive,omitempty"`
	Stderr       string     `json:"stderr_tail,omitempty"`
	WallMs       int64      `json:"wall_ms"`
	Delivered    int        `json:"delivered"`
	Fins         int        `json:"fins"`
	Reqs         int        `json:"reqs"`
	Accepts      int        `json:"accepts"`
	Refusals     int        `json:"refusals"`
	GaveUp       int        `json:"fin_without_accept"`
	shape        []rlEvent
	unknown      int
	timeouts     int
}

type rlReport struct {
	Scenarios    int                      `json:"scenarios"`
	Traces       int                      `json:"traces"`
	FilterTraces int                      `json:"filter_traces"`
	ShapeTraces  int                      `json:"shape_traces"`
	Events       int                      `json:"events"`
	Distinct     int                      `json:"distinct_nontrivial"`
	Results      []rlResult               `json:"results"`
	Samples      []map[string]interface{} `json:"samples"`
	Probe        map[string]interface{}   `json:"probe"`
}

// ------------------------------------------------------------------ scenario state

type scen struct {
	lastDest  time.Time   // the last time any destination was contacted by the relay (a connection, a request)
	delivAt   []time.Time // every delivery of a source message to the relay
	termReq chan struct{}
	sc      rlScenario
	mu      sync.Mutex
	evs     []rlEvent
	sevs    []rlEvent // the same run as RelayShapeTrace.tla wants it (answers at the moment the item is taken)
	bodies  [][]byte
	bodyIdx map[string]int // body -> m (1-based)
	idToM   map[string]int
	deliv   []int
	fins    []int
	reqs    []int
	dfail   []int
	accs    []int
	accSet  []map[int]bool
	unknown int
	ifail   int // failures the relay certainly noticed that name no message
	outst   int // requests received by a destination and not answered yet
	lastEv  time.Time
	sched   [][]string // remaining concrete items per destination (1-based dest d -> sched[d-1])
	conc    [][]string
	viol    []string
	drift   []string
	anomaly []string
	closers []io.Closer
	cmu     sync.Mutex
	stop    chan struct{}
	msgTO   time.Duration
}

func (s *scen) log(e rlEvent) {
	s.evs = append(s.evs, e)
	s.lastEv = time.Now()
	switch e.Ev {
	case "Deliver", "Fin", "Req", "End", "Fail", "Down":
		if e.Ev != "Fail" || e.K != "hang" {
			s.sevs = append(s.sevs, e)
		}
	}
}

// shapeTake logs, for RelayShapeTrace.tla, the moment a destination takes its next schedule item for a request
// (the property-level Accept / Refuse events are logged later, just before the answer is written).
func (s *scen) shapeTake(d, m int, item string) {
	switch {
	case item[0] == 'A':
		s.sevs = append(s.sevs, rlEvent{Ev: "Accept", M: m, D: d, Sh: shapeLetter(&s.sc, item)})
	case item[0] == 'R':
		s.sevs = append(s.sevs, rlEvent{Ev: "Refuse", M: m, D: d})
	case item == "L:hang":
		s.sevs = append(s.sevs, rlEvent{Ev: "Fail", M: m, D: d, K: "hang"})
	default: // L:close, or D met by a request on a live connection (stub HTTP endpoint only; the fake nsqd logs its own)
		if s.sc.Tool == "nsq_to_http" {
			s.sevs = append(s.sevs, rlEvent{Ev: "Lost", M: m, D: d})
		}
	}
}

func (s *scen) addCloser(c io.Closer) {
	s.cmu.Lock()
	s.closers = append(s.closers, c)
	s.cmu.Unlock()
}

// next item of destination d (1-based); consume tells whether to remove it
func (s *scen) peek(d int) string {
	if len(s.sched[d-1]) == 0 {
		return "A:now"
	}
	return s.sched[d-1][0]
}
func (s *scen) consume(d int) {
	if len(s.sched[d-1]) > 0 {
		s.sched[d-1] = s.sched[d-1][1:]
	}
}

// a destination has read a complete request carrying body; returns m (0 = unknown body)
func (s *scen) onRequestLocked(d int, body []byte) int {
	s.lastDest = time.Now()
	m := s.bodyIdx[string(body)]
	s.outst++
	if m == 0 {
		s.unknown++
		h := hex.EncodeToString(body)
		if len(h) > 120 {
			h = h[:120] + "..."
		}
		s.log(rlEvent{Ev: "Unknown", D: d, Info: h})
	}
	return m
}

func (s *scen) onAcceptLocked(d, m int, how string) {
	if m > 0 {
		s.accs[m]++
		s.accSet[m][d] = true
		s.log(rlEvent{Ev: "Accept", M: m, D: d, Sh: shapeLetter(&s.sc, how), Info: how})
	}
}

// shapeLetter: the schedule letter as the relay's code will read the concrete item (the GET publisher takes
// only 200 for success; the property counts any 2xx as an acceptance).
func shapeLetter(sc *rlScenario, item string) string {
	if sc.Tool == "nsq_to_http" && sc.Method == "get" && (strings.HasPrefix(item, "A:201") || strings.HasPrefix(item, "A:204")) {
		return "R"
	}
	return item[:1]
}
func (s *scen) onRefuseLocked(d, m int, how string) {
	if m > 0 {
		s.dfail[m]++
		s.log(rlEvent{Ev: "Refuse", M: m, D: d, Info: how})
	}
}

// ------------------------------------------------------------------ logging proxy in front of the source nsqd

func (s *scen) proxy(ln net.Listener, upstream string) {
	for {
		c, err := ln.Accept()
		if err != nil {
			return
		}
		u, err := net.DialTimeout("tcp", upstream, 10*time.Second)
		if err != nil {
			c.Close()
			continue
		}
		s.addCloser(c)
		s.addCloser(u)
		go s.proxyC2S(c, u)
		go s.proxyS2C(u, c)
	}
}

func (s *scen) proxyC2S(c, u net.Conn) {
	defer c.Close()
	defer u.Close()
	r := bufio.NewReaderSize(c, 1<<16)
	magic := make([]byte, 4)
	if _, err := io.ReadFull(r, magic); err != nil {
		return
	}
	if _, err := u.Write(magic); err != nil {
		return
	}
	for {
		line, err := r.ReadBytes('\n')
		if err != nil {
			return
		}
		f := strings.Fields(string(line))
		out := line
		if len(f) > 0 {
			switch f[0] {
			case "IDENTIFY", "AUTH", "PUB", "DPUB", "MPUB":
				var sz [4]byte
				if _, err := io.ReadFull(r, sz[:]); err != nil {
					return
				}
				n := binary.BigEndian.Uint32(sz[:])
				body := make([]byte, n)
				if _, err := io.ReadFull(r, body); err != nil {
					return
				}
				out = append(append(append([]byte{}, line...), sz[:]...), body...)
			case "FIN", "REQ":
				if len(f) >= 2 {
					s.mu.Lock()
					m := s.idToM[f[1]]
					if m == 0 {
						s.anomaly = append(s.anomaly, fmt.Sprintf("%s for an id never delivered: %q", f[0], f[1]))
					} else if f[0] == "FIN" {
						s.fins[m]++
						s.log(rlEvent{Ev: "Fin", M: m})
					} else {
						s.reqs[m]++
						s.log(rlEvent{Ev: "Req", M: m, Info: strings.Join(f[2:], " ")})
					}
					s.mu.Unlock()
				}
			}
		}
		if _, err := u.Write(out); err != nil {
			return
		}
	}
}

func (s *scen) proxyS2C(u, c net.Conn) {
	defer c.Close()
	defer u.Close()
	r := bufio.NewReaderSize(u, 1<<16)
	for {
		ft, data, err := readFrame(r)
		if err != nil {
			return
		}
		if ft == 2 && len(data) >= 26 {
			id := string(data[10:26])
			body := data[26:]
			s.mu.Lock()
			m := s.bodyIdx[string(body)]
			if m == 0 {
				s.anomaly = append(s.anomaly, "source delivered a body the harness did not publish")
			} else {
				s.idToM[id] = m
				s.deliv[m]++
				s.delivAt = append(s.delivAt, time.Now())
				s.log(rlEvent{Ev: "Deliver", M: m, Info: fmt.Sprintf("attempts=%d", binary.BigEndian.Uint16(data[8:10]))})
			}
			s.mu.Unlock()
		}
		if _, err := c.Write(frame(ft, data)); err != nil {
			return
		}
	}
}

func filter0(sc rlScenario) bool { return sc.Filter != "" || sc.Defaults }
func sumInts(a []int) int {
	n := 0
	for _, x := range a {
		n += x
	}
	return n
}

// ------------------------------------------------------------------ fake destination nsqd

func (s *scen) fakeNsqd(ln net.Listener, d int) {
	for {
		c, err := ln.Accept()
		if err != nil {
			return
		}
		s.mu.Lock()
		s.lastDest = time.Now()
		down := strings.HasPrefix(s.peek(d), "D")
		if down {
			// only the relay's producer connects here, and only from PublishAsync: that call fails
			s.consume(d)
			s.ifail++
			s.log(rlEvent{Ev: "Fail", D: d, K: "down", Info: "D:down connection closed at accept"})
		}
		s.mu.Unlock()
		if down {
			c.Close()
			continue
		}
		s.addCloser(c)
		go s.fakeNsqdConn(c, d)
	}
}

func (s *scen) fakeNsqdConn(c net.Conn, d int) {
	defer c.Close()
	r := bufio.NewReaderSize(c, 1<<16)
	magic := make([]byte, 4)
	if _, err := io.ReadFull(r, magic); err != nil {
		return
	}
	readBody := func() ([]byte, error) {
		var sz [4]byte
		if _, err := io.ReadFull(r, sz[:]); err != nil {
			return nil, err
		}
		n := binary.BigEndian.Uint32(sz[:])
		if n > 16<<20 {
			return nil, fmt.Errorf("too big")
		}
		b := make([]byte, n)
		_, err := io.ReadFull(r, b)
		return b, err
	}
	for {
		line, err := r.ReadBytes('\n')
		if err != nil {
			return
		}
		f := strings.Fields(string(line))
		if len(f) == 0 {
			continue
		}
		switch f[0] {
		case "IDENTIFY":
			if _, err := readBody(); err != nil {
				return
			}
			if _, err := c.Write(frame(0, []byte("OK"))); err != nil {
				return
			}
		case "PUB":
			s.mu.Lock()
			item := s.peek(d)
			s.consume(d)
			if item[0] == 'L' || item[0] == 'D' {
				// the PUB whose command line was just read is outstanding at the relay's producer and now fails
				s.ifail++
				s.log(rlEvent{Ev: "Fail", D: d, K: "lost", Info: item + ": connection closed before the body was read"})
				s.mu.Unlock()
				return
			}
			s.mu.Unlock()
			body, err := readBody()
			if err != nil {
				return
			}
			s.mu.Lock()
			m := s.onRequestLocked(d, body)
			s.shapeTake(d, m, item)
			if len(f) < 2 || f[1] != s.destTopic() {
				s.drift = append(s.drift, fmt.Sprintf("PUB to topic %q, expected %q", strings.Join(f[1:], " "), s.destTopic()))
			}
			s.mu.Unlock()
			switch item {
			case "A:stall":
				s.termNow()
				s.sleep(150 * time.Millisecond)
			case "A:longstall":
				s.sleep(s.msgTO + 400*time.Millisecond)
			}
			s.mu.Lock()
			var resp []byte
			switch {
			case item[0] == 'A':
				s.onAcceptLocked(d, m, item)
				resp = frame(0, []byte("OK"))
			case item == "R:close":
				s.onRefuseLocked(d, m, item)
			default:
				s.onRefuseLocked(d, m, item)
				resp = frame(1, []byte("E_PUB_FAILED PUB failed fake destination says no"))
				if item == "R:badmsg" {
					resp = frame(1, []byte("E_BAD_MESSAGE PUB failed fake"))
				}
			}
			s.outst--
			s.mu.Unlock()
			if resp == nil {
				return
			}
			if _, err := c.Write(resp); err != nil {
				return
			}
		case "MPUB", "DPUB":
			if _, err := readBody(); err != nil {
				return
			}
			s.mu.Lock()
			s.drift = append(s.drift, "relay used "+f[0]+" (not modelled)")
			s.mu.Unlock()
			c.Write(frame(0, []byte("OK")))
		case "CLS":
			c.Write(frame(0, []byte("CLOSE_WAIT")))
		}
	}
}

func (s *scen) destTopic() string { return "c20r" + s.sc.ID }

func (s *scen) sleep(d time.Duration) {
	select {
	case <-time.After(d):
	case <-s.stop:
	}
}

// ------------------------------------------------------------------ stub HTTP destination

type downListener struct {
	net.Listener
	s *scen
	d int
}

func (l *downListener) Accept() (net.Conn, error) {
	for {
		c, err := l.Listener.Accept()
		if err != nil {
			return nil, err
		}
		l.s.mu.Lock()
		l.s.lastDest = time.Now()
		down := strings.HasPrefix(l.s.peek(l.d), "D")
		if down {
			l.s.consume(l.d)
			l.s.log(rlEvent{Ev: "Down", D: l.d, Info: "connection closed at accept"})
		}
		l.s.mu.Unlock()
		if down {
			c.Close()
			continue
		}
		return c, nil
	}
}

// termNow: (scenarios with term_mid) the first destination that keeps a request waiting has the tool told to stop
func (s *scen) termNow() {
	if s.sc.TermMid && s.termReq != nil {
		select {
		case s.termReq <- struct{}{}:
		default:
		}
	}
}

func (s *scen) httpHandler(d int) http.Handler {
	return http.HandlerFunc(func(w http.ResponseWriter, r *http.Request) {
		var body []byte
		if r.Method == "POST" {
			b, err := io.ReadAll(r.Body)
			if err != nil {
				return
			}
			body = b
		} else {
			body = []byte(r.URL.Query().Get("b"))
		}
		wantMethod := strings.ToUpper(s.sc.Method)
		s.mu.Lock()
		item := s.peek(d)
		s.consume(d)
		m := s.onRequestLocked(d, body)
		s.shapeTake(d, m, item)
		if r.Method != wantMethod {
			s.drift = append(s.drift, "unexpected HTTP method "+r.Method)
		}
		s.mu.Unlock()
		done := func() {
			s.mu.Lock()
			s.outst--
			s.mu.Unlock()
		}
		closeConn := func() {
			if hj, ok := w.(http.Hijacker); ok {
				if c, _, err := hj.Hijack(); err == nil {
					c.Close()
				}
			}
		}
		switch {
		case item[0] == 'A':
			code := 200
			switch item {
			case "A:stall":
				s.termNow()
				s.sleep(120 * time.Millisecond)
			case "A:201":
				code = 201
			case "A:204":
				code = 204
			}
			s.mu.Lock()
			s.onAcceptLocked(d, m, fmt.Sprintf("%s status=%d", item, code))
			s.outst--
			s.mu.Unlock()
			w.WriteHeader(code)
			if code == 200 {
				w.Write([]byte("OK"))
			}
		case item[0] == 'R':
			code := 500
			fmt.Sscanf(item, "R:%d", &code)
			s.mu.Lock()
			s.onRefuseLocked(d, m, item)
			s.outst--
			s.mu.Unlock()
			w.WriteHeader(code)
			w.Write([]byte("no"))
		case item == "L:hang":
			s.mu.Lock()
			s.ifail++
			s.log(rlEvent{Ev: "Fail", D: d, M: m, K: "hang", Info: item + ": no answer until the client gives up"})
			s.mu.Unlock()
			select {
			case <-r.Context().Done():
			case <-time.After(20 * time.Second):
			case <-s.stop:
			}
			done()
			closeConn()
		default: // L:close, D met by a request on a kept-alive connection
			s.mu.Lock()
			s.log(rlEvent{Ev: "Lost", D: d, M: m, Info: item + ": connection closed without an answer"})
			s.mu.Unlock()
			done()
			closeConn()
		}
	})
}

// ------------------------------------------------------------------ concretisation of schedule items

func concretise(sc *rlScenario, rng *rand.Rand) [][]string {
	out := make([][]string, sc.NDest)
	long := sc.LongStall
	for d := 0; d < sc.NDest; d++ {
		var items []string
		if d < len(sc.Sched) {
			items = sc.Sched[d]
		}
		for _, it := range items {
			var v string
			switch it {
			case "A":
				ch := []string{"A:now", "A:now", "A:stall"}
				if sc.Tool == "nsq_to_http" {
					ch = append(ch, "A:201", "A:204")
				} else if long {
					ch = []string{"A:longstall"}
					long = false
				}
				v = ch[rng.Intn(len(ch))]
				if sc.TermMid {
					v = "A:stall"
				}
			case "R":
				if sc.Tool == "nsq_to_http" {
					v = []string{"R:500", "R:503", "R:404", "R:400", "R:301", "R:418"}[rng.Intn(6)]
				} else {
					v = []string{"R:frame", "R:badmsg", "R:close"}[rng.Intn(3)]
				}
			case "L":
				if sc.Tool == "nsq_to_http" {
					v = []string{"L:hang", "L:close"}[rng.Intn(2)]
				} else {
					v = "L:close"
				}
			default:
				v = "D:down"
			}
			out[d] = append(out[d], v)
		}
	}
	return out
}

func genBodies(sc *rlScenario, rng *rand.Rand) [][]byte {
	var out [][]byte
	for i := 0; i < sc.NMsgs; i++ {
		var b []byte
		switch sc.Filter {
		case "requirevalue":
			// the value asked for is "a/b": three spellings of that JSON string, and one that is something else
			switch i % 4 {
			case 0:
				b = []byte(fmt.Sprintf(`{"k":"a/b","n":%d,"pad":"%x"}`, i, rng.Int63()))
			case 1:
				b = []byte(fmt.Sprintf(`{"k":"a\/b","n":%d,"pad":"%x"}`, i, rng.Int63()))
			case 2:
				b = []byte(fmt.Sprintf(`{"n":%d,"k":"\u0061/b","pad":"%x"}`, i, rng.Int63()))
			default:
				b = []byte(fmt.Sprintf(`{"k":"zzz","n":%d,"pad":"%x"}`, i, rng.Int63()))
			}
		case "require", "whitelist":
			switch i % 3 {
			case 0:
				b = []byte(fmt.Sprintf(`{"k":"v%d","n":%d,"pad":"%x"}`, i, i, rng.Int63()))
			case 1:
				b = []byte(fmt.Sprintf(`{"other":%d,"pad":"%x"}`, i, rng.Int63()))
			default:
				b = []byte(fmt.Sprintf("not json %d %x", i, rng.Int63()))
			}
		default:
			n := []int{1, 2, 17, 200, 1500, 5000}[rng.Intn(6)]
			if sc.Method == "get" && n > 1500 {
				n = 700
			}
			b = make([]byte, n)
			rng.Read(b)
			if i%2 == 0 && n >= 17 {
				// all the awkward bytes: NUL, newline, CR, space, %, &, +, =, ;, ?, #, 0xff, and a unique tag
				copy(b, []byte{0, '\n', '\r', ' ', '%', '&', '+', '=', ';', '?', '#', 0xff, '/', '"', '\\', 0x7f})
			}
			b = append(b, []byte(fmt.Sprintf("|%d", i))...) // pairwise different
		}
		out = append(out, b)
	}
	return out
}

// ------------------------------------------------------------------ one scenario

type cappedBuf struct {
	mu sync.Mutex
	b  []byte
}

func (c *cappedBuf) Write(p []byte) (int, error) {
	c.mu.Lock()
	c.b = append(c.b, p...)
	if len(c.b) > 1<<16 {
		c.b = c.b[len(c.b)-(1<<15):]
	}
	c.mu.Unlock()
	return len(p), nil
}
func (c *cappedBuf) String() string { c.mu.Lock(); defer c.mu.Unlock(); return string(c.b) }

func runScenario(job *rlJob, sc rlScenario, src *nsqd.NSQD) rlResult {
	t0 := time.Now()
	rng := rand.New(rand.NewSource(sc.Seed))
	res := rlResult{ID: sc.ID, Scenario: sc, Quiescence: "none"}
	s := &scen{sc: sc, bodyIdx: map[string]int{}, idToM: map[string]int{}, stop: make(chan struct{}), msgTO: 2 * time.Second, lastEv: t0,
		termReq: make(chan struct{}, 1)}
	K := sc.NMsgs
	s.deliv, s.fins, s.reqs, s.dfail, s.accs = make([]int, K+1), make([]int, K+1), make([]int, K+1), make([]int, K+1), make([]int, K+1)
	s.accSet = make([]map[int]bool, K+1)
	for i := range s.accSet {
		s.accSet[i] = map[int]bool{}
	}
	s.bodies = genBodies(&sc, rng)
	for i, b := range s.bodies {
		s.bodyIdx[string(b)] = i + 1
	}
	s.conc = concretise(&sc, rng)
	s.sched = make([][]string, sc.NDest)
	for d := range s.conc {
		s.sched[d] = append([]string{}, s.conc[d]...)
	}
	res.Concrete = s.conc
	closeAll := func() {
		s.cmu.Lock()
		for _, c := range s.closers {
			c.Close()
		}
		s.closers = nil
		s.cmu.Unlock()
	}
	defer func() {
		close(s.stop)
		closeAll()
	}()

	topicName := s.destTopic()
	channel := "relay"
	topic := src.GetTopic(topicName)
	ch := topic.GetChannel(channel)
	_ = ch
	defer func() {
		// (runs after the tool has been stopped) drop the proxy connections, let nsqd finish with the client,
		// only then delete the topic: a FIN still in the pipe while the channel is emptied would hit nsqd's
		// FIN-vs-Empty race, which is not this property's business
		closeAll()
		waitNoClients(src, topicName, channel)
		src.DeleteExistingTopic(topicName)
	}()
	for _, b := range s.bodies {
		if err := topic.PutMessage(nsqd.NewMessage(topic.GenerateID(), b)); err != nil {
			res.Inconclusive = "publishing to the source failed: " + err.Error()
			return res
		}
	}

	pln, err := net.Listen("tcp", "127.0.0.1:0")
	if err != nil {
		res.Inconclusive = err.Error()
		return res
	}
	s.addCloser(pln)
	go s.proxy(pln, src.RealTCPAddr().String())

	var destArgs []string
	for d := 1; d <= sc.NDest; d++ {
		ln, err := net.Listen("tcp", "127.0.0.1:0")
		if err != nil {
			res.Inconclusive = err.Error()
			return res
		}
		s.addCloser(ln)
		if sc.Tool == "nsq_to_nsq" {
			go s.fakeNsqd(ln, d)
			destArgs = append(destArgs, "-destination-nsqd-tcp-address", ln.Addr().String())
		} else {
			srv := &http.Server{Handler: s.httpHandler(d)}
			go srv.Serve(&downListener{Listener: ln, s: s, d: d})
			s.addCloser(srv)
			if sc.Method == "get" {
				destArgs = append(destArgs, "-get", "http://"+ln.Addr().String()+"/g?b=%s")
			} else {
				destArgs = append(destArgs, "-post", "http://"+ln.Addr().String()+"/p")
			}
		}
	}

	argv := []string{"-topic", topicName, "-channel", channel, "-nsqd-tcp-address", pln.Addr().String(),
		"-mode", sc.Mode, "-max-in-flight", "10", "-status-every", "0",
		"-consumer-opt", "default_requeue_delay,20ms", "-consumer-opt", "msg_timeout,2s"}
	if !sc.Defaults {
		argv = append(argv, "-consumer-opt", "max_attempts,0")
	}
	if sc.Backoff {
		argv = append(argv, "-consumer-opt", "backoff_multiplier,10ms", "-consumer-opt", "max_backoff_duration,40ms")
	} else {
		argv = append(argv, "-consumer-opt", "max_backoff_duration,0")
	}
	if sc.Tool == "nsq_to_http" {
		argv = append(argv, "-n", "4", "-http-client-request-timeout", "400ms", "-http-client-connect-timeout", "400ms")
		if sc.Filter == "sample" {
			argv = append(argv, "-sample", "0.5")
		}
	} else {
		switch sc.Filter {
		case "requirevalue":
			argv = append(argv, "-require-json-field", "k", "-require-json-value", "a/b")
		case "require":
			argv = append(argv, "-require-json-field", "k")
		case "whitelist":
			argv = append(argv, "-whitelist-json-field", "n")
		}
	}
	argv = append(argv, destArgs...)
	cmd := exec.Command(job.Bins[sc.Tool], argv...)
	stderr := &cappedBuf{}
	cmd.Stderr = stderr
	cmd.Stdout = stderr
	if err := cmd.Start(); err != nil {
		res.Inconclusive = "cannot start " + sc.Tool + ": " + err.Error()
		return res
	}
	exited := make(chan error, 1)
	go func() { exited <- cmd.Wait() }()
	defer func() {
		select {
		case <-exited:
			return
		default:
		}
		cmd.Process.Signal(syscall.SIGTERM)
		select {
		case <-exited:
		case <-time.After(10 * time.Second):
			cmd.Process.Kill()
			<-exited
		}
	}()

	deadline := time.Duration(job.DeadlineS) * time.Second
	if deadline <= 0 {
		deadline = 90 * time.Second
	}
	died := false
	termed := false
	for time.Since(t0) < deadline {
		select {
		case <-exited:
			died = true
			exited <- nil
		case <-s.termReq:
			// told to stop while a destination keeps one of its requests waiting: it may take its time, finish what it
			// has in hand or leave it to the source -- but it finishes nothing that no destination has accepted
			termed = true
			cmd.Process.Signal(syscall.SIGTERM)
			select {
			case <-exited:
				exited <- nil
			case <-time.After(20 * time.Second):
			}
			time.Sleep(300 * time.Millisecond) // its last commands reach the logging proxy
		case <-time.After(15 * time.Millisecond):
		}
		if died || termed {
			break
		}
		st := src.GetStats(topicName, channel, false)
		if len(st.Topics) != 1 || len(st.Topics[0].Channels) != 1 {
			continue
		}
		ts, cs := st.Topics[0], st.Topics[0].Channels[0]
		srcEmpty := ts.Depth == 0 && cs.Depth == 0 && cs.InFlightCount == 0 && cs.DeferredCount == 0
		if !srcEmpty {
			continue
		}
		s.mu.Lock()
		// strict: the relay has answered every delivery, every message has been FINished, no destination is
		// still holding a request.  settled: the same without "answered every delivery", but nothing at all
		// has happened for 5 s (a relay that never answers a refused delivery must not escape the verdict).
		strict := s.outst == 0
		allFin := true
		for m := 1; m <= K; m++ {
			if s.deliv[m] == 0 || s.fins[m] == 0 {
				allFin = false
			}
			if s.fins[m]+s.reqs[m] < s.deliv[m] {
				strict = false
			}
		}
		strict = strict && allFin
		settled := allFin && s.outst == 0 && time.Since(s.lastEv) > 5*time.Second
		if strict || settled {
			// re-check the source under the lock: nothing may have been delivered in between
			st2 := src.GetStats(topicName, channel, false)
			if len(st2.Topics) == 1 && len(st2.Topics[0].Channels) == 1 {
				c2 := st2.Topics[0].Channels[0]
				if st2.Topics[0].Depth == 0 && c2.Depth == 0 && c2.InFlightCount == 0 && c2.DeferredCount == 0 {
					if strict {
						res.Quiescence = "strict"
					} else {
						res.Quiescence = "settled"
					}
					res.timeouts = int(c2.TimeoutCount)
					s.log(rlEvent{Ev: "End", Info: res.Quiescence})
				}
			}
		}
		s.mu.Unlock()
		if res.Quiescence != "none" {
			break
		}
	}
	s.mu.Lock()
	defer s.mu.Unlock()
	res.Events = append([]rlEvent{}, s.evs...)
	res.shape = append([]rlEvent{}, s.sevs...)
	res.unknown = s.unknown
	res.Stderr = tail(stderr.String(), 1500)
	res.WallMs = time.Since(t0).Milliseconds()
	for m := 1; m <= K; m++ {
		res.Delivered += s.deliv[m]
		res.Fins += s.fins[m]
		res.Reqs += s.reqs[m]
		res.Accepts += s.accs[m]
		res.Refusals += s.dfail[m]
	}
	res.Drift = append(res.Drift, s.drift...)
	for _, a := range s.anomaly {
		res.Drift = append(res.Drift, "anomaly: "+a)
	}
	if termed {
		res.Terminated = true
	} else if died {
		res.Inconclusive = sc.Tool + " exited by itself: " + tail(stderr.String(), 600)
	} else if res.Quiescence == "none" {
		// the source went on delivering and the relay has not been near a destination for a long time: it has stopped
		// forwarding (the property: requeue otherwise, so that every message still arrives)
		recent := 0
		for _, t := range s.delivAt {
			if time.Since(t) < 40*time.Second {
				recent++
			}
		}
		if recent >= 5 && time.Since(s.lastDest) > 45*time.Second && !filter0(sc) {
			res.Violations = append(res.Violations, fmt.Sprintf("AtLeastOnce: the source delivered pending messages to the relay %d times in the last 40 s (after %d deliveries, %d FIN, %d REQ in all); the relay has not contacted any destination for %s: it has stopped forwarding them", recent, len(s.delivAt), sumInts(s.fins), sumInts(s.reqs), time.Since(s.lastDest).Round(time.Second)))
		}
		res.Inconclusive = fmt.Sprintf("no quiescence within %s (delivered=%d fins=%d reqs=%d outstanding=%d)", deadline, res.Delivered, res.Fins, res.Reqs, s.outst)
	}
	// Go-side ledger (the same predicates RelayTrace.tla evaluates; gives readable messages)
	filter := sc.Filter != ""
	seenAcc := make([]bool, K+1)
	for _, e := range res.Events {
		switch e.Ev {
		case "Accept":
			seenAcc[e.M] = true
		case "Fin":
			if !seenAcc[e.M] {
				res.GaveUp++
				if !filter && !sc.Defaults {
					res.Violations = append(res.Violations, fmt.Sprintf("FinOnlyAfterAccept: message %d was finished (FIN) before any destination accepted its body", e.M))
				}
			}
		case "Unknown":
			if !filter {
				res.Violations = append(res.Violations, fmt.Sprintf("Unmodified: destination %d received a body no source message has: %s", e.D, e.Info))
			}
		}
	}
	if res.Quiescence != "none" && !sc.Defaults {
		if res.Reqs < res.Refusals+s.ifail {
			res.Violations = append(res.Violations, fmt.Sprintf("ReqOtherwise: %d refusals + %d other failures the relay certainly noticed, but only %d requeues (quiescence: %s)", res.Refusals, s.ifail, res.Reqs, res.Quiescence))
		}
		for m := 1; m <= K; m++ {
			if s.reqs[m] < s.dfail[m] {
				res.Violations = append(res.Violations, fmt.Sprintf("ReqOtherwise: message %d was definitely refused %d times but requeued only %d times (quiescence: %s)", m, s.dfail[m], s.reqs[m], res.Quiescence))
			}
			if !filter && len(s.accSet[m]) == 0 {
				res.Violations = append(res.Violations, fmt.Sprintf("AtLeastOnce: everything settled but message %d never arrived", m))
			}
		}
	}
	// a filter was requested: what satisfies it still arrives at least once (the value may be spelt with JSON escapes)
	if sc.Filter == "requirevalue" && res.Quiescence != "none" {
		for m := 1; m <= K; m++ {
			if (m-1)%4 != 3 && len(s.accSet[m]) == 0 {
				res.Violations = append(res.Violations, fmt.Sprintf("AtLeastOnce: --require-json-field k --require-json-value a/b: message %d, whose field k is the JSON string \"a/b\" (spelling %d of 3), was finished and never arrived", m, (m-1)%4))
			}
		}
	}
	// shape level (how the tools are written, not what the property demands)
	if sc.Filter == "require" && res.Quiescence != "none" {
		for m := 1; m <= K; m++ {
			pass := (m-1)%3 == 0
			if pass && len(s.accSet[m]) == 0 {
				res.Drift = append(res.Drift, fmt.Sprintf("require-json-field: passing message %d never arrived", m))
			}
			if !pass && s.accs[m] > 0 {
				res.Drift = append(res.Drift, fmt.Sprintf("require-json-field: filtered message %d arrived", m))
			}
		}
	}
	return res
}

// ------------------------------------------------------------------ driver

func relayRun(args []string) int {
	fs := flag.NewFlagSet("relay", flag.ExitOnError)
	jobPath := fs.String("job", "job.json", "job")
	repPath := fs.String("report", "report.json", "report")
	tracePath := fs.String("trace", "trace.ndjson", "trace for RelayTrace.tla (no filter)")
	ftracePath := fs.String("ftrace", "ftrace.ndjson", "trace for RelayTrace.tla with Filter = TRUE")
	stracePath := fs.String("strace", "strace.ndjson", "trace for RelayShapeTrace.tla")
	fs.Parse(args)
	var job rlJob
	jb, err := os.ReadFile(*jobPath)
	if err == nil {
		err = json.Unmarshal(jb, &job)
	}
	if err != nil {
		fmt.Fprintln(os.Stderr, "job:", err)
		return 2
	}
	if job.Workers <= 0 {
		job.Workers = 8
	}
	tmp, err := os.MkdirTemp(filepath.Dir(*repPath), "relay-")
	if err != nil {
		fmt.Fprintln(os.Stderr, err)
		return 2
	}
	defer os.RemoveAll(tmp)
	src, err := startNSQD(filepath.Join(tmp, "src"), func(o *nsqd.Options) {
		o.QueueScanInterval = 20 * time.Millisecond
		o.QueueScanRefreshInterval = 50 * time.Millisecond
		o.MsgTimeout = 2 * time.Second
	})
	if err != nil {
		fmt.Fprintln(os.Stderr, "nsqd:", err)
		return 2
	}
	defer src.Exit()

	results := make([]rlResult, len(job.Scenarios))
	idx := make(chan int)
	var wg sync.WaitGroup
	for w := 0; w < job.Workers; w++ {
		wg.Add(1)
		go func() {
			defer wg.Done()
			for i := range idx {
				results[i] = runScenario(&job, job.Scenarios[i], src)
			}
		}()
	}
	for i := range job.Scenarios {
		idx <- i
	}
	close(idx)
	wg.Wait()

	rep := rlReport{Probe: map[string]interface{}{}}
	tw, err := hlib.NewNDJSON(*tracePath)
	if err != nil {
		fmt.Fprintln(os.Stderr, err)
		return 2
	}
	fw, err := hlib.NewNDJSON(*ftracePath)
	if err != nil {
		fmt.Fprintln(os.Stderr, err)
		return 2
	}
	sw, err := hlib.NewNDJSON(*stracePath)
	if err != nil {
		fmt.Fprintln(os.Stderr, err)
		return 2
	}
	distinct := map[string]bool{}
	for i := range results {
		r := &results[i]
		rep.Scenarios++
		rep.Events += len(r.Events)
		if r.Scenario.Defaults {
			rep.Probe["default_max_attempts_scenario"] = r.ID
			rep.Probe["fin_without_accept"] = r.GaveUp
			rep.Probe["stderr_tail"] = tail(r.Stderr, 400)
			continue
		}
		w := tw
		if r.Scenario.Filter != "" {
			w = fw
			rep.FilterTraces++
		} else {
			rep.Traces++
		}
		w.Put(map[string]interface{}{"ev": "Reset", "m": 0, "d": 0, "info": r.ID})
		for _, e := range r.Events {
			switch e.Ev {
			case "Deliver", "Accept", "Refuse", "Fail", "Fin", "Req", "Unknown", "End":
				w.Put(map[string]interface{}{"ev": e.Ev, "m": e.M, "d": e.D, "info": e.Info})
			}
		}
		if r.Scenario.Filter == "" && r.Quiescence != "none" && r.unknown == 0 {
			rep.ShapeTraces++
			sched := [][]string{{}, {}}
			for d, row := range r.Concrete {
				for _, it := range row {
					sched[d] = append(sched[d], shapeLetter(&r.Scenario, it))
				}
			}
			sw.Put(map[string]interface{}{"ev": "Reset", "m": 0, "d": 0, "k": "", "sh": "", "n": r.Scenario.NMsgs, "sched": sched, "to": r.timeouts, "info": r.ID})
			// an answer to a request of a delivery the relay has already answered itself (its own timeout fired
			// before the destination got round to the request) is a "Ghost" for the shape spec
			open := map[int]int{}
			for _, e := range r.shape {
				switch {
				case e.Ev == "Deliver":
					open[e.M]++
				case e.Ev == "Fin" || e.Ev == "Req":
					open[e.M]--
				case e.M > 0 && open[e.M] <= 0 && (e.Ev == "Accept" || e.Ev == "Refuse" || e.Ev == "Lost" || (e.Ev == "Fail" && e.K == "hang")):
					switch e.Ev {
					case "Refuse":
						e.Sh = "R"
					case "Lost", "Fail":
						e.Sh = "L"
					}
					e.Ev = "Ghost"
				}
				sw.Put(map[string]interface{}{"ev": e.Ev, "m": e.M, "d": e.D, "k": e.K, "sh": e.Sh})
			}
		}
		kinds := map[string]bool{}
		for _, row := range r.Concrete {
			for _, it := range row {
				kinds[it] = true
			}
		}
		ks, _ := json.Marshal(kinds)
		if r.Refusals+r.Reqs > 0 {
			distinct[fmt.Sprintf("%s|%s|%s|%d|%s|%v|%s", r.Scenario.Tool, r.Scenario.Mode, r.Scenario.Method, r.Scenario.NDest, ks, r.Scenario.Backoff, r.Scenario.Filter)] = true
		}
		if len(rep.Samples) < 5 && len(r.Events) > 0 && (r.Reqs > 0) {
			ev := r.Events
			if len(ev) > 14 {
				ev = ev[:14]
			}
			rep.Samples = append(rep.Samples, map[string]interface{}{"scenario": r.ID, "tool": r.Scenario.Tool, "mode": r.Scenario.Mode,
				"schedule": r.Concrete, "first_events": ev, "quiescence": r.Quiescence})
		}
	}
	tw.Close()
	fw.Close()
	sw.Close()
	rep.Distinct = len(distinct)
	// keep the report small: drop the event lists of clean scenarios
	for i := range results {
		r := &results[i]
		if len(r.Violations) == 0 && r.Inconclusive == "" && len(r.Drift) == 0 {
			r.Events = nil
			r.Stderr = ""
		}
	}
	rep.Results = results
	if err := hlib.WriteJSON(*repPath, rep); err != nil {
		fmt.Fprintln(os.Stderr, err)
		return 2
	}
	return 0
}

var _ = bytes.Equal
