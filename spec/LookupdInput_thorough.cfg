\* as-intended table, larger bound on what the hostile side piles up
SPECIFICATION Spec
CONSTANTS
  AsImplemented = {}
  MaxOwn = 5
CONSTRAINT Bounded
INVARIANTS TypeOK Total ErrorsAreRefusals StillServing SizesRefused ClosedLeavesNothing
PROPERTIES OthersUntouched
CHECK_DEADLOCK FALSE
