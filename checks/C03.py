"""C03 -- RDY, CLS and pause are respected (spec: NsqdAbs)."""
import corelib

META = {
    "technique": "TLC model checking of NsqdAbs/NsqdAbsMC and NsqdCore; every TLC-enumerated interleaving of operation pairs "
                 "forced on the real daemon through yield points (gated replay) and compared with the model's prediction; traces of a real in-process nsqd (verif hooks + client-side "
                 "observations) from the seeded 'flow' and 'core' drivers validated against NsqdAbs by TLC; black-box "
                 "ledger on client-visible frames and /stats; NsqdTopic interleavings of topic pause / unpause with publishes and channel-list refreshes forced on the real daemon",
    "design_ref": "5/C03",
}


def run(ctx):
    import nsqdmc
    nsqdmc.model_check(ctx)
    import pairs
    # binding A': every interleaving (TLC, NsqdCore) of two operations' critical sections forced on the real daemon
    pairs.run_pairs(ctx, "C03", pairs=[p for p in pairs.all_pairs() if "EMPTY" in p or "DELIVER" in p] + pairs.TRIPLES, sample=None if not ctx.quick else 230)
    import tpairs
    # ... and at the topic level (NsqdTopic): a topic whose pause was acknowledged hands nothing more to its channels, whatever
    # channel-list refreshes, publishes and deletions run alongside
    tpairs.run_tpairs(ctx, "C03", only=lambda t: ({"PAUSE", "UNPAUSE"} & set(t) or t[3] == "paused") and "TEXIT" not in t)
    n = 16 if ctx.quick else 120
    corelib.run_modes(ctx, "C03", [("flow", n), ("core", n // 2)])
    if not ctx.quick:
        corelib.repo_tests(ctx, "C03")
    ctx.cov["distinct_nontrivial"] = len(ctx.notes.get("event_kinds", {}))
    ctx.cov["rule"] = ("evaluations = hook/harness events of real executions checked step by step by TLC against "
                       "NsqdAbs; distinct = event kinds (spec actions) exercised")
    ctx.assumptions += [
        "hook events are emitted inside the critical section performing the change (DESIGN.md appendix A)",
        "a rejection is attributed to the property whose clause the failing guard stands for (lib/corelib.py)",
    ]
