"""C14 -- nsqlookupd answers reflect exactly the live registrations (spec: Lookupd, LookupdEdges, LookupdTrace)."""
import json
import os
import re
import shutil

from vlib import Inconclusive, log

META = {
    "technique": "TLC exhaustive check of Lookupd.tla (registry model: the four query results are operators on the state; "
                 "clauses GoneAtOnce, TombstoneHidesOnlyNamed, TombstoneLapses, InactiveHidden); binding A: the whole reachable "
                 "graph of bounded configs (2 producers, durable+ephemeral topics and channels; untimed and real-time tick "
                 "regimes) printed by TLC and replayed as a transition tour against an in-process nsqlookupd, every query "
                 "compared with the operator value after every step; binding A': the UNREGISTER check-then-act window forced "
                 "with a yield gate; binding B: concurrent producers/admins/pollers, hook events logged under the registry "
                 "lock validated by TLC against LookupdTrace.tla (each query must match a state of its window)",
    "design_ref": "5/C14",
}

RACE_KEY = "unregister-ephemeral-race"


def dump_graph(ctx, cfg, label):
    r = ctx.tlc("LookupdEdges", cfg, timeout=1200, label="graph:" + label)
    if not r.ok:
        raise Inconclusive("graph dump %s failed:\n%s" % (cfg, r.out[-3000:]))
    path = os.path.join(ctx.scratch, "graph-%s.out" % label)
    with open(path, "w") as f:
        f.write(r.out)
    ctx.cov["states"] += r.distinct
    ctx.cov["transitions"] += r.generated
    log("graph %s: %d states, %d transitions, %.1fs" % (label, r.distinct, r.generated, r.wall))
    return path, r


def replay(ctx, graph, label, cfg, extra, timeout=3600):
    rep = os.path.join(ctx.scratch, "replay-%s.json" % label)
    args = ["c14-replay", "--graph", graph, "--seed", ctx.seed, "--report", rep] + extra
    rc, out, err = ctx.run_harness(args, timeout=timeout, name="lookupd")
    if not os.path.exists(rep):
        raise Inconclusive("c14-replay %s: rc=%s\n%s%s" % (label, rc, out[-2000:], err[-2000:]))
    R = json.load(open(rep))
    ctx.cov["evaluations"] += R["steps"]
    ctx.cov["distinct_nontrivial"] += R["nontrivial_edges_covered"]
    ctx.notes.setdefault("replay", {})[label] = {
        "cfg": cfg, "states": R["states"], "edges": R["edges"], "edges_replayed": R["edges_covered"],
        "state_changing_edges_replayed": R["nontrivial_edges_covered"], "walks": R["walks"], "steps": R["steps"],
        "queries": R["queries"], "timing_retries": R["timing_retries"], "timing_skipped": R["timing_skipped"],
        "actions": R["action_counts"], "wall_s": round(R["wall_s"], 1)}
    for s in (R.get("samples") or [])[:1]:
        ctx.sample({"replayed_walk": s})
    for m in (R.get("mismatches") or [])[:1]:   # (walks still running on other workers may add more of the same)
        what = ("replayed TLC behaviour (%s, %s): after step %d `%s` the real nsqlookupd differs from the registry model in %s%s; "
                "history: %s" % (label, m["regime"], m["step"], m["action"], ", ".join(m.get("queries") or [m["kind"]]),
                                 (" -- " + m["detail"]) if m.get("detail") else "", " ; ".join(m["history"][-12:])))
        ctx.violation(what, ctx.save_replay("walk-" + label, {"mismatch": m, "cfg": cfg, "label": label, "extra": extra}),
                      key="replay-%s-%s" % (m["kind"], m["action"].split(" ")[0]))
    if R.get("interference"):
        ctx.notes.setdefault("interference", []).extend(R["interference"][:5])
        log("replay %s: %d walk(s) re-run because a foreign client touched their daemon: %s"
            % (label, len(R["interference"]), R["interference"][0]))
    if R.get("interference_skipped", 0) > 3:
        raise Inconclusive("c14-replay %s: %d walks kept being disturbed by foreign clients" % (label, R["interference_skipped"]))
    if R.get("driver_errors"):
        raise Inconclusive("c14-replay %s: driver errors: %s" % (label, R["driver_errors"][:3]))
    if R["timing_skipped"] > max(5, R["walks"] // 10):
        raise Inconclusive("c14-replay %s: %d of %d timed walks could not be kept inside their tick windows (machine too busy)"
                           % (label, R["timing_skipped"], R["walks"]))
    if R["steps"] == 0:
        raise Inconclusive("c14-replay %s executed nothing" % label)
    return R


def validate(ctx, trace, ntraces, what):
    """Like ctx.validate_trace, but the key of a violation depends on which property of LookupdTrace failed."""
    r = ctx.tlc("LookupdTrace", "LookupdTrace.cfg", workers=1, timeout=3000, jvm=["-Xss512m"],
                files={trace: "trace.ndjson"}, label="trace:" + what)
    if r.ok and "TRACE_OK" in r.out:
        ctx.cov["traces_validated_against_impl"] += ntraces
        m = re.search(r'<<"TRACE_OK",\s*(\d+),\s*(\d+),\s*(\d+)>>', r.out)
        if m:
            st = ctx.notes.setdefault("trace_validation", {})
            st[what] = {"lines": int(m.group(1)), "queries_checked": int(m.group(2)), "torn_multi_read_results": int(m.group(3)),
                        "tlc_states": r.distinct, "wall_s": round(r.wall, 1)}
        log("trace %s: accepted (%d runs, %d states, %.1fs)" % (what, ntraces, r.distinct, r.wall))
        return True
    if r.crashed and not r.postcondition_false:
        raise Inconclusive("TLC failed validating %s:\n%s" % (what, r.out[-4000:]))
    os.makedirs(ctx.replay_dir, exist_ok=True)
    dst = os.path.join(ctx.replay_dir, "%s-seed%d.ndjson" % (re.sub(r"\W+", "_", what), ctx.seed))
    shutil.copy(trace, dst)
    with open(dst + ".tlc.txt", "w") as f:
        f.write(r.out[-30000:])
    # diagnosis pass: would the log be explained if an UNREGISTER were allowed to drop an occupied ephemeral key?
    d = ctx.tlc("LookupdTrace", "LookupdTrace_diag.cfg", workers=1, timeout=3000, jvm=["-Xss512m"],
                files={trace: "trace.ndjson"}, label="trace-diagnosis:" + what)
    if d.violated == "NoLostRegistration":
        r = d
    if r.violated == "NoLostRegistration":
        m = re.search(r"/\\ lost = (\{<<.*?>>\})", r.out, re.S)
        ctx.violation("recorded execution (%s): an UNREGISTER of an ephemeral topic/channel removed the key although another connection's "
                      "REGISTER of it had been applied in between (RemoveProducer saw left == 0, RemoveRegistration came later): that "
                      "connection's acknowledged registration is lost -- LookupdTrace invariant NoLostRegistration, lost = %s"
                      % (what, m.group(1).replace("\n", " ") if m else "?"), dst, key=RACE_KEY)
        return False
    detail = ""
    m = re.search(r'<<\s*"TRACE_REJECTED".*?(?=\nError|\Z)', r.out, re.S)
    if m:
        detail = m.group(0)[:1500]
    if r.violated:
        detail = "invariant/property %s violated on the recorded execution; %s" % (r.violated, detail)
    ctx.violation("trace %s rejected by LookupdTrace: %s" % (what, detail), dst, key="trace-" + str(r.violated or "rejected"))
    return False


def hammer(ctx, quick):
    # 3b. black-box search for the UNREGISTER check-then-act window (needs no hooks): a connection unregisters an ephemeral
    #     topic it alone holds while another registers it; once both are acknowledged the registrant must be listed
    hrep = os.path.join(ctx.scratch, "hammer.json")
    rc, out, err = ctx.run_harness(["c14-hammer", "--report", hrep, "--wall", "10s" if quick else "60s",
                                    "--iters", 20000 if quick else 200000], timeout=1200, name="lookupd")
    if not os.path.exists(hrep):
        raise Inconclusive("c14-hammer: rc=%s\n%s%s" % (rc, out[-2000:], err[-2000:]))
    H = json.load(open(hrep))
    if H.get("errors"):
        raise Inconclusive("c14-hammer: %s" % H["errors"][:3])
    ctx.cov["evaluations"] += H["iterations"]
    ctx.notes["unregister_register_hammer"] = {"iterations": H["iterations"], "registrations_lost": H["lost"]}
    if H["lost"]:
        ctx.sample({"lost_registration": H["first_lost"][0]})
        ctx.violation("concurrent UNREGISTER / REGISTER of one ephemeral topic by two connections: in %d of %d trials the REGISTER was "
                      "acknowledged with OK and, with both commands finished, the registrant is missing from /lookup (no order of the "
                      "two commands predicts that): %s" % (H["lost"], H["iterations"], H["first_lost"][0]),
                      ctx.save_replay("hammer", H), key=RACE_KEY)


def run(ctx):
    quick = ctx.quick
    if ctx.replay:
        return run_replay(ctx)
    # 1. the registry model and the statement's clauses, exhaustively (untimed: 2 producers x 2 topics x 2 channels; timed: clock 0..4)
    ctx.model_check("Lookupd", "Lookupd_mc.cfg", timeout=900)
    ctx.model_check("Lookupd", "Lookupd_timed.cfg", timeout=900)
    # UNREGISTER at the granularity of its two critical sections: as intended (passes) and as implemented (a TLC counterexample
    # is only a lead: the gated replay / hammer below decide whether the real code does it)
    ctx.model_check("LookupdRace", "LookupdRace_fixed.cfg", timeout=900)
    r = ctx.model_check("LookupdRace", "LookupdRace_asis.cfg", expect_ok=False, timeout=900)
    ctx.notes["lead_unregister_window"] = ("LookupdRace_asis.cfg (RemoveRegistration unconditional after left == 0): TLC reports %s"
                                           % (r.violated or "no violation"))
    if not quick:
        ctx.model_check("Lookupd", "Lookupd_shared.cfg", timeout=900)
        ctx.model_check("Lookupd", "Lookupd_timed5.cfg", timeout=900)

    # 2. binding A, untimed regime: transition tour of the whole reachable graph
    if quick:
        for label, cfg in (("q1", "Lookupd_edges_q1.cfg"), ("q2", "Lookupd_edges_q2.cfg")):
            g, _ = dump_graph(ctx, cfg, label)
            replay(ctx, g, label, cfg, ["--wall", "45s"])
            os.unlink(g)
        # the same nsqd over two connections (identical broadcast_address, tcp_port, http_port): each connection is
        # a producer of its own, and closing one must not touch what the other registered
        g, _ = dump_graph(ctx, "Lookupd_edges_shared.cfg", "twins")
        replay(ctx, g, "twins", "Lookupd_edges_shared.cfg", ["--shared", "p1,p2", "--wall", "45s"])
        os.unlink(g)
    else:
        g, _ = dump_graph(ctx, "Lookupd_edges.cfg", "full")
        replay(ctx, g, "full", "Lookupd_edges.cfg", ["--wall", "900s"])
        os.unlink(g)
        g, _ = dump_graph(ctx, "Lookupd_edges_shared.cfg", "shared")
        replay(ctx, g, "shared", "Lookupd_edges_shared.cfg", ["--shared", "p1,p2", "--wall", "120s"])
        os.unlink(g)

    # 3. binding A, timed regime: ticks are real time, thresholds (k + 1/2) ticks, every step mid-tick
    g, _ = dump_graph(ctx, "Lookupd_edges_timed.cfg", "timed")
    replay(ctx, g, "timed", "Lookupd_edges_timed.cfg",
           ["--timed", "--tick-ms", 200, "--inactive-k", 2, "--tomb-k", 1, "--workers", 64, "--max-walk", 60,
            "--wall", "25s" if quick else "240s"])
    os.unlink(g)

    hammer(ctx, quick)

    # 4. binding B: concurrent histories, validated by TLC (needs the registry hooks)
    trace = os.path.join(ctx.scratch, "conc.ndjson")
    rep = os.path.join(ctx.scratch, "conc.json")
    runs = 25 if quick else 300
    rc, out, err = ctx.run_harness(["c14-conc", "--seed", ctx.seed, "--runs", runs, "--out", trace, "--report", rep],
                                   timeout=3000, name="lookupd")
    if not os.path.exists(rep):
        raise Inconclusive("c14-conc: rc=%s\n%s%s" % (rc, out[-2000:], err[-2000:]))
    C = json.load(open(rep))
    if C.get("stuck"):
        for v in C.get("violations") or []:
            ctx.violation("concurrent histories: " + v, ctx.save_replay("conc-stuck", C), key="conc:stuck")
        return
    if C.get("errors"):
        raise Inconclusive("c14-conc: driver errors: %s" % C["errors"][:3])
    if C.get("interfered_runs"):
        ctx.notes["concurrent_runs_dropped_foreign_client"] = C["interfered_runs"][:5]
    if C["hooks_missing"]:
        ctx.notes["binding_B"] = ("skipped: the registry hooks (proposed_hooks/lookupd.diff) are not in this tree - no DB events were "
                                  "recorded, so there is no linearization to validate")
        log("binding B skipped: nsqlookupd hooks not present in this tree")
    else:
        ctx.cov["evaluations"] += C["commands"] + C["queries"]
        ctx.notes["concurrent"] = {k: C[k] for k in ("runs", "events", "hook_events", "commands", "queries",
                                                     "queries_overlapping_a_mutation", "event_counts")}
        for s in (C.get("samples") or [])[:1]:
            ctx.sample({"trace_events": C["samples"][:8]})
        validate(ctx, trace, C["runs"], "concurrent")
        # 5. binding A': the UNREGISTER window (left == 0 seen, RemoveRegistration later), forced with the yield gate
        rtrace = os.path.join(ctx.scratch, "race.ndjson")
        rrep = os.path.join(ctx.scratch, "race.json")
        rc, out, err = ctx.run_harness(["c14-race", "--out", rtrace, "--report", rrep], timeout=600, name="lookupd")
        if not os.path.exists(rrep):
            raise Inconclusive("c14-race: rc=%s\n%s%s" % (rc, out[-2000:], err[-2000:]))
        Rr = json.load(open(rrep))
        if Rr.get("errors"):
            raise Inconclusive("c14-race: %s" % Rr["errors"][:3])
        if Rr["hooks_missing"]:
            ctx.notes["binding_A_gated"] = "skipped: yield points not in this tree"
        else:
            ctx.cov["evaluations"] += 2
            ctx.cov["distinct_nontrivial"] += 2
            ctx.notes["gated_unregister_race"] = {k: {"p2_registration_present": v["p2_registration_present"], "schedule": v["schedule"]}
                                                  for k, v in Rr["race_observed"].items()}
            ctx.sample({"gated_schedule": Rr["race_observed"].get("topic", {}).get("schedule"),
                        "p2_registration_present": Rr["race_observed"].get("topic", {}).get("p2_registration_present")})
            accepted = validate(ctx, rtrace, Rr["runs"], "gated-unregister-race")
            if accepted and Rr.get("violations"):
                # the black-box observation alone (TLC accepted the trace: should not happen)
                for v in Rr["violations"]:
                    ctx.violation("gated replay: " + v, ctx.save_replay("race", Rr), key=RACE_KEY)
    ctx.cov["rule"] = ("evaluations = steps executed against the real nsqlookupd (each followed by /lookup and /channels per topic, "
                       "/topics, /nodes, /debug compared with the model) + concurrent commands and queries validated by TLC; "
                       "distinct_nontrivial = distinct state-changing transitions (pre-state, action, arguments) of the TLC graphs "
                       "that were executed and compared (self-loops are executed too but not counted) + gated schedules")
    ctx.assumptions += [
        "an observation that names topics / channels / producers the harness never used (another check on this machine talking to "
        "a port one of this check's short-lived daemons now owns) is not an observation of nsqlookupd: that walk is re-run on a "
        "fresh daemon (concurrent run: dropped) and counted in notes.interference",
        "a disconnect is observed as complete when the daemon closes its side of the socket (after IOLoop's cleanup); three ways of "
        "ending a connection are used: half-close, unknown command (fatal E_INVALID), second IDENTIFY / REGISTER before IDENTIFY",
        "timed regime: real thresholds are (k + 1/2) ticks, every step and its queries must fall inside [0.3, 0.7] of a tick "
        "(measured; a walk that misses is retried with a doubled tick, then skipped), so jitter cannot cross a threshold",
        "concurrent regime is untimed (thresholds of 24 h); /topic/tombstone calls are not raced with queries or with the named "
        "producer's own commands because Producer.Tombstone() runs outside the registry lock (its position in the log would be "
        "ambiguous); the sequential tombstone behaviour is covered exhaustively by binding A",
        "/lookup and /nodes are assembled by the code from several registry reads: under concurrency each read must match a "
        "state inside the query's window in program order; a result that matches no single state is counted as torn, not flagged",
        "non-atomic multi-key admin deletes racing registrations (a REGISTER landing between the channel and topic removals of "
        "/topic/delete) are accepted step by step; only loss of another connection's registration by UNREGISTER is flagged",
    ]


def run_replay(ctx):
    path = ctx.replay
    if path.endswith(".ndjson"):
        validate(ctx, path, 1, "replay")
        return
    doc = json.load(open(path))
    if "mismatch" in doc:
        g, _ = dump_graph(ctx, doc["cfg"], doc["label"])
        extra = [x for x in doc.get("extra", []) if True]
        # drop budgets
        cleaned, skip = [], False
        for x in extra:
            if skip:
                skip = False
                continue
            if x == "--wall":
                skip = True
                continue
            cleaned.append(x)
        replay(ctx, g, doc["label"], doc["cfg"], cleaned + ["--history", path, "--workers", 1])
        return
    if "iterations" in doc and "lost" in doc:
        hammer(ctx, True)
        return
    if "race_observed" in doc:
        raise Inconclusive("replay the recorded trace instead: " + path.replace(".json", ".ndjson"))
    raise Inconclusive("do not know how to replay " + path)
