--------------------------- MODULE LookupdTrace ---------------------------
(***************************************************************************)
(* Binding B for C14: a recorded CONCURRENT execution of the real          *)
(* nsqlookupd must be a behaviour of the registry model, one critical      *)
(* section at a time.                                                      *)
(*                                                                         *)
(* The log is totally ordered (sequence numbers taken while the registry   *)
(* lock is held, internal/verif).  Lines:                                  *)
(*   hook events (inside RegistrationDB's critical sections, after the     *)
(*   change):  DBAddProd DBRemProd DBAddReg DBRemReg, and PeerIdentify     *)
(*   PeerPing PeerGone Tombstone;                                          *)
(*   harness events around every command it issues:                        *)
(*   CmdBegin/CmdEnd (one producer connection), AdmBegin/AdmEnd (HTTP      *)
(*   admin call), QBegin/QEnd (HTTP query, with the decoded result).       *)
(*                                                                         *)
(* What is checked:                                                        *)
(*  1. every mutation of the registry is one that a command in progress    *)
(*     prescribes at that point of its program (the compositions in        *)
(*     Lookupd.tla: RegisterDB, UnregisterDB, DisconnectDB, ...), with the *)
(*     logged result flags / counts equal to the model's;                  *)
(*  2. every finished command has run its whole program, and what only     *)
(*     that connection can change holds when it returns (after UNREGISTER  *)
(*     t the peer is in no key of t; after the connection is gone the peer *)
(*     is in no key at all);                                               *)
(*  3. an ephemeral key is dropped by UNREGISTER only when it is empty -    *)
(*     the atomic UnregisterDB of the model never loses another peer's     *)
(*     registration (invariant NoLostRegistration);                        *)
(*  4. every query result equals the value of its operator (Lookup,        *)
(*     TopicsQ, ChannelsQ, NodesQ, DebugQ) in a state between its          *)
(*     invocation and its response; /lookup and /nodes are assembled by    *)
(*     the code from several reads, each read must match a state of the    *)
(*     window, in program order (a result that matches no SINGLE state is  *)
(*     counted as `torn', not rejected).                                   *)
(* Untimed regime only (thresholds of hours): now = 0.                     *)
(***************************************************************************)
EXTENDS Lookupd, Json, Sequences

CONSTANTS Pollers, Admins,
          AllowLoss   \* FALSE: an UNREGISTER removing an OCCUPIED ephemeral key is not a step of the model (the trace is
                      \*        rejected unless some other attribution of the events explains it);
                      \* TRUE : diagnosis pass - the step is taken and recorded in `lost' (invariant NoLostRegistration)

Trace == ndJsonDeserialize("trace.ndjson")

VARIABLES l,      \* next line
          pend,   \* [Producers -> command in progress on that connection]
          apend,  \* [Admins -> admin call in progress]
          qopen,  \* [Pollers -> query in progress with the operator values seen since its invocation]
          lost,   \* registrations of other peers dropped by an UNREGISTER (must stay empty)
          stats   \* [queries, torn]

tvars == <<vars, l, pend, apend, qopen, lost, stats>>

Range(s) == {s[i] : i \in DOMAIN s}
NoCmd == [op |-> "", t |-> "", c |-> "", pc |-> "", seen |-> {}]
NoQ   == [kind |-> "", t |-> "", snaps |-> <<>>]

KeyOf(e) == <<e.cat, e.key, e.sub>>
IsClientKey(e) == e.cat = "client"

\* the values a query may read, per kind (fields not read by that kind are constant)
QVal(kind, t) ==
  [found  |-> IF kind = "lookup" THEN TopicKey(t) \in regs ELSE FALSE,
   chans  |-> IF kind \in {"lookup", "channels"} THEN ChannelsQ(t) ELSE {},
   prods  |-> IF kind = "lookup" THEN {p \in prods[TopicKey(t)] : Active(p) /\ ~Tombstoned(t, p)} ELSE {},
   topics |-> IF kind = "topics" THEN TopicsQ ELSE {},
   live   |-> IF kind = "nodes" THEN {p \in Producers : conn[p] = "identified" /\ Active(p)} ELSE {},
   ptop   |-> IF kind = "nodes" THEN [p \in Producers |-> {tt \in Topics : p \in prods[TopicKey(tt)]}] ELSE <<>>,
   ptomb  |-> IF kind = "nodes" THEN [p \in Producers |-> {tt \in Topics : p \in prods[TopicKey(tt)] /\ Tombstoned(tt, p)}] ELSE <<>>,
   debug  |-> IF kind = "debug" THEN DebugQ ELSE {},
   cl     |-> IF kind = "debug" THEN ClientsQ ELSE {}]

\* every open query sees the new state
Kinds == {"lookup", "channels", "topics", "nodes", "debug"}
Seen ==
  LET nv == [kk \in Kinds, tt \in Topics |-> QVal(kk, tt)'] IN
  qopen' = [q \in Pollers |->
              IF qopen[q].kind = "" THEN qopen[q]
              ELSE LET v == nv[qopen[q].kind, qopen[q].t] IN
                   IF qopen[q].snaps[Len(qopen[q].snaps)] = v THEN qopen[q]
                   ELSE [qopen[q] EXCEPT !.snaps = Append(@, v)]]

TraceInit == /\ Init
             /\ l = 1
             /\ pend = [p \in Producers |-> NoCmd]
             /\ apend = [a \in Admins |-> NoCmd]
             /\ qopen = [q \in Pollers |-> NoQ]
             /\ lost = {}
             /\ stats = [queries |-> 0, torn |-> 0]
             /\ TLCSet(1, 1) /\ TLCSet(2, <<>>)

IsEvent(e) == l <= Len(Trace) /\ Trace[l].ev = e /\ l' = l + 1
Ev == Trace[l]

TReset == /\ IsEvent("Reset")
          /\ regs' = {} /\ prods' = [k \in AllKeys |-> {}]
          /\ tomb' = [t \in Topics |-> [p \in Producers |-> NoTomb]]
          /\ conn' = [p \in Producers |-> "none"] /\ lu' = [p \in Producers |-> 0] /\ now' = 0
          /\ act' = Act("Init", "", "", "", "")
          /\ pend' = [p \in Producers |-> NoCmd] /\ apend' = [a \in Admins |-> NoCmd]
          /\ qopen' = [q \in Pollers |-> NoQ] /\ lost' = {}
          /\ UNCHANGED stats

---------------------------------------------------------------------------
(* producer connections *)
FirstPc(op, c) == CASE op = "Register"   -> IF c # "" THEN "chan" ELSE "topic"
                    [] op = "Unregister" -> IF c # "" THEN "rem" ELSE "chans"
                    [] op = "Identify"   -> "hello"
                    [] op = "Disconnect" -> "closing"
                    [] op = "Ping"       -> "ping"
                    [] OTHER             -> "done"

TCmdBegin ==
  /\ IsEvent("CmdBegin")
  /\ Ev.p \in Producers /\ pend[Ev.p].op = ""
  /\ CASE Ev.op = "Connect" -> conn[Ev.p] = "none"
       [] Ev.op = "Identify" -> conn[Ev.p] = "connected"
       [] Ev.op \in {"Register", "Unregister"} -> conn[Ev.p] = "identified" /\ Ev.t \in Topics /\ Ev.c \in ChanOrNone
       [] Ev.op \in {"Ping", "Disconnect"} -> conn[Ev.p] # "none"
       [] OTHER -> FALSE
  /\ pend' = [pend EXCEPT ![Ev.p] = [op |-> Ev.op, t |-> Ev.t, c |-> Ev.c, pc |-> FirstPc(Ev.op, Ev.c), seen |-> {}]]
  /\ UNCHANGED <<vars, apend, qopen, lost, stats>>

TCmdEnd ==
  /\ IsEvent("CmdEnd")
  /\ LET p == Ev.p  c == pend[p] IN
     /\ p \in Producers /\ c.op = Ev.op
     /\ CASE c.op = "Connect" -> /\ conn' = [conn EXCEPT ![p] = "connected"]
            [] c.op = "Identify" -> /\ c.pc = "done" /\ Ev.resp = "OK" /\ UNCHANGED conn
            [] c.op = "Register" -> /\ c.pc = "done" /\ Ev.resp = "OK" /\ UNCHANGED conn
            [] c.op = "Unregister" ->
                 /\ c.pc = "done" /\ Ev.resp = "OK" /\ UNCHANGED conn
                 \* nobody but the connection itself adds its producer: these hold when the command returns
                 /\ IF c.c # "" THEN p \notin prods[ChanKey(c.t, c.c)]
                    ELSE p \notin prods[TopicKey(c.t)] /\ \A ch \in Channels : p \notin prods[ChanKey(c.t, ch)]
            [] c.op = "Ping" -> /\ (conn[p] = "identified" => c.pc = "done") /\ Ev.resp = "OK" /\ UNCHANGED conn
            [] c.op = "Disconnect" ->
                 /\ c.pc \in {"done", "closing"} /\ (c.pc = "closing" => conn[p] = "connected")
                 /\ \A k \in AllKeys : p \notin prods[k]           \* gone at once, from every key
                 /\ conn' = [conn EXCEPT ![p] = "none"]
            [] OTHER -> FALSE
     /\ pend' = [pend EXCEPT ![p] = NoCmd]
  /\ UNCHANGED <<dbvars, lu, now, act, apend, lost, stats>>
  /\ Seen

TPeerIdentify ==
  /\ IsEvent("PeerIdentify")
  /\ Ev.p \in Producers /\ pend[Ev.p].op = "Identify" /\ pend[Ev.p].pc = "hello"
  /\ pend' = [pend EXCEPT ![Ev.p].pc = "add"]
  /\ UNCHANGED <<vars, apend, qopen, lost, stats>>

TPeerPing ==
  /\ IsEvent("PeerPing")
  /\ Ev.p \in Producers /\ pend[Ev.p].op = "Ping" /\ pend[Ev.p].pc = "ping" /\ conn[Ev.p] = "identified"
  /\ pend' = [pend EXCEPT ![Ev.p].pc = "done"]
  /\ UNCHANGED <<vars, apend, qopen, lost, stats>>

TPeerGone ==
  /\ IsEvent("PeerGone")
  /\ Ev.p \in Producers /\ pend[Ev.p].op = "Disconnect" /\ pend[Ev.p].pc = "closing"
  /\ \A k \in AllKeys : Ev.p \notin prods[k]
  /\ conn[Ev.p] = "connected"                         \* the "client" entry is gone too
  /\ pend' = [pend EXCEPT ![Ev.p].pc = "done"]
  /\ UNCHANGED <<vars, apend, qopen, lost, stats>>

\* AddProducer
TAddProd ==
  /\ IsEvent("DBAddProd")
  /\ LET p == Ev.p  c == pend[p] IN
     /\ p \in Producers
     /\ IF IsClientKey(Ev)
        THEN /\ c.op = "Identify" /\ c.pc = "add"
             /\ Ev.added = TRUE /\ Ev.n = Cardinality(ClientsQ) + 1
             /\ conn' = [conn EXCEPT ![p] = "identified"]
             /\ pend' = [pend EXCEPT ![p].pc = "done"]
             /\ UNCHANGED dbvars
        ELSE LET k == KeyOf(Ev) IN
             /\ k \in AllKeys /\ c.op = "Register"
             /\ \/ c.pc = "chan"  /\ k = ChanKey(c.t, c.c) /\ pend' = [pend EXCEPT ![p].pc = "topic"]
                \/ c.pc = "topic" /\ k = TopicKey(c.t)     /\ pend' = [pend EXCEPT ![p].pc = "done"]
             /\ Ev.added = (p \notin prods[k])
             /\ Commit(AddProd(DB, k, p))
             /\ Ev.n = Cardinality(prods'[k])
             /\ UNCHANGED conn
  /\ UNCHANGED <<lu, now, act, apend, lost, stats>>
  /\ Seen

\* RemoveProducer
TRemProd ==
  /\ IsEvent("DBRemProd")
  /\ LET p == Ev.p  c == pend[p] IN
     /\ p \in Producers
     /\ IF IsClientKey(Ev)
        THEN /\ c.op = "Disconnect" /\ c.pc = "closing"
             /\ Ev.removed = (conn[p] = "identified")
             /\ conn' = [conn EXCEPT ![p] = "connected"]
             /\ Ev.left = Cardinality({q \in Producers : conn'[q] = "identified"})
             /\ UNCHANGED <<dbvars, pend>>
        ELSE LET k == KeyOf(Ev)  d == RemProd(DB, k, p) IN
             /\ k \in AllKeys
             /\ Ev.haskey = (k \in regs)
             /\ Ev.removed = (p \in prods[k])
             /\ Ev.left = Cardinality(d.prods[k])
             /\ \/ /\ c.op = "Disconnect" /\ c.pc = "closing" /\ UNCHANGED pend
                \/ /\ c.op = "Unregister" /\ c.pc = "rem" /\ k = ChanKey(c.t, c.c)
                   /\ pend' = [pend EXCEPT ![p].pc = IF c.c \in EphChannels /\ Ev.left = 0 THEN "remreg" ELSE "done"]
                \/ /\ c.op = "Unregister" /\ c.pc = "chans" /\ k[1] = "channel" /\ k[2] = c.t /\ k \notin c.seen
                   /\ pend' = [pend EXCEPT ![p].seen = @ \cup {k}]
                \/ /\ c.op = "Unregister" /\ c.pc = "chans" /\ k = TopicKey(c.t)
                   /\ pend' = [pend EXCEPT ![p].pc = IF c.t \in EphTopics /\ Ev.left = 0 THEN "remreg" ELSE "done"]
             /\ Commit(d)
             /\ UNCHANGED conn
  /\ UNCHANGED <<lu, now, act, apend, lost, stats>>
  /\ Seen

---------------------------------------------------------------------------
(* admin calls *)
TAdmBegin ==
  /\ IsEvent("AdmBegin")
  /\ Ev.a \in Admins /\ apend[Ev.a].op = ""
  /\ Ev.op \in {"CreateTopic", "CreateChannel", "DeleteTopic", "DeleteChannel", "Tombstone"}
  /\ Ev.t \in Topics
  /\ apend' = [apend EXCEPT ![Ev.a] = [op |-> Ev.op, t |-> Ev.t, c |-> Ev.c,   \* c: channel, or the node name for Tombstone
                                       pc |-> IF Ev.op = "CreateChannel" THEN "chan" ELSE "go", seen |-> {}]]
  /\ UNCHANGED <<vars, pend, qopen, lost, stats>>

TAdmEnd ==
  /\ IsEvent("AdmEnd")
  /\ LET c == apend[Ev.a] IN
     /\ Ev.a \in Admins /\ c.op # ""
     /\ CASE c.op = "CreateTopic"   -> c.pc = "done" /\ Ev.code = 200
          [] c.op = "CreateChannel" -> c.pc = "done" /\ Ev.code = 200
          [] c.op = "DeleteTopic"   -> Ev.code = 200
          [] c.op = "DeleteChannel" -> (Ev.code = 200 /\ c.pc = "done") \/ (Ev.code = 404 /\ c.pc = "go")
          [] c.op = "Tombstone"     -> Ev.code = 200
          [] OTHER -> FALSE
  /\ apend' = [apend EXCEPT ![Ev.a] = NoCmd]
  /\ UNCHANGED <<vars, pend, qopen, lost, stats>>

\* AddRegistration
TAddReg ==
  /\ IsEvent("DBAddReg")
  /\ LET k == KeyOf(Ev) IN
     /\ k \in AllKeys
     /\ Ev.new = (k \notin regs)
     /\ \E a \in Admins : LET c == apend[a] IN
          \/ c.op = "CreateTopic" /\ c.pc = "go" /\ k = TopicKey(c.t) /\ apend' = [apend EXCEPT ![a].pc = "done"]
          \/ c.op = "CreateChannel" /\ c.pc = "chan" /\ k = ChanKey(c.t, c.c) /\ apend' = [apend EXCEPT ![a].pc = "topic"]
          \/ c.op = "CreateChannel" /\ c.pc = "topic" /\ k = TopicKey(c.t) /\ apend' = [apend EXCEPT ![a].pc = "done"]
     /\ Commit(AddReg(DB, k))
  /\ UNCHANGED <<conn, lu, now, act, pend, lost, stats>>
  /\ Seen

\* RemoveRegistration: by an admin delete, or by an UNREGISTER that found an ephemeral key empty.
\* The event does not say who called, TLC tries every attribution; the trace is accepted when one of them explains
\* the whole log.  An admin delete may take other connections' registrations with it, an UNREGISTER may not.
AdminRemoves(a, k) ==
  LET c == apend[a] IN
  \/ c.op = "DeleteTopic" /\ c.pc = "go" /\ k[1] = "channel" /\ k[2] = c.t /\ k \notin c.seen
  \/ c.op = "DeleteTopic" /\ c.pc = "go" /\ k = TopicKey(c.t)
  \/ c.op = "DeleteChannel" /\ c.pc = "go" /\ k = ChanKey(c.t, c.c)
TRemReg ==
  /\ IsEvent("DBRemReg")
  /\ LET k == KeyOf(Ev) IN
     /\ k \in AllKeys
     /\ \/ /\ \E a \in Admins : LET c == apend[a] IN
                /\ AdminRemoves(a, k)
                /\ apend' = IF c.op = "DeleteTopic" /\ k[1] = "channel"
                            THEN [apend EXCEPT ![a].seen = @ \cup {k}] ELSE [apend EXCEPT ![a].pc = "done"]
           /\ UNCHANGED <<pend, lost>>
        \/ /\ prods[k] = {} \/ AllowLoss
           /\ \E p \in Producers : LET c == pend[p] IN
                /\ c.op = "Unregister" /\ c.pc = "remreg"
                /\ k = (IF c.c # "" THEN ChanKey(c.t, c.c) ELSE TopicKey(c.t))
                /\ pend' = [pend EXCEPT ![p].pc = "done"]
                \* the model's UNREGISTER drops an ephemeral key only when it is empty
                /\ lost' = lost \cup {<<k, q, p>> : q \in prods[k]}
           /\ UNCHANGED apend
     /\ Commit(RemReg(DB, k))
  /\ UNCHANGED <<conn, lu, now, act, stats>>
  /\ Seen

\* (code with the fix for the UNREGISTER race: RemoveRegistrationIfEmpty found the key occupied again and left it)
TRemRegSkip ==
  /\ IsEvent("DBRemRegSkip")
  /\ LET k == KeyOf(Ev) IN
     /\ k \in AllKeys /\ prods[k] # {} /\ Ev.n = Cardinality(prods[k])
     /\ \E p \in Producers : LET c == pend[p] IN
          /\ c.op = "Unregister" /\ c.pc = "remreg"
          /\ k = (IF c.c # "" THEN ChanKey(c.t, c.c) ELSE TopicKey(c.t))
          /\ pend' = [pend EXCEPT ![p].pc = "done"]
  /\ UNCHANGED <<vars, apend, qopen, lost, stats>>

\* Producer.Tombstone(): the harness never races it with a query or with the named producer's own commands
TTombstone ==
  /\ IsEvent("Tombstone")
  /\ Ev.p \in Producers /\ Ev.t \in Topics
  /\ \E a \in Admins : apend[a].op = "Tombstone" /\ apend[a].t = Ev.t /\ apend[a].c = Ev.node
  /\ NodeOf(Ev.p) = Ev.node
  /\ IF Ev.p \in prods[TopicKey(Ev.t)] THEN Commit(SetTomb(DB, Ev.t, Ev.p, now)) ELSE UNCHANGED dbvars
  /\ UNCHANGED <<conn, lu, now, act, pend, apend, lost, stats>>
  /\ Seen

---------------------------------------------------------------------------
(* queries *)
TQBegin ==
  /\ IsEvent("QBegin")
  /\ Ev.q \in Pollers /\ qopen[Ev.q].kind = ""
  /\ Ev.kind \in Kinds /\ Ev.t \in Topics
  /\ qopen' = [qopen EXCEPT ![Ev.q] = [kind |-> Ev.kind, t |-> Ev.t, snaps |-> <<QVal(Ev.kind, Ev.t)>>]]
  /\ UNCHANGED <<vars, pend, apend, lost, stats>>

DebugOf(r) == {[k |-> <<x.k[1], x.k[2], x.k[3]>>, p |-> x.p, tombstoned |-> x.tombstoned] : x \in Range(r)}

\* does the result match one state of the window (atomic), resp. its reads match states of the window in program order
Atomic(kind, S, r) ==
  \E i \in DOMAIN S :
    CASE kind = "lookup"   -> /\ r.found = S[i].found
                              /\ r.found => (Range(r.channels) = S[i].chans /\ Range(r.producers) = S[i].prods)
      [] kind = "channels" -> Range(r.channels) = S[i].chans
      [] kind = "topics"   -> Range(r.topics) = S[i].topics
      [] kind = "debug"    -> DebugOf(r.debug) = S[i].debug /\ Range(r.clients) = S[i].cl
      [] kind = "nodes"    -> /\ {x.p : x \in Range(r.nodes)} = S[i].live
                              /\ \A x \in Range(r.nodes) : /\ Range(x.topics) = S[i].ptop[x.p]
                                                           /\ Range(x.tombstoned) = S[i].ptomb[x.p]
Piecewise(kind, S, r) ==
  CASE kind = "lookup" ->
         IF ~r.found THEN \E i \in DOMAIN S : ~S[i].found
         ELSE \E i \in DOMAIN S : /\ S[i].found
                 /\ \E j \in i..Len(S) : /\ Range(r.channels) = S[j].chans
                                         /\ \E k \in j..Len(S) : Range(r.producers) = S[k].prods
    [] kind = "nodes" ->
         \E i \in DOMAIN S :
            /\ {x.p : x \in Range(r.nodes)} = S[i].live
            /\ \A x \in Range(r.nodes) :
                 \E j \in i..Len(S) :
                    /\ Range(x.topics) = S[j].ptop[x.p]
                    /\ \A tt \in Range(x.topics) :
                         \* (the per-topic producer list is read once per query and cached: possibly before j)
                         IF tt \in Range(x.tombstoned)
                         THEN \E k \in i..Len(S) : tt \in S[k].ptomb[x.p]
                         ELSE \E k \in i..Len(S) : tt \notin S[k].ptomb[x.p]
                    /\ Range(x.tombstoned) \subseteq Range(x.topics)
    [] OTHER -> FALSE

TQEnd ==
  /\ IsEvent("QEnd")
  /\ LET q == Ev.q  o == qopen[q]  at == (Atomic(o.kind, o.snaps, Ev) = TRUE) IN
     /\ q \in Pollers /\ o.kind = Ev.kind
     /\ (at \/ Piecewise(o.kind, o.snaps, Ev)) = TRUE     \* (a value, not an action-level disjunction)
     /\ stats' = [queries |-> stats.queries + 1, torn |-> stats.torn + (IF at THEN 0 ELSE 1)]
     /\ qopen' = [qopen EXCEPT ![q] = NoQ]
  /\ UNCHANGED <<vars, pend, apend, lost>>

TraceNext == \/ TReset \/ TCmdBegin \/ TCmdEnd \/ TPeerIdentify \/ TPeerPing \/ TPeerGone \/ TAddProd \/ TRemProd
             \/ TAdmBegin \/ TAdmEnd \/ TAddReg \/ TRemReg \/ TRemRegSkip \/ TTombstone \/ TQBegin \/ TQEnd
TraceSpec == TraceInit /\ [][TraceNext]_tvars

\* an UNREGISTER never removes what another connection registered (C14: the registry loses nothing; C15: OthersUntouched)
NoLostRegistration == lost = {}

HW == IF l > TLCGet(1) THEN TLCSet(1, l) /\ TLCSet(2, [stats |-> stats, regs |-> regs, prods |-> prods, conn |-> conn,
                                                       pend |-> pend, apend |-> apend, qopen |-> qopen]) ELSE TRUE
TraceAccepted ==
  LET hw == TLCGet(1) IN
  IF hw = Len(Trace) + 1 THEN PrintT(<<"TRACE_OK", Len(Trace), TLCGet(2).stats.queries, TLCGet(2).stats.torn>>)
  ELSE PrintT(<<"TRACE_REJECTED", hw, Trace[hw], TLCGet(2)>>) /\ FALSE
=============================================================================
