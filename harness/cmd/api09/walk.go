package main

// The transition table printed by TLC (spec/NsqdTcpRows.tla) and the walk that turns it into the same
// set of command-class sequences TLC enumerates in NsqdTcp_mc.cfg / NsqdTcp_thorough.cfg (the node
// count is compared with TLC's distinct-state count by checks/C09.py).

import (
	"bufio"
	"fmt"
	"os"
	"strconv"
	"strings"
)

type FSM struct {
	St             string
	HbOff, Sampled bool
	Zip            string
	Rdy, Held, Av  int
}

func (s FSM) String() string {
	return fmt.Sprintf("%s hbOff=%v sampled=%v zip=%s rdy=%d held=%d avail=%d", s.St, s.HbOff, s.Sampled, s.Zip, s.Rdy, s.Held, s.Av)
}

type Row struct {
	From    FSM
	Cmd     Cmd
	Frame   string // none / resp / err / close
	Body    string
	Codes   []string
	Fatal   bool
	Echo    string
	To      FSM
	EnqT    string
	EnqN    string
	EnqD    bool
	Created []string
	Core    bool
}

func (r Row) Key() string { return r.From.String() + " | " + r.Cmd.String() }
func (r Row) Expect() string {
	s := r.Frame
	if r.Body != "-" {
		s += " " + r.Body
	}
	if len(r.Codes) > 0 {
		s += " " + strings.Join(r.Codes, "|")
	}
	if r.Fatal {
		s += " then closed"
	}
	return s
}

type Setup struct {
	Depth int
	Pre   []Cmd
}

type Table struct {
	Rows   map[FSM][]Row
	N      int
	Setups []Setup
}

func tf(s string) bool { return s == "T" }

func parseFSM(f []string) (FSM, error) {
	if len(f) != 7 {
		return FSM{}, fmt.Errorf("state needs 7 fields: %v", f)
	}
	r, e1 := strconv.Atoi(f[4])
	h, e2 := strconv.Atoi(f[5])
	a, e3 := strconv.Atoi(f[6])
	if e1 != nil || e2 != nil || e3 != nil {
		return FSM{}, fmt.Errorf("bad numbers in %v", f)
	}
	return FSM{St: f[0], HbOff: tf(f[1]), Sampled: tf(f[2]), Zip: f[3], Rdy: r, Held: h, Av: a}, nil
}

func parseCmd(f []string) (Cmd, error) {
	if len(f) != 4 {
		return Cmd{}, fmt.Errorf("command needs 4 fields: %v", f)
	}
	return Cmd{f[0], f[1], f[2], f[3]}, nil
}

func LoadTable(path string) (*Table, error) {
	fh, err := os.Open(path)
	if err != nil {
		return nil, err
	}
	defer fh.Close()
	t := &Table{Rows: map[FSM][]Row{}}
	seen := map[string]bool{}
	sc := bufio.NewScanner(fh)
	sc.Buffer(make([]byte, 1<<20), 1<<20)
	for sc.Scan() {
		line := strings.Trim(strings.TrimSpace(sc.Text()), `"`)
		switch {
		case strings.HasPrefix(line, "SETUP "):
			parts := strings.Split(line[6:], "|")
			d, err := strconv.Atoi(strings.TrimSpace(parts[0]))
			if err != nil {
				return nil, fmt.Errorf("bad setup %q", line)
			}
			s := Setup{Depth: d}
			for _, p := range parts[1:] {
				c, err := parseCmd(strings.Fields(p))
				if err != nil {
					return nil, err
				}
				s.Pre = append(s.Pre, c)
			}
			t.Setups = append(t.Setups, s)
		case strings.HasPrefix(line, "ROW "):
			if seen[line] {
				continue
			}
			seen[line] = true
			p := strings.Split(line[4:], "|")
			if len(p) != 7 {
				return nil, fmt.Errorf("row needs 7 parts: %q", line)
			}
			var r Row
			var err error
			if r.From, err = parseFSM(strings.Fields(p[0])); err != nil {
				return nil, err
			}
			if r.Cmd, err = parseCmd(strings.Fields(p[1])); err != nil {
				return nil, err
			}
			o := strings.Fields(p[2])
			if len(o) != 5 {
				return nil, fmt.Errorf("outcome needs 5 fields: %q", line)
			}
			r.Frame, r.Body, r.Fatal, r.Echo = o[0], o[1], tf(o[3]), o[4]
			if o[2] != "-" {
				r.Codes = strings.Split(o[2], "+")
			}
			if r.To, err = parseFSM(strings.Fields(p[3])); err != nil {
				return nil, err
			}
			e := strings.Fields(p[4])
			if len(e) != 3 {
				return nil, fmt.Errorf("effect needs 3 fields: %q", line)
			}
			r.EnqT, r.EnqN, r.EnqD = e[0], e[1], tf(e[2])
			if c := strings.TrimSpace(p[5]); c != "-" {
				r.Created = strings.Split(c, "+")
			}
			r.Core = tf(strings.TrimSpace(p[6]))
			t.Rows[r.From] = append(t.Rows[r.From], r)
			t.N++
		}
	}
	if t.N == 0 || len(t.Setups) == 0 {
		return nil, fmt.Errorf("no rows / setups in %s", path)
	}
	return t, sc.Err()
}

func (t *Table) Find(s FSM, c Cmd) (Row, bool) {
	for _, r := range t.Rows[s] {
		if r.Cmd == c {
			return r, true
		}
	}
	return Row{}, false
}

var startFSM = FSM{St: "new", Zip: "none"}

// Walk enumerates every maximal sequence; returns the number of nodes (= TLC distinct states).
func (t *Table) Walk(prefixFine bool, emit func(seq []Row)) (nodes int, err error) {
	var dfs func(s FSM, path []Row, left int, stop bool)
	dfs = func(s FSM, path []Row, left int, stop bool) {
		rows := t.Rows[s]
		if stop || left == 0 || len(rows) == 0 {
			emit(append([]Row(nil), path...))
			return
		}
		for _, r := range rows {
			nodes++
			if r.Cmd.Op == "MAGIC" {
				dfs(r.To, append(path, r), left, false)
			} else {
				dfs(r.To, append(path, r), left-1, !prefixFine && !r.Core)
			}
		}
	}
	for _, su := range t.Setups {
		nodes++ // the initial state of this setup
		s := startFSM
		var path []Row
		for _, c := range su.Pre {
			r, ok := t.Find(s, c)
			if !ok || r.Fatal {
				return 0, fmt.Errorf("setup step %v not possible in state %v", c, s)
			}
			path = append(path, r)
			s = r.To
			nodes++
		}
		dfs(s, path, su.Depth, false)
	}
	return nodes, nil
}
