SPECIFICATION MSpec
CONSTANTS
  Chans = {"c1"}
  Ids = {"m1"}
  Ks = {1}
  MaxNow = 2
  Tmo = 1
  MaxTmo = 2
  MaxRdy = 1
  MaxAtt = 2
CONSTRAINT Bound
VIEW MView
INVARIANTS TypeOK NoLoss
PROPERTIES AttemptsStep Final Redelivery NeverEarly
CHECK_DEADLOCK FALSE
