SPECIFICATION RowsSpec
CONSTANTS
  Setups <- SetupsThorough
  PrefixFine = FALSE
  Backlog = 2
VIEW RowView
ACTION_CONSTRAINT RowOut
CHECK_DEADLOCK FALSE
