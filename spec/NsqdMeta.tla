------------------------------ MODULE NsqdMeta ------------------------------
(***************************************************************************)
(* nsqd's persisted metadata (nsqd.dat): C06.                              *)
(*                                                                         *)
(* live  : the topic / channel maps with paused and exiting flags          *)
(* file  : what is on disk under the final name ("absent" or a document)   *)
(* job   : the one PersistMetadata in progress (it always runs under the   *)
(*         daemon-wide lock): snapshot -> write tmp -> fsync -> rename     *)
(* npend : notify goroutines that still want to persist                    *)
(* http  : an admin request between its state change and its response      *)
(* Kill is enabled in every state.                                         *)
(*                                                                         *)
(* PersistAfterDelete = FALSE is the code as first found: a deletion is    *)
(* persisted only by the notify goroutine that Channel/Topic.exit spawns   *)
(* BEFORE the object is unlinked from its map, and GetMetadata does not    *)
(* skip exiting objects -- so the last document written still lists it.    *)
(* TRUE = the /topic/delete and /channel/delete handlers persist after the *)
(* deletion has completed (the repair), like the pause handlers do.        *)
(***************************************************************************)
EXTENDS Integers, FiniteSets, TLC

CONSTANTS Topics, Chans, PersistAfterDelete, MaxKills, MaxOps,
          BackupFirst    \* FALSE: the code (one rename, tmp -> final name).  TRUE: a variant that first moves the
                         \* current file aside (final -> .bak) and then renames tmp -> final: refuted by TLC

VARIABLES live, file, job, npend, http, running, visited, loaded, acked, kills, ops

vars == <<live, file, job, npend, http, running, visited, loaded, acked, kills, ops>>

Absent == [absent |-> TRUE]
NoJob == [stage |-> "idle", doc |-> Absent, by |-> ""]
NoHttp == [op |-> "none", t |-> "", c |-> ""]

\* a document / the projection of the live maps: topic -> [paused, chans: channel -> paused]
Proj(l) == [t \in DOMAIN l |-> [paused |-> l[t].paused, chans |-> [c \in DOMAIN l[t].chans |-> l[t].chans[c].paused]]]
\* what a user means by "the current topics and channels": objects whose deletion has not begun
Current(l) == LET ts == {t \in DOMAIN l : ~l[t].exiting} IN
              [t \in ts |-> [paused |-> l[t].paused,
                             chans |-> [c \in {c \in DOMAIN l[t].chans : ~l[t].chans[c].exiting} |-> l[t].chans[c].paused]]]
Load(doc) == [t \in DOMAIN doc |-> [paused |-> doc[t].paused, exiting |-> FALSE,
                                    chans |-> [c \in DOMAIN doc[t].chans |-> [paused |-> doc[t].chans[c], exiting |-> FALSE]]]]

Init == /\ live = <<>> /\ file = Absent /\ job = NoJob /\ npend = 0 /\ http = NoHttp
        /\ running = TRUE /\ visited = {<<>>} /\ loaded = <<>> /\ acked = <<>> /\ kills = 0 /\ ops = 0

Visit(l) == visited' = visited \cup {Proj(l)}
Op == ops < MaxOps /\ ops' = ops + 1

\* ---- creation (GetTopic / GetChannel): map insert and notify spawn under the lock
CreateTopic(t) ==
  /\ running /\ http = NoHttp /\ t \notin DOMAIN live /\ Op
  /\ live' = live @@ (t :> [paused |-> FALSE, exiting |-> FALSE, chans |-> <<>>])
  /\ npend' = npend + 1 /\ Visit(live')
  /\ UNCHANGED <<file, job, http, running, loaded, acked, kills>>
CreateChan(t, c) ==
  /\ running /\ http = NoHttp /\ t \in DOMAIN live /\ ~live[t].exiting /\ c \notin DOMAIN live[t].chans /\ Op
  /\ live' = [live EXCEPT ![t].chans = @ @@ (c :> [paused |-> FALSE, exiting |-> FALSE])]
  /\ npend' = npend + 1 /\ Visit(live')
  /\ UNCHANGED <<file, job, http, running, loaded, acked, kills>>

\* ---- deletion over HTTP: exit flag + notify, ... , unlink, (persist), respond
DelTopicBegin(t) ==
  /\ running /\ http = NoHttp /\ t \in DOMAIN live /\ ~live[t].exiting /\ Op
  /\ live' = [live EXCEPT ![t].exiting = TRUE] /\ npend' = npend + 1
  /\ http' = [op |-> "deltopic", t |-> t, c |-> ""]
  /\ acked' = [x \in {y \in DOMAIN acked : y[1] # t} |-> acked[x]]        \* the object those acknowledgements were about is going
  /\ UNCHANGED <<file, job, running, visited, loaded, kills>>
DelChanBegin(t, c) ==
  /\ running /\ http = NoHttp /\ t \in DOMAIN live /\ ~live[t].exiting /\ c \in DOMAIN live[t].chans /\ Op
  /\ live' = [live EXCEPT ![t].chans[c].exiting = TRUE] /\ npend' = npend + 1
  /\ http' = [op |-> "delchan", t |-> t, c |-> c]
  /\ acked' = [x \in {y \in DOMAIN acked : y # <<t, c>>} |-> acked[x]]
  /\ UNCHANGED <<file, job, running, visited, loaded, kills>>
Unlink ==
  /\ running /\ http.op \in {"deltopic", "delchan"}
  /\ live' = IF http.op = "deltopic" THEN [t \in (DOMAIN live) \ {http.t} |-> live[t]]
             ELSE [live EXCEPT ![http.t].chans = [c \in (DOMAIN @) \ {http.c} |-> @[c]]]
  /\ Visit(live')
  /\ http' = IF PersistAfterDelete THEN [op |-> "persist", t |-> "", c |-> ""] ELSE NoHttp
  /\ UNCHANGED <<file, job, npend, running, loaded, acked, kills, ops>>

\* ---- pause / unpause over HTTP: flag, synchronous persist, respond
Pause(t, c, p) ==
  /\ running /\ http = NoHttp /\ t \in DOMAIN live /\ ~live[t].exiting /\ Op
  /\ IF c = "" THEN live' = [live EXCEPT ![t].paused = p]
               ELSE c \in DOMAIN live[t].chans /\ live' = [live EXCEPT ![t].chans[c].paused = p]
  /\ http' = [op |-> "persist", t |-> t, c |-> c] /\ Visit(live')
  /\ acked' = [x \in (DOMAIN acked) \ {<<t, c>>} |-> acked[x]]    \* a new request supersedes the old acknowledgement
  /\ UNCHANGED <<file, job, npend, running, loaded, kills>>

\* ---- PersistMetadata, step by step; `by`: "notify" | "http"
PersistStart(by) ==
  /\ running /\ job = NoJob
  /\ \/ by = "notify" /\ npend > 0 /\ npend' = npend - 1 /\ http' = http
     \/ by = "http" /\ http.op = "persist" /\ http' = [http EXCEPT !.op = "persisting"] /\ npend' = npend
  /\ job' = [stage |-> "snap", doc |-> Proj(live), by |-> by]
  /\ UNCHANGED <<live, file, running, visited, loaded, acked, kills, ops>>
PersistStep ==
  /\ running /\ job.stage \in {"snap", "written", "synced", "movedaside"}
  /\ CASE job.stage = "snap"    -> job' = [job EXCEPT !.stage = "written"] /\ UNCHANGED <<file, http, acked>>
       [] job.stage = "written" -> job' = [job EXCEPT !.stage = "synced"] /\ UNCHANGED <<file, http, acked>>
       [] job.stage = "synced" /\ BackupFirst
                                -> file' = Absent /\ job' = [job EXCEPT !.stage = "movedaside"] /\ UNCHANGED <<http, acked>>
       [] job.stage \in {"synced", "movedaside"} /\ ~(job.stage = "synced" /\ BackupFirst)
                                -> /\ file' = job.doc /\ job' = NoJob           \* rename: the only writer of the final name
                                   /\ IF job.by = "http"
                                      THEN /\ http' = NoHttp                     \* ... and the response goes out
                                           /\ acked' = IF http.t # "" /\ http.t \in DOMAIN job.doc /\ (http.c = "" \/ http.c \in DOMAIN job.doc[http.t].chans)
                                                       THEN (<<http.t, http.c>> :> (IF http.c = "" THEN job.doc[http.t].paused
                                                                                    ELSE job.doc[http.t].chans[http.c])) @@ acked
                                                       ELSE acked
                                      ELSE UNCHANGED <<http, acked>>
  /\ UNCHANGED <<live, npend, running, visited, loaded, kills, ops>>

Kill ==
  /\ running /\ kills < MaxKills
  /\ running' = FALSE /\ kills' = kills + 1
  /\ live' = <<>> /\ job' = NoJob /\ npend' = 0 /\ http' = NoHttp
  /\ UNCHANGED <<file, visited, loaded, acked, ops>>
Start ==
  /\ ~running
  /\ running' = TRUE
  /\ live' = IF file = Absent THEN <<>> ELSE Load(file)
  /\ loaded' = IF file = Absent THEN <<>> ELSE file
  /\ UNCHANGED <<file, job, npend, http, visited, acked, kills, ops>>

Next == \/ \E t \in Topics : CreateTopic(t) \/ DelTopicBegin(t)
        \/ \E t \in Topics, c \in Chans : CreateChan(t, c) \/ DelChanBegin(t, c)
        \/ \E t \in Topics, c \in Chans \cup {""}, p \in BOOLEAN : Pause(t, c, p)
        \/ Unlink \/ PersistStart("notify") \/ PersistStart("http") \/ PersistStep \/ Kill \/ Start
Spec == Init /\ [][Next]_vars

---------------------------------------------------------------------------
Idle == running /\ npend = 0 /\ job = NoJob /\ http = NoHttp

\* the document a restart would load is one the daemon passed through
RestartSetWasVisited == file # Absent => file \in visited
LoadedWasVisited     == loaded \in visited
\* the final name, once it holds a document, always holds one: a restart never finds the data path without metadata
FileNeverVanishes == [][file # Absent => file' # Absent]_vars
\* once idle, the file is exactly the current topics/channels with their flags:
\* every completed creation is in it, every completed deletion is out of it
IdleFileEqualsLive == (Idle /\ (file # Absent \/ DOMAIN live # {})) => file = Current(live)
\* a pause/unpause that was answered is on disk (until a later request for the same object is made)
AckedPausePersisted ==
  \A x \in DOMAIN acked :
     (file # Absent /\ x[1] \in DOMAIN file /\ (x[2] = "" \/ x[2] \in DOMAIN file[x[1]].chans)) =>
        (IF x[2] = "" THEN file[x[1]].paused ELSE file[x[1]].chans[x[2]]) = acked[x]
=============================================================================
