package main

// A raw client connection under test: writes bytes, reads frames (never through a deadline that could
// cut a frame in half), follows snappy / deflate upgrades, keeps the ids of the messages it holds.

import (
	"bufio"
	"compress/flate"
	"encoding/binary"
	"errors"
	"fmt"
	"io"
	"net"
	"strings"
	"time"

	"github.com/golang/snappy"
)

type fres struct {
	ft   int32
	data []byte
	err  error
}

type TConn struct {
	c       *net.TCPConn
	r       io.Reader
	w       io.Writer
	flush   func() error
	pending chan fres
	Held    [][]byte // ids of messages received and not yet answered
	NMsgs   int      // message frames received
	NHeart  int
	half    bool
	skip    int // answers to probes still in the pipe: swallowed by Next
	Log     []string
}

func isPokeAnswer(f fres) bool {
	return f.ft == 1 && strings.HasPrefix(string(f.data), "E_TOUCH_FAILED TOUCH "+barrierID)
}

func Dial(addr string) (*TConn, error) {
	c, err := net.DialTimeout("tcp", addr, 60*time.Second)
	if err != nil {
		return nil, err
	}
	tc := c.(*net.TCPConn)
	return &TConn{c: tc, r: tc, w: tc, flush: func() error { return nil }}, nil
}

func (t *TConn) logf(f string, a ...interface{}) {
	if len(t.Log) < 200 {
		t.Log = append(t.Log, fmt.Sprintf(f, a...))
	}
}

// Send writes (errors are not fatal here: the daemon may have closed already; what counts is what
// can be read).
func (t *TConn) Send(b []byte, halfClose bool) {
	if t.half {
		return
	}
	t.c.SetWriteDeadline(time.Now().Add(120 * time.Second))
	_, err := t.w.Write(b)
	if err == nil {
		err = t.flush()
	}
	if err != nil {
		t.logf("write error: %v", err)
	}
	if halfClose {
		t.c.CloseWrite()
		t.half = true
	}
}

func readOne(r io.Reader) fres {
	var h [8]byte
	if _, err := io.ReadFull(r, h[:]); err != nil {
		return fres{err: err}
	}
	sz := int32(binary.BigEndian.Uint32(h[:4]))
	ft := int32(binary.BigEndian.Uint32(h[4:]))
	if sz < 4 || sz > 128<<20 {
		return fres{err: fmt.Errorf("malformed frame header: size %d type %d", sz, ft)}
	}
	data := make([]byte, sz-4)
	if _, err := io.ReadFull(r, data); err != nil {
		return fres{err: fmt.Errorf("short frame: %v", err)}
	}
	return fres{ft: ft, data: data}
}

// raw returns the next frame of any type, or ok=false when none arrived within d (the read stays
// pending and is picked up by the next call).
func (t *TConn) raw(d time.Duration) (fres, bool) {
	if t.pending == nil {
		ch := make(chan fres, 1)
		t.pending = ch
		r := t.r
		go func() { ch <- readOne(r) }()
	}
	select {
	case f := <-t.pending:
		t.pending = nil
		return f, true
	case <-time.After(d):
		return fres{}, false
	}
}

var errTimeout = errors.New("deadline passed")

// Next returns the next frame that is an answer (response or error), absorbing message frames and
// heartbeats on the way.  err is io.EOF-like when the daemon closed the connection.
func (t *TConn) Next(d time.Duration) (fres, error) {
	deadline := time.Now().Add(d)
	for {
		left := time.Until(deadline)
		if left <= 0 {
			return fres{}, errTimeout
		}
		f, ok := t.raw(left)
		if !ok {
			return fres{}, errTimeout
		}
		if f.err != nil {
			return f, f.err
		}
		if t.absorb(f) {
			continue
		}
		if t.skip > 0 && isPokeAnswer(f) {
			t.skip--
			continue
		}
		return f, nil
	}
}

// Answer waits for the answer to the command just sent.  When nothing arrives within probeAfter, a probe
// (a command that always has an answer) is sent behind it: if the probe's answer comes first, the command
// itself was processed WITHOUT an answer (silent=true) -- no need to sit out the full deadline.
func (t *TConn) Answer(d, probeAfter time.Duration, probe []byte, isProbe func(fres) bool) (f fres, silent bool, err error) {
	f, err = t.Next(probeAfter)
	if err != errTimeout {
		return f, false, err
	}
	if probe == nil || t.half {
		f, err = t.Next(d)
		return f, false, err
	}
	t.Send(probe, false)
	f, err = t.Next(d)
	if err != nil {
		return f, false, err
	}
	if isProbe(f) {
		return f, true, nil
	}
	if string(probe) == string(pokeTouch) {
		t.skip++ // the probe's own answer follows (if the connection survives)
	}
	return f, false, nil
}

func (t *TConn) absorb(f fres) bool {
	switch {
	case f.ft == 2:
		if len(f.data) >= 26 {
			id := append([]byte(nil), f.data[10:26]...)
			t.Held = append(t.Held, id)
		}
		t.NMsgs++
		return true
	case f.ft == 0 && string(f.data) == "_heartbeat_":
		t.NHeart++
		if !t.half {
			t.Send([]byte("NOP\n"), false)
		}
		return true
	}
	return false
}

// WaitHeld waits until n messages are held.  poke, when set, is sent every now and then: a command
// with an answer makes the daemon flush its output buffer (needed when the client disabled the
// output buffer timeout).  Answers to pokes are swallowed here.
func (t *TConn) WaitHeld(n int, d time.Duration, poke []byte, pokeAnswer string) error {
	deadline := time.Now().Add(d)
	outstanding := 0
	step := 30 * time.Millisecond
	for len(t.Held) < n || outstanding > 0 {
		if time.Now().After(deadline) {
			return errTimeout
		}
		f, ok := t.raw(step)
		if !ok {
			if poke != nil && outstanding == 0 && len(t.Held) < n {
				t.Send(poke, false)
				outstanding++
			}
			if step < time.Second {
				step *= 2
			}
			continue
		}
		if f.err != nil {
			return f.err
		}
		if t.absorb(f) {
			continue
		}
		if outstanding > 0 && f.ft == 1 && strings.HasPrefix(string(f.data), pokeAnswer) {
			outstanding--
			continue
		}
		return fmt.Errorf("unexpected frame type %d %q while waiting for messages", f.ft, trunc(f.data))
	}
	return nil
}

// Closed waits for the daemon to close the connection; anything else that arrives first is returned.
func (t *TConn) Closed(d time.Duration) (extra *fres, err error) {
	f, e := t.Next(d)
	if e == errTimeout {
		return nil, errTimeout
	}
	if e != nil {
		if isClose(e) {
			return nil, nil
		}
		return nil, e
	}
	return &f, nil
}

func isClose(err error) bool {
	if err == io.EOF || err == io.ErrUnexpectedEOF {
		return true
	}
	s := err.Error()
	return strings.Contains(s, "connection reset") || strings.Contains(s, "broken pipe") ||
		strings.Contains(s, "use of closed") || strings.Contains(s, "EOF")
}

func (t *TConn) UpgradeSnappy() {
	t.r = snappy.NewReader(t.c)
	sw := snappy.NewBufferedWriter(t.c)
	t.w = sw
	t.flush = sw.Flush
}

func (t *TConn) UpgradeDeflate(level int) {
	t.r = flate.NewReader(bufio.NewReader(t.c))
	fw, _ := flate.NewWriter(t.c, level)
	t.w = fw
	t.flush = fw.Flush
}

func (t *TConn) Close() { t.c.Close() }

func (t *TConn) TakeHeld() []byte {
	id := t.Held[0]
	t.Held = t.Held[1:]
	return id
}

func trunc(b []byte) string {
	if len(b) > 120 {
		return string(b[:120]) + "..."
	}
	return string(b)
}
