---------------------------- MODULE NsqdTcpTrace ----------------------------
(* Binding B for C09: byte streams sent to a real nsqd (seeded class walks, byte-level mutations  *)
(* of them, raw garbage), classified by the harness (harness/cmd/api09/classify.go) into command  *)
(* classes, together with the frames the daemon answered and what /stats says was enqueued.       *)
(* The recorded stream must be a behaviour of the table of NsqdTcp:                               *)
(*   - walking the table over the commands yields exactly the observed frames, in order           *)
(*     (type, response body / error code within the documented set);                             *)
(*   - nothing after a fatal answer is answered;                                                  *)
(*   - the number of messages enqueued is exactly the sum of the accepted publishes               *)
(*     (RejectedPublishEnqueuesNothing, MPUB all-or-nothing);                                     *)
(*   - daemon and bystander are alive afterwards.                                                 *)
(* Streams the classifier cannot name ("Opaque") only have to leave daemon and bystander alive.   *)
(* The name class "dying" (a topic whose deletion is parked half-way by the replayer) needs a      *)
(* prepared daemon state: binding B never generates it and the classifier never names it, so no    *)
(* recorded Cmd carries it; those rows are exercised by binding A (the replayer) only.             *)
EXTENDS NsqdTcp, Json

Trace == ndJsonDeserialize("trace.ndjson")
VARIABLES l, frames, fi, cnt, opq
tvars == <<vars, l, frames, fi, cnt, opq>>
book == <<enq, topics, hist, pre, left, stop>>

TraceInit ==
  /\ InitFSM /\ enq = <<>> /\ topics = {} /\ hist = <<>> /\ stop = FALSE /\ pre = <<>> /\ left = 0
  /\ l = 1 /\ frames = <<>> /\ fi = 1 /\ cnt = 0 /\ opq = FALSE
  /\ TLCSet(1, 1) /\ TLCSet(2, <<>>)

IsEvent(e) == l <= Len(Trace) /\ Trace[l].ev = e /\ l' = l + 1

\* a new connection: the frames it will be answered with are known in advance (recorded)
TStream ==
  /\ IsEvent("Stream")
  /\ st' = "new" /\ hbOff' = FALSE /\ sampled' = FALSE /\ zip' = "none" /\ rdy' = 0 /\ held' = 0 /\ avail' = 0
  /\ cmd' = C("-", "-", "-", "-") /\ last' = Silent /\ ost' = ost
  /\ frames' = Trace[l].frames /\ fi' = 1 /\ cnt' = 0 /\ opq' = FALSE
  /\ UNCHANGED book

RespName(b) == IF b = "JSON" THEN "JSON" ELSE b

Match ==
  CASE last'.frame \in {"none", "close"} -> fi' = fi
    [] last'.frame = "resp" -> /\ fi <= Len(frames) /\ frames[fi].t = "resp" /\ frames[fi].v = RespName(last'.body)
                               /\ fi' = fi + 1
    [] last'.frame = "err"  -> /\ fi <= Len(frames) /\ frames[fi].t = "err" /\ frames[fi].v \in last'.codes
                               /\ fi' = fi + 1

TCmd ==
  /\ IsEvent("Cmd")
  /\ LET e == Trace[l]
         c == C(e.op, e.a, e.b, e.c) IN
     IF st = "closed" \/ opq
     THEN UNCHANGED <<vars, frames, fi, cnt, opq>>      \* the daemon no longer reads this connection
     ELSE /\ Apply(c)
          /\ Match
          /\ cnt' = cnt + (IF c.op \in Pubs /\ last'.frame = "resp" THEN e.nm ELSE 0)
          /\ UNCHANGED <<frames, opq, book>>

TOpaque == IsEvent("Opaque") /\ opq' = TRUE /\ UNCHANGED <<vars, frames, fi, cnt>>

TEnd ==
  /\ IsEvent("End")
  /\ Trace[l].alive
  /\ opq \/ (fi = Len(frames) + 1 /\ Trace[l].enq = cnt)
  /\ UNCHANGED <<vars, frames, fi, cnt, opq>>

TraceNext == TStream \/ TCmd \/ TOpaque \/ TEnd
TraceSpec == TraceInit /\ [][TraceNext]_tvars

HW == IF l > TLCGet(1) THEN TLCSet(1, l) /\ TLCSet(2, <<st, fi, cnt, frames, last>>) ELSE TRUE
TraceAccepted ==
  LET hw == TLCGet(1) IN
  IF hw = Len(Trace) + 1 THEN PrintT(<<"TRACE_OK", Len(Trace)>>)
  ELSE PrintT(<<"TRACE_REJECTED", hw, Trace[hw], TLCGet(2)>>) /\ FALSE
=============================================================================
