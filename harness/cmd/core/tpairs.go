package main

import (
	"encoding/json"
	"flag"
	"fmt"
	"net/http"
	"os"
	"runtime"
	"sort"
	"strings"
	"sync"
	"time"

	"github.com/nsqio/nsq/internal/verif"
	"github.com/nsqio/nsq/nsqd"
	"github.com/nsqio/nsq/verifharness/hlib"
)

// Binding A' for the topic level: TLC (NsqdTopic) enumerates every interleaving of the critical sections of up to
// three topic operations with the steps of the topic's message pump; the replayer forces each schedule on the real
// daemon through the verif yield points and reports what every channel ended up with.

type tCase struct {
	OpA       string          `json:"opA"`
	OpB       string          `json:"opB"`
	OpC       string          `json:"opC"`
	Situation string          `json:"situation"`
	Sched     string          `json:"sched"` // A B C: one segment of that operation; + / -: one pump step ending at a copy gate / in its select
	Alts      json.RawMessage `json:"alternatives,omitempty"`
}

type tObs struct {
	Case          tCase               `json:"case"`
	Done          bool                `json:"done"`
	Blocked       string              `json:"blocked,omitempty"`
	Incon         string              `json:"inconclusive,omitempty"`
	POrder        string              `json:"porder"`
	Status        map[string]int      `json:"status"`         // actor -> HTTP status of its request (-1: transport error, 0: not an HTTP operation)
	KnownAtStart  []string            `json:"known_at_start"` // ... when Start() was called on the topic (situation unstarted)
	AckedAtStart  []string            `json:"acked_at_start"`
	PausedAtStart bool                `json:"paused_at_start"`    // the topic's pause had been acknowledged when Start() was called
	KnownAtPut    []string            `json:"known_at_put"`       // channels whose existence had been acknowledged to a client when PUT's put segment was released
	PausedAtPut   bool                `json:"pause_acked_at_put"` // the topic's pause had been acknowledged (and no unpause requested) at that moment
	AckedAtExit   []string            `json:"acked_at_exit"`      // messages acknowledged when the shutdown was requested
	KnownAtExit   []string            `json:"known_at_exit"`      // channels acknowledged by then
	TopicExists   bool                `json:"topic_exists"`
	Paused        bool                `json:"paused"`
	TopicDepth    int64               `json:"topic_depth"` // first settled reading
	MsgCount      int64               `json:"message_count"`
	Channels      []string            `json:"channels"`
	PausedPhase   map[string][]string `json:"paused_phase,omitempty"` // channel -> bodies it delivered while the topic was still paused
	Final         map[string][]string `json:"final"`                  // channel -> every body it delivered (after unpausing)
	Restarted     bool                `json:"restarted"`
	Back          map[string][]string `json:"back,omitempty"`       // after graceful shutdown + restart
	Unexpected    string              `json:"unexpected,omitempty"` // the pump moved when NsqdTopic says it rests (or the reverse)
	Events        int                 `json:"events"`
}

// ---- gates with prefix arming ---------------------------------------------------------------------------------

type tArrival struct {
	id     string
	prefix string
	ch     chan struct{}
}

type tGates struct {
	mu      sync.Mutex
	armed   map[string]bool // prefix -> one-shot?
	arrived chan *tArrival
	waiting []*tArrival
}

func newTGates() *tGates {
	return &tGates{armed: map[string]bool{}, arrived: make(chan *tArrival, 64)}
}

func (g *tGates) fn(point string, key interface{}) {
	id := point + "|" + fmt.Sprint(key)
	g.mu.Lock()
	var hit string
	for p, once := range g.armed {
		if strings.HasPrefix(id, p) {
			hit = p
			if once {
				delete(g.armed, p)
			}
			break
		}
	}
	if hit == "" {
		g.mu.Unlock()
		return
	}
	a := &tArrival{id: id, prefix: hit, ch: make(chan struct{})}
	g.waiting = append(g.waiting, a)
	g.mu.Unlock()
	g.arrived <- a
	<-a.ch
}

func (g *tGates) arm(prefix string, once bool) { g.mu.Lock(); g.armed[prefix] = once; g.mu.Unlock() }

func (g *tGates) release(a *tArrival) {
	g.mu.Lock()
	for i, w := range g.waiting {
		if w == a {
			g.waiting = append(g.waiting[:i], g.waiting[i+1:]...)
			close(a.ch)
			break
		}
	}
	g.mu.Unlock()
}

func (g *tGates) releaseAll() {
	g.mu.Lock()
	g.armed = map[string]bool{}
	for _, w := range g.waiting {
		close(w.ch)
	}
	g.waiting = nil
	g.mu.Unlock()
}

type tActor struct {
	name     string
	op       string
	gates    []string // prefixes, in the order the operation passes them
	next     int      // index of the gate to arm before the next segment
	at       *tArrival
	launched bool
	finished bool
	waiting  bool // released into a rendezvous with the pump (NsqdTopic: waitr)
	done     chan struct{}
	launch   func()
}

func tpairsMain(args []string) int {
	fs := flag.NewFlagSet("tpairs", flag.ExitOnError)
	in := fs.String("cases", "cases.json", "schedules from TLC")
	out := fs.String("out", "obs.ndjson", "observations")
	progress := fs.String("progress", "progress.txt", "index of the case being replayed (for crash attribution)")
	from := fs.Int("from", 0, "first case index")
	dir := fs.String("dir", "", "scratch dir")
	fs.Parse(args)
	data, err := os.ReadFile(*in)
	if err != nil {
		fmt.Fprintln(os.Stderr, err)
		return 2
	}
	var cases []tCase
	if err := json.Unmarshal(data, &cases); err != nil {
		fmt.Fprintln(os.Stderr, err)
		return 2
	}
	f, err := os.OpenFile(*out, os.O_WRONLY|os.O_CREATE|os.O_APPEND, 0644)
	if err != nil {
		return 2
	}
	defer f.Close()
	for i := *from; i < len(cases); i++ {
		os.WriteFile(*progress, []byte(fmt.Sprint(i)), 0644)
		d := fmt.Sprintf("%s/tcase%d", *dir, i)
		os.MkdirAll(d, 0755)
		obs := replayTopic(cases[i], d)
		os.RemoveAll(d)
		b, _ := json.Marshal(obs)
		f.Write(append(b, '\n'))
		f.Sync()
	}
	os.WriteFile(*progress, []byte(fmt.Sprint(len(cases))), 0644)
	return 0
}

func replayTopic(tc tCase, dir string) *tObs {
	obs := &tObs{Case: tc, Status: map[string]int{}, Final: map[string][]string{}}
	var evmu sync.Mutex
	var evs []verif.Event
	copied := 0   // TCopied events of topic t
	notifies := 0 // Notify goroutines that have not finished
	closedCh := make(chan struct{})
	var closedOnce sync.Once
	verif.SetSink(func(e verif.Event) {
		evmu.Lock()
		evs = append(evs, e)
		switch e.Ev {
		case "TCopied":
			copied++
		case "NotifySpawn":
			notifies++
		case "NotifyDone":
			notifies--
		}
		evmu.Unlock()
		if e.Ev == "TClosed" && strings.HasPrefix(hlib.KVStr(e, "t"), "t#") {
			closedOnce.Do(func() { close(closedCh) })
		}
	})
	defer verif.SetSink(nil)
	g := newTGates()
	verif.SetGate(g.fn)
	defer verif.SetGate(nil)

	nd, err := startNode(dir, func(o *nsqd.Options) {
		o.MemQueueSize = 10
		if tc.Situation == "backlog" {
			// everything goes through the disk queues, and their metadata is written at once: what a channel holds is what
			// a channel of the same name would find on the data path
			o.MemQueueSize = 0
			o.SyncEvery = 1
		}
		o.MsgTimeout = 10 * time.Minute
		o.MaxMsgTimeout = 20 * time.Minute
	})
	if err != nil {
		obs.Incon = "start: " + err.Error()
		return obs
	}
	stopped := false
	defer func() {
		g.releaseAll()
		if !stopped {
			nd.stop(20 * time.Second)
		}
	}()
	fail := func(f string, a ...interface{}) *tObs { obs.Incon = fmt.Sprintf(f, a...); return obs }
	post := func(path string, body []byte) int {
		st, _, err := nd.post(path, body)
		if err != nil {
			return -1
		}
		return st
	}
	var unstarted *nsqd.Topic
	if tc.Situation == "unstarted" {
		// in NSQD's map, Start() not called yet: where GetTopic is while it asks the nsqlookupds for the topic's channels
		unstarted = nsqd.VerifUnstartedTopic(nd.N, "t")
	} else if post("/topic/create?topic=t", nil) != 200 {
		return fail("create topic")
	}
	if tc.Situation != "nochan" && tc.Situation != "unstarted" {
		if post("/channel/create?topic=t&channel=c", nil) != 200 {
			return fail("create channel")
		}
	}

	// ---- the pump --------------------------------------------------------------------------------------------
	const pumpGate = "tpump.beforeCopy|t/"
	var pumpAt *tArrival // where the pump is parked (nil: running or in its select)
	pumpArrivals, pumpConsumed := 0, 0
	actors := map[string]*tActor{}
	var stepping *tActor
	dispatch := func(a *tArrival) {
		if a.prefix == pumpGate {
			pumpAt = a
			pumpArrivals++
			rest := a.id[len(pumpGate):]
			obs.POrder += rest[:1]
			return
		}
		if stepping != nil {
			stepping.at = a
			return
		}
		// an operation that was waiting for the pump (released earlier, see stepWait) has reached its next yield point
		for _, b := range actors {
			if b.waiting && !b.finished {
				for _, p := range b.gates {
					if p == a.prefix {
						b.at = a
						b.waiting = false
						return
					}
				}
			}
		}
	}
	g.arm(pumpGate, false)
	switch tc.Situation {
	case "held":
		if post("/pub?topic=t", []byte("m1")) != 200 {
			return fail("pub m1")
		}
		select {
		case a := <-g.arrived:
			dispatch(a)
			pumpConsumed = pumpArrivals
		case <-time.After(5 * time.Second):
			return fail("the pump did not reach its copy gate with m1")
		}
	case "paused":
		if post("/topic/pause?topic=t", nil) != 200 {
			return fail("pause")
		}
		if post("/pub?topic=t", []byte("m1")) != 200 {
			return fail("pub m1")
		}
	case "nochan", "unstarted":
		if post("/pub?topic=t", []byte("m1")) != 200 {
			return fail("pub m1")
		}
	case "backlog":
		// m1 is copied to c (no consumer there) before anything else starts
		if post("/pub?topic=t", []byte("m1")) != 200 {
			return fail("pub m1")
		}
		select {
		case a := <-g.arrived:
			dispatch(a)
			pumpConsumed = pumpArrivals
		case <-time.After(5 * time.Second):
			return fail("the pump did not reach its copy gate with m1")
		}
		c0 := 0
		if a := pumpAt; a != nil {
			pumpAt = nil
			g.release(a)
		}
		for i := 0; i < 2500; i++ {
			evmu.Lock()
			c0 = copied
			evmu.Unlock()
			if c0 > 0 {
				break
			}
			time.Sleep(2 * time.Millisecond)
		}
		if c0 == 0 {
			return fail("m1 was not copied to c")
		}
		obs.POrder = "" // the set-up copy is not part of the schedule
	}

	// ---- the operations ------------------------------------------------------------------------------------------
	exitReturned := make(chan struct{})
	mk := func(name, op string) *tActor {
		a := &tActor{name: name, op: op, done: make(chan struct{})}
		httpOp := func(path string, body []byte) func() {
			return func() {
				go func() {
					obs.Status[name] = -2
					st := post(path, body)
					evmu.Lock()
					obs.Status[name] = st
					evmu.Unlock()
					close(a.done)
				}()
			}
		}
		switch op {
		case "PUT":
			a.gates = []string{"topic.put.afterExitCheck|t#"}
			a.launch = httpOp("/pub?topic=t", []byte("m2"))
		case "GETD":
			a.gates = []string{"getchannel.beforeHandshake|t#"}
			a.launch = httpOp("/channel/create?topic=t&channel=d", nil)
		case "GETC":
			a.gates = []string{"getchannel.beforeHandshake|t#"}
			a.launch = httpOp("/channel/create?topic=t&channel=c", nil)
		case "DELC":
			a.gates = []string{"chan.exit.flag|t/c#", "chan.exit.clientsClosed|t/c#", "empty.afterReset|t/c#", "empty.afterClients|t/c#",
				"chandelete.afterDelete|t/c#"}
			a.launch = httpOp("/channel/delete?topic=t&channel=c", nil)
		case "PAUSE":
			a.launch = httpOp("/topic/pause?topic=t", nil)
		case "UNPAUSE":
			a.launch = httpOp("/topic/unpause?topic=t", nil)
		case "START":
			a.launch = func() {
				go func() {
					if unstarted != nil {
						unstarted.Start()
					}
					evmu.Lock()
					obs.Status[name] = 200
					evmu.Unlock()
					close(a.done)
				}()
			}
		case "TDELETE":
			a.gates = []string{"topic.exit.flag|t#", "topic.exit.pumpStopped|t#"}
			a.launch = httpOp("/topic/delete?topic=t", nil)
		case "TEXIT":
			a.gates = []string{"topic.exit.flag|t#", "topic.exit.pumpStopped|t#"}
			a.launch = func() {
				go func() { nd.N.Exit(); close(exitReturned) }()
				go func() { <-closedCh; close(a.done) }()
			}
		default:
			return nil
		}
		return a
	}
	for n, op := range map[string]string{"A": tc.OpA, "B": tc.OpB, "C": tc.OpC} {
		if a := mk(n, op); a != nil {
			actors[n] = a
		}
	}
	statusOf := func(n string) int {
		evmu.Lock()
		defer evmu.Unlock()
		return obs.Status[n]
	}
	isDone := func(a *tActor) bool {
		select {
		case <-a.done:
			a.finished = true
		default:
		}
		return a.finished
	}
	// what had been acknowledged to clients at this moment
	knownNow := func() []string {
		k := []string{}
		if tc.Situation != "nochan" && tc.Situation != "unstarted" {
			k = append(k, "c")
		}
		for n, a := range actors {
			if a.op == "GETD" && isDone(a) && statusOf(n) == 200 {
				k = append(k, "d")
				break
			}
		}
		if tc.Situation == "unstarted" {
			for n, a := range actors {
				if a.op == "GETC" && isDone(a) && statusOf(n) == 200 {
					k = append(k, "c")
					break
				}
			}
		}
		sort.Strings(k)
		return k
	}
	ackedNow := func() []string {
		k := []string{}
		if tc.Situation != "idle" {
			k = append(k, "m1")
		}
		for n, a := range actors {
			if a.op == "PUT" && isDone(a) && statusOf(n) == 200 {
				k = append(k, "m2")
			}
		}
		return k
	}
	pausedNow := func() bool {
		p := tc.Situation == "paused"
		for n, a := range actors {
			if a.op == "PAUSE" && isDone(a) && statusOf(n) == 200 {
				p = true
			}
		}
		for _, a := range actors {
			if a.op == "UNPAUSE" && a.launched {
				p = false
			}
		}
		return p
	}

	wait := func(cond func() bool, d time.Duration) bool {
		deadline := time.After(d)
		for {
			if cond() {
				return true
			}
			select {
			case a := <-g.arrived:
				dispatch(a)
			case <-time.After(2 * time.Millisecond):
			case <-deadline:
				return cond()
			}
		}
	}
	stepActor := func(a *tActor) string {
		if a.finished {
			return "already finished"
		}
		stepping = a
		defer func() { stepping = nil }()
		// a Notify goroutine takes NSQD's lock and then the topic's; unless a PutMessage is parked with the topic's read
		// lock (NsqdTopic: npend /\ rl # {}) it is over in microseconds -- wait for it, so that whether it holds NSQD's lock
		// when this segment starts does not depend on the Go scheduler
		putParked := false
		for _, b := range actors {
			if b.op == "PUT" && b.at != nil {
				putParked = true
			}
		}
		if !putParked {
			wait(func() bool { evmu.Lock(); defer evmu.Unlock(); return notifies <= 0 }, 3*time.Second)
		}
		if a.op == "PUT" && a.launched {
			obs.KnownAtPut = knownNow()
			obs.PausedAtPut = pausedNow()
		}
		if a.op == "TEXIT" && !a.launched {
			obs.AckedAtExit = ackedNow()
			obs.KnownAtExit = knownNow()
		}
		if a.op == "START" && !a.launched {
			obs.AckedAtStart = ackedNow()
			obs.KnownAtStart = knownNow()
			obs.PausedAtStart = pausedNow()
		}
		if a.next < len(a.gates) {
			g.arm(a.gates[a.next], true)
			a.next++
		}
		prev := a.at
		a.at = nil
		if !a.launched {
			a.launched = true
			a.launch()
		} else if prev != nil {
			g.release(prev)
		} else if a.waiting {
			// released earlier into a rendezvous that NsqdTopic says is over by now
		} else {
			return "segment of " + a.op + " has nowhere to start from"
		}
		if !wait(func() bool { return a.at != nil || isDone(a) }, 5*time.Second) {
			return "segment of " + a.op + " neither reached its next yield point nor completed within 5s"
		}
		if a.op == "PUT" && isDone(a) && obs.KnownAtPut == nil {
			// refused at the exit check: there was no put segment
			obs.KnownAtPut = []string{}
		}
		return ""
	}
	// stepWait: the operation runs up to a rendezvous with the busy pump and blocks there (NsqdTopic: Arrive)
	stepWait := func(a *tActor) string {
		if a.finished {
			return "already finished"
		}
		putParked := false
		for _, b := range actors {
			if b.op == "PUT" && b.at != nil {
				putParked = true
			}
		}
		if !putParked {
			wait(func() bool { evmu.Lock(); defer evmu.Unlock(); return notifies <= 0 }, 3*time.Second)
		}
		if a.op == "TEXIT" && !a.launched {
			obs.AckedAtExit = ackedNow()
			obs.KnownAtExit = knownNow()
		}
		if a.next < len(a.gates) {
			g.arm(a.gates[a.next], true)
			a.next++
		}
		prev := a.at
		a.at = nil
		a.waiting = true
		if !a.launched {
			a.launched = true
			a.launch()
		} else if prev != nil {
			g.release(prev)
		} else {
			return "segment of " + a.op + " has nowhere to start from"
		}
		wait(func() bool { return a.at != nil || isDone(a) }, 15*time.Millisecond)
		if a.at != nil || isDone(a) {
			a.waiting = false
			return "operation " + a.op + " went on although the pump was busy copying (NsqdTopic: it waits for the pump's select)"
		}
		return ""
	}
	stepPump := func(park bool) string {
		if pumpArrivals > pumpConsumed {
			// it arrived while an operation's segment was running (woken by that segment)
			if !park {
				return "pump: reached a copy gate where NsqdTopic says it rests in its select"
			}
			pumpConsumed++
			return ""
		}
		evmu.Lock()
		c0 := copied
		evmu.Unlock()
		if pumpAt != nil {
			a := pumpAt
			pumpAt = nil
			g.release(a)
		} else if !park {
			return "pump: asked to finish a copy round but it holds nothing"
		}
		if park {
			if !wait(func() bool { return pumpArrivals > pumpConsumed }, 5*time.Second) {
				return "pump: did not reach its next copy gate within 5s"
			}
			pumpConsumed++
			return ""
		}
		if !wait(func() bool { evmu.Lock(); defer evmu.Unlock(); return copied > c0 }, 5*time.Second) {
			return "pump: did not finish its copy round within 5s"
		}
		wait(func() bool { return pumpArrivals > pumpConsumed }, 15*time.Millisecond)
		if pumpArrivals > pumpConsumed {
			obs.Unexpected = "the pump took another message where NsqdTopic says it rests in its select"
		}
		return ""
	}
	softUnexpected := false
	for i, x := range tc.Sched {
		var msg string
		switch x {
		case '+':
			msg = stepPump(true)
		case '-':
			msg = stepPump(false)
		case 'a', 'b', 'c':
			a := actors[strings.ToUpper(string(x))]
			if a == nil {
				msg = "no such actor"
			} else if m := stepWait(a); m != "" {
				// keep going: what follows shows what the early return leads to
				if obs.Unexpected == "" {
					obs.Unexpected = fmt.Sprintf("step %d (%c): %s", i, x, m)
				}
				softUnexpected = true
			}
		default:
			a := actors[string(x)]
			if a == nil {
				msg = "no such actor"
			} else if a.finished || isDone(a) {
				if !softUnexpected {
					msg = "already finished"
				}
			} else {
				msg = stepActor(a)
			}
		}
		if msg != "" {
			// the real code did not move the way NsqdTopic says (a shape matter, unless something never completes once
			// every gate is open -- see below); the outcome is observed and judged all the same
			obs.Unexpected = fmt.Sprintf("step %d (%c): %s", i, x, msg)
			if os.Getenv("VERIF_DUMP") != "" {
				buf := make([]byte, 1<<20)
				buf = buf[:runtime.Stack(buf, true)]
				os.Stderr.Write(buf)
			}
			break
		}
		if obs.Unexpected != "" && !softUnexpected {
			break
		}
	}
	g.releaseAll()
	// drain late arrivals so that nobody blocks on the arrival channel
	go func() {
		for a := range g.arrived {
			_ = a
		}
	}()
	for _, a := range actors {
		if a.launched && !a.finished {
			select {
			case <-a.done:
				a.finished = true
			case <-time.After(10 * time.Second):
				if obs.Blocked == "" {
					obs.Blocked = "operation " + a.op + " never completed after all yield points were released"
				}
			}
		}
	}
	// the schedule could not be followed to its end and the topic has not been started yet: it is started now, after
	// everything else -- what it has accepted so far is owed to every channel there is
	for _, a := range actors {
		if a.op == "START" && !a.launched && obs.Blocked == "" {
			obs.AckedAtStart = ackedNow()
			obs.KnownAtStart = knownNow()
			obs.PausedAtStart = pausedNow()
			a.launched = true
			a.launch()
			select {
			case <-a.done:
				a.finished = true
			case <-time.After(10 * time.Second):
				obs.Blocked = "Topic.Start never returned"
			}
			time.Sleep(50 * time.Millisecond)
		}
	}
	obs.Done = obs.Blocked == ""
	if obs.KnownAtPut == nil {
		obs.KnownAtPut = []string{}
	}
	evmu.Lock()
	obs.Events = len(evs)
	evmu.Unlock()

	hasExit := tc.OpA == "TEXIT" || tc.OpB == "TEXIT" || tc.OpC == "TEXIT"
	if hasExit {
		if !obs.Done {
			return obs
		}
		select {
		case <-exitReturned:
		case <-time.After(20 * time.Second):
			obs.Blocked = "nsqd.Exit did not return within 20s after all yield points were released"
			obs.Done = false
			return obs
		}
		stopped = true
		verif.SetGate(nil)
		nd2, err := startNode(dir, func(o *nsqd.Options) { o.MemQueueSize = 10 })
		if err != nil {
			obs.Incon = "restart: " + err.Error()
			return obs
		}
		defer nd2.stop(20 * time.Second)
		obs.Restarted = true
		obs.Back = map[string][]string{}
		time.Sleep(20 * time.Millisecond)
		chans, exists, paused, _, _, ok := topicReading(nd2)
		if !ok {
			obs.Channels = []string{}
			return obs
		}
		obs.Channels = chans
		obs.TopicExists = exists
		obs.Paused = paused // C05: the paused flag survives the restart
		if paused {
			if st, _, err := nd2.post("/topic/unpause?topic=t", nil); err != nil || st != 200 {
				obs.Incon = "unpause after restart failed"
				return obs
			}
		}
		cons, err := openDrains(nd2, chans)
		if err != nil {
			obs.Incon = "restart drain: " + err.Error()
			return obs
		}
		collectDrains(nd2, cons, obs.Back)
		closeDrains(cons)
		return obs
	}

	// ---- settle and read -----------------------------------------------------------------------------------------
	var prev string
	stable := false
	var chans []string
	for i := 0; i < 200; i++ {
		time.Sleep(10 * time.Millisecond)
		cs, exists, paused, depth, count, ok := topicReading(nd)
		if !ok {
			continue
		}
		cur := fmt.Sprint(cs, exists, paused, depth, count)
		if cur == prev {
			stable = true
			chans, obs.TopicExists, obs.Paused, obs.TopicDepth, obs.MsgCount = cs, exists, paused, depth, count
			break
		}
		prev = cur
	}
	if !stable {
		obs.Incon = "the topic did not settle within 2s after the operations completed"
		return obs
	}
	obs.Channels = chans
	if !obs.TopicExists {
		return obs
	}
	cons, err := openDrains(nd, chans)
	if err != nil {
		obs.Incon = "drain: " + err.Error()
		return obs
	}
	defer closeDrains(cons)
	if obs.Paused {
		obs.PausedPhase = map[string][]string{}
		collectDrains(nd, cons, obs.PausedPhase)
		for c, b := range obs.PausedPhase {
			obs.Final[c] = append(obs.Final[c], b...)
		}
		if post("/topic/unpause?topic=t", nil) != 200 {
			obs.Incon = "unpause for the drain failed"
			return obs
		}
	}
	collectDrains(nd, cons, obs.Final)
	return obs
}

// topicReading: channels of topic t (sorted), whether it exists, paused, depth, message_count
func topicReading(nd *Node) ([]string, bool, bool, int64, int64, bool) {
	st, _, err := nd.stats("")
	if err != nil {
		return nil, false, false, 0, 0, false
	}
	for _, ts := range st.Topics {
		if ts.Name == "t" {
			cs := []string{}
			for _, c := range ts.Channels {
				cs = append(cs, c.Name)
			}
			sort.Strings(cs)
			return cs, true, ts.Paused, ts.Depth, ts.MessageCount, true
		}
	}
	return []string{}, false, false, 0, 0, true
}

type drainCon struct {
	ch string
	cn *Conn
}

func openDrains(nd *Node, chans []string) ([]*drainCon, error) {
	var cons []*drainCon
	for _, c := range chans {
		cn, err := dial(nd.TCP, "drain-"+c)
		if err != nil {
			return cons, err
		}
		cons = append(cons, &drainCon{c, cn})
		// a short output-buffer timeout: a lone message is flushed to the consumer within milliseconds
		if _, err := cn.identify(map[string]interface{}{"output_buffer_timeout": 25}); err != nil {
			return cons, err
		}
		if err := cn.sub("t", c); err != nil {
			return cons, err
		}
		cn.cmd("RDY", "", "10")
	}
	return cons, nil
}

// collectDrains reads every consumer until all of them have been idle for a while AND the daemon reports nothing
// queued or in flight on their channels (a loaded machine may take its time to hand a message over)
func collectDrains(nd *Node, cons []*drainCon, into map[string][]string) {
	for _, d := range cons {
		if _, ok := into[d.ch]; !ok {
			into[d.ch] = []string{}
		}
	}
	pending := func() bool {
		st, _, err := nd.stats("")
		if err != nil {
			return false
		}
		for _, ts := range st.Topics {
			if ts.Name != "t" {
				continue
			}
			for _, cs := range ts.Channels {
				for _, d := range cons {
					if d.ch == cs.Name && (cs.Depth > 0 || cs.InFlightCount > 0) {
						return true
					}
				}
			}
		}
		return false
	}
	deadline := time.Now().Add(8 * time.Second)
	idle := 0
	for idle < 8 || (time.Now().Before(deadline) && pending()) {
		got := false
		for _, d := range cons {
			f, ok := d.cn.next(20 * time.Millisecond)
			if ok && f.Type == 2 {
				into[d.ch] = append(into[d.ch], string(f.Body))
				d.cn.cmd("FIN", f.ID, "")
				got = true
			}
		}
		if got {
			idle = 0
		} else {
			idle++
		}
	}
	for c := range into {
		sort.Strings(into[c])
	}
}

func closeDrains(cons []*drainCon) {
	for _, d := range cons {
		d.cn.close()
	}
}

var _ = http.StatusOK
