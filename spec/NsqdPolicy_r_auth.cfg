\* replay family auth (quick): auth server configured, no TLS; every gated command, 7 answers, waits of 0 / 2 ticks, 3 commands
SPECIFICATION Spec
CONSTANTS
  Policies <- AuthPlain
  Cmds <- AuthCmds
  AnswersA <- SmallAnswers
  AnswersR <- SmallAnswers
  Waits = {0, 2}
  MaxDepth = 3
  MaxNow = 12
  HttpReqs <- NoHttp
INVARIANTS TypeOK PropertyLevel PlainHttpServed RefetchIffExpired QueryCountLaw CodeStricter NeverOnExpiry EmitBehaviour
CHECK_DEADLOCK FALSE
