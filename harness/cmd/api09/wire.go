package main

// The trusted concretiser: argument class -> bytes, for the limits the daemon was started with.
// Every class has boundary members (always reachable: `pick` walks through them first) and seeded
// random members.  The class definitions follow the branch conditions of nsqd/protocol_v2.go,
// nsqd/client_v2.go and internal/protocol/{names,byte_base10}.go.

import (
	"bytes"
	"encoding/binary"
	"encoding/json"
	"fmt"
	"math/big"
	"math/rand"
	"strings"
)

type Cmd struct{ Op, A, B, C string }

func (c Cmd) String() string { return c.Op + " " + c.A + " " + c.B + " " + c.C }

// Wire is one concretised command.
type Wire struct {
	Bytes     []byte
	HalfClose bool   // the client closes its write side after these bytes (truncation / EOF classes)
	Topic     string // concrete topic named, when the name is valid
	Channel   string
	NMsgs     int              // messages a publish carries
	Ident     map[string]int64 // IDENTIFY: the numeric value asked for the varied field
	IdentFN   bool             // IDENTIFY sent with feature_negotiation
	Desc      string
}

const nameChars = ".abcdefghijklmnopqrstuvwxyzABCDEFGHIJKLMNOPQRSTUVWXYZ0123456789_-"

// Gen holds the randomness, the limits, the per-worker name space and the per-class member counters.
type Gen struct {
	R      *rand.Rand
	L      Limits
	Worker int
	Seq    int            // sequence number (unique names for subscriptions)
	cnt    map[string]int // how many members of each class were produced (boundary members first)
	// dynamic ids
	Held  [][]byte
	Other []byte
	// names fixed for the current sequence (so that one sequence addresses the same topic per class)
	seqNames map[string]string
}

func NewGen(seed int64, l Limits, worker int) *Gen {
	return &Gen{R: rand.New(rand.NewSource(seed)), L: l, Worker: worker, cnt: map[string]int{}, seqNames: map[string]string{}}
}

// pick: the i-th use of a class takes the i-th boundary member; afterwards boundary or random members.
func (g *Gen) pick(class string, boundary int) int {
	n := g.cnt[class]
	g.cnt[class] = n + 1
	if n < boundary {
		return n
	}
	if g.R.Intn(3) == 0 {
		return g.R.Intn(boundary)
	}
	return -1 // random member
}

func (g *Gen) chars(n int) string {
	b := make([]byte, n)
	for i := range b {
		b[i] = nameChars[g.R.Intn(len(nameChars))]
	}
	return string(b)
}

// validName of exactly n bytes, unique to this worker and use ("P" publish pool, "S" subscribe).
func (g *Gen) validName(prefix string, n int, eph bool) string {
	suffix := ""
	if eph {
		suffix = "#ephemeral"
	}
	room := n - len(suffix) - len(prefix)
	if room < 0 {
		room = 0
	}
	return prefix + g.chars(room) + suffix
}

// Name: a member of a name class.  use = "pub" (per-worker pool of persistent topics), "subt" (topic
// of a SUB: unique per sequence when ephemeral, per-worker pool otherwise), "subc" (channel of a SUB:
// unique per sequence).  ok reports whether the name is valid (then it is remembered for the sequence).
// The class "dying" (publishes only) is not a matter of spelling but of daemon state: the replayer
// prepares the topic and its parked deletion (dying.go) and fixes the name for the sequence beforehand.
func (g *Gen) Name(class, use string) (name string, ok bool) {
	key := use + ":" + class
	if v, hit := g.seqNames[key]; hit {
		return v, true
	}
	w := g.Worker
	var pre string
	switch use {
	case "pub":
		pre = fmt.Sprintf("w%dP%d_", w, g.R.Intn(3)) // pool of 3 names per class and worker
	case "subt":
		pre = fmt.Sprintf("w%dS%d_", w, g.R.Intn(2))
	default:
		pre = fmt.Sprintf("w%dc%d_", w, g.Seq)
	}
	uniq := fmt.Sprintf("w%ds%d_", w, g.Seq)
	switch class {
	case "valid":
		if use == "pub" || use == "subt" {
			name = pre + "t" // pool: fixed names, created once
		} else {
			name = g.validName(pre, len(pre)+1+g.R.Intn(62-len(pre)), false)
		}
	case "valid1":
		// single-byte names: 64 exist; each worker owns one for publishing and one for subscribing
		idx := w
		if use != "pub" {
			idx = 32 + w
		}
		name = string(nameChars[idx%64])
		if use == "subc" {
			name = string(nameChars[g.R.Intn(64)]) // channels are per topic: any byte will do
		}
	case "valid64":
		if use == "pub" || use == "subt" {
			name = pre + strings.Repeat("L", 64-len(pre))
		} else {
			name = g.validName(pre, 64, false)
		}
	case "eph":
		if use == "pub" {
			name = pre + "e#ephemeral"
		} else {
			name = g.validName(uniq, len(uniq)+11+g.R.Intn(53-len(uniq)), true)
		}
	case "eph64":
		if use == "pub" {
			name = pre + strings.Repeat("E", 54-len(pre)) + "#ephemeral"
		} else {
			name = g.validName(uniq, 64, true)
		}
	case "badchar":
		bad := []string{"#", "/", "*", ":", "\t", "\x00", "\xff", "\xc3\xa9", "@", "!", "$", "%", "+", "=", "~", "\r", "\x7f", ",", "\"", "\\", "(", "?"}
		k := g.pick("name:badchar", len(bad))
		var b string
		if k >= 0 {
			b = bad[k]
		} else {
			for {
				c := byte(g.R.Intn(256))
				if strings.IndexByte(nameChars, c) < 0 && c != ' ' && c != '\n' {
					b = string([]byte{c})
					break
				}
			}
		}
		pos := g.R.Intn(3)
		base := "bad" + g.chars(1+g.R.Intn(8))
		switch {
		case pos == 0 && b != "\r":
			name = base + b // a trailing \r would be trimmed with the line end
		case pos == 1:
			name = b + base
		default:
			name = base + b + base
		}
		if g.R.Intn(4) == 0 {
			name += "#ephemeral"
		}
		return name, false
	case "toolong":
		n := 65
		if g.pick("name:toolong", 1) < 0 {
			n = 65 + g.R.Intn(300)
		}
		return g.chars(n), false
	case "eph65":
		n := 55
		if g.pick("name:eph65", 1) < 0 {
			n = 55 + g.R.Intn(100)
		}
		return g.chars(n) + "#ephemeral", false
	case "emptyname":
		return "", false
	case "onlyeph":
		return "#ephemeral", false
	case "ephmid":
		m := []string{"a#ephemeralb", "a#ephemeral#ephemeral", "a#Ephemeral", "a#ephemera", "a#ephemeral ", "#ephemerala", "a##ephemeral"}
		k := g.pick("name:ephmid", len(m))
		if k < 0 {
			k = g.R.Intn(len(m))
		}
		s := m[k]
		if strings.HasSuffix(s, " ") { // a space would split the parameter: use a tab instead
			s = strings.TrimSuffix(s, " ") + "\t"
		}
		return s, false
	case "dying":
		panic("name class dying: the replayer must have prepared the topic (Worker.runSeq / Env.StartDying)")
	default:
		panic("unknown name class " + class)
	}
	if len(name) > 64 {
		panic("generated valid name longer than 64: " + name)
	}
	g.seqNames[key] = name
	return name, true
}

func be32(v uint32) []byte {
	var b [4]byte
	binary.BigEndian.PutUint32(b[:], v)
	return b[:]
}

func (g *Gen) body(n int64) []byte {
	b := make([]byte, n)
	if n > 0 {
		g.R.Read(b[:min64(n, 64)])
	}
	return b
}

func min64(a, b int64) int64 {
	if a < b {
		return a
	}
	return b
}

// Sized: 4-byte size + body for a size class against limit max.  half: the client must close its
// write side afterwards.
func (g *Gen) Sized(class string, max int64) (b []byte, half bool) {
	tail := func(n int64) []byte { // optional bytes after a prefix the daemon rejects at once
		if g.R.Intn(2) == 0 {
			return nil
		}
		return g.body(min64(n, 1+g.R.Int63n(2048)))
	}
	switch class {
	case "one":
		return append(be32(1), g.body(1)...), false
	case "mid":
		n := between(g.R, 2, max-1)
		if max > 70000 && g.R.Intn(4) != 0 {
			n = between(g.R, 2, 4096) // keep most bodies cheap on daemons with big limits
		}
		return append(be32(uint32(n)), g.body(n)...), false
	case "max":
		return append(be32(uint32(max)), g.body(max)...), false
	case "maxp1":
		n := max + 1
		if g.pick("size:maxp1", 1) < 0 {
			n = between(g.R, max+1, 2*max+1000)
		}
		return append(be32(uint32(n)), tail(n)...), false
	case "huge":
		n := int64(1<<31 - 1)
		if g.pick("size:huge", 1) < 0 {
			n = between(g.R, 1<<24, 1<<31-1)
		}
		return append(be32(uint32(n)), tail(n)...), false
	case "zero":
		return append(be32(0), tail(10)...), false
	case "neg":
		v := uint32(1 << 31)
		if g.pick("size:neg", 1) < 0 {
			v = 1<<31 | uint32(g.R.Int31())
		}
		return append(be32(v), tail(10)...), false
	case "negone":
		return append(be32(0xffffffff), tail(10)...), false
	case "trunclen":
		k := g.pick("size:trunclen", 4)
		if k < 0 {
			k = g.R.Intn(4)
		}
		return be32(uint32(between(g.R, 1, max)))[:k], true
	case "truncbody":
		n := between(g.R, 1, min64(max, 4096))
		switch g.pick("size:truncbody", 2) {
		case 0:
			n = 1
		case 1:
			n = max
		}
		return append(be32(uint32(n)), g.body(between(g.R, 0, n-1))...), true
	}
	panic("unknown size class " + class)
}

var two63 = new(big.Int).Lsh(big.NewInt(1), 63)
var two64 = new(big.Int).Lsh(big.NewInt(1), 64)

func bigAdd(a *big.Int, n int64) string { return new(big.Int).Add(a, big.NewInt(n)).String() }

// Number: the spelling of a decimal number class against limit max; floor is the smallest "mid".
// val is the numeric value for classes that have one (fits int64), else -1.
func (g *Gen) Number(class string, floor, max int64, durMs bool) (s string, val int64) {
	mid := func() int64 { return between(g.R, floor, max-1) }
	switch class {
	case "zero":
		return "0", 0
	case "one":
		return "1", 1
	case "empty":
		return "", 0
	case "mid":
		v := mid()
		return fmt.Sprint(v), v
	case "max":
		return fmt.Sprint(max), max
	case "leadzero":
		v := mid()
		z := 1
		if g.pick("num:leadzero", 1) < 0 {
			z = 1 + g.R.Intn(60)
		}
		return strings.Repeat("0", z) + fmt.Sprint(v), v
	case "maxp1":
		if g.pick("num:maxp1", 1) == 0 {
			return fmt.Sprint(max + 1), max + 1
		}
		hi := int64(1) << 62
		if durMs {
			hi = 9223372036854 // below the nanosecond overflow threshold
		}
		v := between(g.R, max+1, hi)
		if g.R.Intn(2) == 0 {
			v = between(g.R, max+1, 10*max+10)
		}
		return fmt.Sprint(v), v
	case "big":
		v := between(g.R, 1<<40, 1<<62)
		return fmt.Sprint(v), v
	case "durovf": // milliseconds whose nanosecond value overflows int64 (2^63 / 10^6 = 9223372036854.77)
		m := []string{"9223372036855", "18446744073710", "9223372036854776", "18446744073709552", "9223372036854775"}
		k := g.pick("num:durovf", len(m))
		if k >= 0 {
			return m[k], -1
		}
		return fmt.Sprint(between(g.R, 9223372036855, 1<<62)), -1
	case "i63":
		m := []string{"9223372036854775807", "9223372036854775808", "9223372036854775809"}
		k := g.pick("num:i63", len(m))
		if k >= 0 {
			return m[k], -1
		}
		return bigAdd(two63, g.R.Int63()), -1
	case "u64max":
		if g.pick("num:u64max", 1) == 0 {
			return "18446744073709551615", -1
		}
		return bigAdd(two64, -1-g.R.Int63n(1000)), -1
	case "ovf64": // >= 2^64: must be refused, in particular spellings that wrap to an in-range value
		m := []string{"18446744073709551616", "18446744073709551617", bigAdd(two64, max), bigAdd(two64, floor),
			"36893488147419103233", "18446744073709551616000", "99999999999999999999", "184467440737095516160"}
		k := g.pick("num:ovf64", len(m))
		if k >= 0 {
			return m[k], -1
		}
		switch g.R.Intn(3) {
		case 0: // k * 2^64 + in-range value
			x := new(big.Int).Mul(two64, big.NewInt(1+g.R.Int63n(1000)))
			return bigAdd(x, between(g.R, 0, max)), -1
		case 1: // 21..60 random digits
			n := 21 + g.R.Intn(40)
			b := make([]byte, n)
			for i := range b {
				b[i] = byte('0' + g.R.Intn(10))
			}
			b[0] = byte('1' + g.R.Intn(9))
			return string(b), -1
		default:
			return bigAdd(two64, g.R.Int63()), -1
		}
	case "nondigit":
		m := []string{"-1", "+1", "1a", "a", "0x10", "1.0", "1e3", "\xef\xbc\x91", "1_000", "1,0", "-0", "١", "1\t", "\x001"}
		k := g.pick("num:nondigit", len(m))
		if k >= 0 {
			return m[k], -1
		}
		for {
			n := 1 + g.R.Intn(6)
			b := make([]byte, n)
			digits := true
			for i := range b {
				b[i] = byte(g.R.Intn(256))
				if b[i] == ' ' || b[i] == '\n' {
					b[i] = 'x'
				}
				if b[i] < '0' || b[i] > '9' {
					digits = false
				}
			}
			if b[n-1] == '\r' {
				b[n-1] = 'y'
				digits = false
			}
			if !digits {
				return string(b), -1
			}
		}
	}
	panic("unknown number class " + class)
}

// MsgID spells a message id class.  ok=false: no parameter at all.
func (g *Gen) MsgID(class string) (id []byte, present bool) {
	rnd := func(n int) []byte {
		b := make([]byte, n)
		hex := g.R.Intn(2) == 0
		for i := range b {
			if hex {
				b[i] = "0123456789abcdef"[g.R.Intn(16)]
				continue
			}
			b[i] = byte(g.R.Intn(256))
			if b[i] == ' ' || b[i] == '\n' || b[i] == '\r' {
				b[i] = 'z'
			}
		}
		return b
	}
	switch class {
	case "held":
		return g.Held[0], true
	case "other":
		return g.Other, true
	case "never":
		if g.pick("id:never", 1) == 0 {
			return []byte("0000000000000000"), true
		}
		return rnd(16), true
	case "short":
		if g.pick("id:short", 1) == 0 {
			return rnd(15), true
		}
		return rnd(1 + g.R.Intn(15)), true
	case "long":
		if g.pick("id:long", 1) == 0 {
			return rnd(17), true
		}
		return rnd(17 + g.R.Intn(200)), true
	case "emptyid":
		return []byte{}, true
	case "missing":
		return nil, false
	}
	panic("unknown id class " + class)
}

func (g *Gen) eol() string {
	if g.R.Intn(8) == 0 {
		return "\r\n"
	}
	return "\n"
}

const lineBuf = 16 * 1024 // nsqd/client_v2.go defaultBufferSize: the longest command line incl. '\n'

// identifyField gives the JSON value (as raw JSON text) of the varied IDENTIFY field, and its numeric
// value when it has one.
func (g *Gen) identifyField(field, class string) (raw string, val int64) {
	var lo, hi int64
	switch field {
	case "hb":
		lo, hi = 1000, g.L.MaxHeartbeatMs
	case "obs":
		lo, hi = 64, g.L.MaxOutBufSize
	case "obt":
		lo, hi = g.L.MinOutBufTimeout, g.L.MaxOutBufTimeout
	case "mt":
		lo, hi = 1000, g.L.MaxMsgTimeoutMs
	case "sr":
		lo, hi = 1, 99
	case "dl":
		lo, hi = 1, int64(g.L.MaxDeflateLevel)
	}
	num := func(v int64) (string, int64) { return fmt.Sprint(v), v }
	switch class {
	case "def0":
		return num(0)
	case "off":
		return num(-1)
	case "min":
		return num(lo)
	case "mid":
		return num(between(g.R, lo+1, hi-1))
	case "max":
		return num(hi)
	case "belowmin":
		if g.pick("id:"+field+":belowmin", 2) == 0 {
			return num(lo - 1)
		}
		return num(between(g.R, 1, lo-1))
	case "maxp1":
		if g.pick("id:"+field+":maxp1", 1) == 0 {
			return num(hi + 1)
		}
		top := int64(1<<31 - 1)
		if field == "dl" {
			top = 9
			if hi+1 > top {
				return num(hi + 1)
			}
		}
		return num(between(g.R, hi+1, top))
	case "above9":
		return num(between(g.R, 10, 100000))
	case "neg":
		if field != "sr" && field != "dl" && field != "mt" {
			if g.pick("id:"+field+":neg", 1) == 0 {
				return num(-2)
			}
			return num(-between(g.R, 2, 1<<40))
		}
		if g.pick("id:"+field+":neg", 1) == 0 {
			return num(-1)
		}
		top := int64(1 << 31)
		if field != "sr" {
			top = 1 << 40
		}
		return num(-between(g.R, 1, top))
	case "huge":
		if field == "sr" { // int32 field
			return num(between(g.R, 1<<20, 1<<31-1))
		}
		return num(between(g.R, 1<<31, 1<<62))
	case "ovf": // does not fit the Go field type: JSON decoding fails
		if field == "sr" {
			if g.pick("id:sr:ovf", 2) == 0 {
				return "2147483648", -1
			}
			return fmt.Sprint(between(g.R, 1<<31, 1<<62)), -1
		}
		m := []string{"9223372036854775808", "18446744073709551616", "-9223372036854775809", "1" + strings.Repeat("0", 30)}
		return m[g.R.Intn(len(m))], -1
	case "float":
		m := []string{"1000.5", "1e3", "2.0", "50.0", "64.5"}
		return m[g.R.Intn(len(m))], -1
	case "str":
		m := []string{`"1000"`, `"50"`, `true`, `[1000]`, `{"v":1}`}
		return m[g.R.Intn(len(m))], -1
	}
	panic("unknown identify class " + field + ":" + class)
}

var identKeys = map[string]string{"hb": "heartbeat_interval", "obs": "output_buffer_size", "obt": "output_buffer_timeout",
	"mt": "msg_timeout", "sr": "sample_rate", "dl": "deflate_level"}

func (g *Gen) identify(c Cmd) Wire {
	w := Wire{Ident: map[string]int64{}}
	base := fmt.Sprintf(`"client_id":"c%d","hostname":"h","user_agent":"api09/%d"`, g.Worker, g.Seq)
	var js string
	switch c.A {
	case "hb", "obs", "obt", "mt", "sr", "dl":
		raw, v := g.identifyField(c.A, c.B)
		w.Ident[c.A] = v
		w.IdentFN = true
		js = "{" + base + `,"feature_negotiation":true,"` + identKeys[c.A] + `":` + raw
		if c.A == "dl" {
			js += `,"deflate":true`
		}
		js += "}"
		if c.B == "def0" && g.R.Intn(2) == 0 && c.A != "dl" { // the field may also simply be absent
			js = "{" + base + `,"feature_negotiation":true}`
		}
	case "comp":
		switch c.B {
		case "snappy":
			js, w.IdentFN = "{"+base+`,"feature_negotiation":true,"snappy":true}`, true
		case "deflate":
			js, w.IdentFN = "{"+base+`,"feature_negotiation":true,"deflate":true}`, true
		case "both":
			js, w.IdentFN = "{"+base+`,"feature_negotiation":true,"snappy":true,"deflate":true}`, true
		case "bothnofn":
			js = "{" + base + `,"feature_negotiation":false,"snappy":true,"deflate":true}`
		case "tls":
			js, w.IdentFN = "{"+base+`,"feature_negotiation":true,"tls_v1":true}`, true
		case "nofn":
			js = "{" + base + `,"feature_negotiation":false}`
		}
	case "body":
		switch c.B {
		case "empty":
			js = "{}"
		case "null":
			js = "null"
		case "big":
			js = "{" + base + "}"
			js += strings.Repeat(" ", int(g.L.MaxBodySize)-len(js))
		case "array":
			js = []string{"[]", `[{"a":1}]`, `"x"`, "1", "true"}[g.R.Intn(5)]
		case "badjson":
			js = []string{"{", `{'a':1}`, `{"client_id":}`, "\x00\x01\x02", `{"a":1}}`, "{" + base, ""}[g.R.Intn(6)]
			if js == "" {
				js = "}"
			}
		default: // size classes
			b, half := g.Sized(c.B, g.L.MaxBodySize)
			w.Bytes = append([]byte("IDENTIFY"+g.eol()), b...)
			w.HalfClose = half
			return w
		}
	}
	w.Bytes = append([]byte("IDENTIFY"+g.eol()), be32(uint32(len(js)))...)
	w.Bytes = append(w.Bytes, js...)
	return w
}

func (g *Gen) mpubBody(class string) (b []byte, half bool, n int) {
	M, B := g.L.MaxMsgSize, g.L.MaxBodySize
	maxCount := g.L.MaxMpubCount()
	small := func() int64 { return between(g.R, 1, min64(M, 60)) }
	var sizes []int64
	count := int64(-1) // count field; -1: len(sizes)
	bodyLen := int64(-1)
	trunc := -1 // cut the stream this many bytes before its end and close
	switch class {
	case "ok1":
		sizes = []int64{small()}
	case "ok2":
		k := between(g.R, 2, min64(maxCount, 9))
		for i := int64(0); i < k; i++ {
			sizes = append(sizes, small())
		}
	case "okmaxsize":
		k := int64(1)
		if M < 5000 {
			k = between(g.R, 1, 3)
		}
		for i := int64(0); i < k; i++ {
			sizes = append(sizes, M)
		}
	case "okmaxcount":
		for i := int64(0); i < maxCount; i++ {
			sizes = append(sizes, 1)
		}
	case "lensmall":
		sizes = []int64{small(), small()}
		bodyLen = 1
		if g.pick("mpub:lensmall", 1) < 0 {
			bodyLen = between(g.R, 1, 11)
		}
	case "lenmax":
		sizes = []int64{small(), small()}
		bodyLen = B
	case "lenzero", "lenneg", "lenmaxp1", "lenhuge", "lentrunc":
		cls := map[string]string{"lenzero": "zero", "lenneg": "neg", "lenmaxp1": "maxp1", "lenhuge": "huge", "lentrunc": "trunclen"}[class]
		if class == "lenneg" && g.R.Intn(3) == 0 {
			cls = "negone"
		}
		p, h := g.Sized(cls, B)
		if len(p) > 4 {
			p = p[:4]
		}
		if !h && g.R.Intn(2) == 0 { // what follows is never read
			p = append(p, be32(1)...)
			p = append(p, be32(1)...)
			p = append(p, 'x')
		}
		return p, h, 0
	case "cntzero":
		count = 0
	case "cntneg":
		count = int64(int32(-1 - g.R.Int31()))
		if g.pick("mpub:cntneg", 2) == 0 {
			count = -1
		}
	case "cntmaxp1":
		count = maxCount + 1
		if g.pick("mpub:cntmaxp1", 1) < 0 {
			count = between(g.R, maxCount+1, 1<<30)
		}
	case "cnthuge":
		count = 1<<31 - 1
	case "cnttrunc":
		out := be32(uint32(between(g.R, 12, B)))
		k := g.R.Intn(4)
		return append(out, be32(2)[:k]...), true, 0
	default: // message faults: msg<fault>_<pos>
		k := int(between(g.R, 3, 5))
		for i := 0; i < k; i++ {
			sizes = append(sizes, small())
		}
		parts := strings.SplitN(strings.TrimPrefix(class, "msg"), "_", 2)
		pos := map[string]int{"first": 0, "mid": k / 2, "last": k - 1}[parts[1]]
		out := new(bytes.Buffer)
		for i := 0; i < k; i++ {
			sz := sizes[i]
			if i != pos {
				out.Write(be32(uint32(sz)))
				out.Write(g.body(sz))
				continue
			}
			switch parts[0] {
			case "zero":
				out.Write(be32(0))
			case "neg":
				v := uint32(1<<31) | uint32(g.R.Int31())
				if g.R.Intn(3) == 0 {
					v = 0xffffffff
				}
				out.Write(be32(v))
			case "maxp1":
				n := M + 1
				if g.R.Intn(2) == 0 {
					n = between(g.R, M+1, 1<<31-1)
				}
				out.Write(be32(uint32(n)))
			case "trunclen":
				out.Write(be32(uint32(sz))[:g.R.Intn(4)])
				trunc = 0
			case "truncbody":
				out.Write(be32(uint32(sz)))
				out.Write(g.body(between(g.R, 0, sz-1)))
				trunc = 0
			default:
				panic("unknown mpub class " + class)
			}
			if trunc == 0 {
				break
			}
			if g.R.Intn(2) == 0 {
				break // the rest is never read
			}
		}
		hdr := append(be32(uint32(min64(B, int64(8+out.Len())))), be32(uint32(k))...)
		return append(hdr, out.Bytes()...), trunc == 0, 0
	}
	out := new(bytes.Buffer)
	for _, sz := range sizes {
		out.Write(be32(uint32(sz)))
		out.Write(g.body(sz))
	}
	if count == -1 {
		count = int64(len(sizes))
		n = len(sizes)
	} else if g.R.Intn(2) == 0 { // some plausible content after a bad count
		out.Write(be32(1))
		out.WriteByte('x')
	}
	if bodyLen == -1 {
		bodyLen = min64(B, int64(4+out.Len()))
	}
	hdr := append(be32(uint32(bodyLen)), be32(uint32(count))...)
	return append(hdr, out.Bytes()...), false, n
}

// Concretise a command class.  Needs g.Held / g.Other for the id classes "held" / "other".
func (g *Gen) Concretise(c Cmd) Wire {
	w := Wire{}
	line := func(parts ...string) []byte { return []byte(strings.Join(parts, " ") + g.eol()) }
	switch c.Op {
	case "MAGIC":
		switch c.A {
		case "v2":
			w.Bytes = []byte("  V2")
		case "bad":
			m := []string{"  V1", "  v2", " V2 ", "V2  ", "NOP\n", "PUB ", "\x00\x00\x00\x00", "  V3", "GET ", "  V2"[:3] + "\n"}
			k := g.pick("magic:bad", len(m))
			if k >= 0 {
				w.Bytes = []byte(m[k])
			} else {
				for {
					w.Bytes = g.body(4)
					g.R.Read(w.Bytes)
					if string(w.Bytes) != "  V2" {
						break
					}
				}
			}
			if g.R.Intn(2) == 0 {
				w.Bytes = append(w.Bytes, "NOP\n"...)
			}
		case "short":
			k := g.pick("magic:short", 4)
			if k < 0 {
				k = g.R.Intn(4)
			}
			w.Bytes, w.HalfClose = []byte("  V2")[:k], true
		}
	case "NOP":
		switch c.A {
		case "plain":
			w.Bytes = line("NOP")
		case "params":
			w.Bytes = line("NOP", g.chars(1+g.R.Intn(10)), g.chars(1+g.R.Intn(10)))
		case "crlf":
			w.Bytes = []byte("NOP\r\n")
		}
	case "BADCMD":
		switch c.A {
		case "unknown":
			m := []string{"FOO", "PUBX t", "IDENTIFYY", "SUBSCRIBE t c", "VERSION", "NO", "NOPE", "QUIT", "PING", "RDYY 1", "  V2", "GET / HTTP/1.1"}
			k := g.pick("bad:unknown", len(m))
			if k < 0 {
				k = g.R.Intn(len(m))
			}
			w.Bytes = line(m[k])
		case "lower":
			m := []string{"nop", "pub t", "Nop", "rdy 1", "cls", "fin 0000000000000000", "sub t c", "Identify", "mPUB t", "auth"}
			k := g.pick("bad:lower", len(m))
			if k < 0 {
				k = g.R.Intn(len(m))
			}
			w.Bytes = line(m[k])
		case "emptyline":
			w.Bytes = []byte("\n")
		case "spaces":
			m := []string{" ", "  ", " NOP", "  PUB t", " \t", "\tNOP"}
			k := g.pick("bad:spaces", len(m))
			if k < 0 {
				k = g.R.Intn(len(m))
			}
			w.Bytes = []byte(m[k] + "\n")
		case "crlfonly":
			w.Bytes = []byte("\r\n")
		case "binary":
			n := 1 + g.R.Intn(200)
			if g.R.Intn(10) == 0 {
				n = 1 + g.R.Intn(lineBuf-3)
			}
			b := make([]byte, n)
			g.R.Read(b)
			for i := range b {
				if b[i] == '\n' {
					b[i] = 0x01
				}
			}
			b[0] = byte(g.R.Intn(32)) // no command starts with a control byte
			if b[0] == '\n' {
				b[0] = 0
			}
			w.Bytes = append(b, '\n')
		}
	case "LINE":
		switch c.A {
		case "maxfit": // a valid command line of exactly the buffer size
			w.Bytes = []byte("NOP " + strings.Repeat("x", lineBuf-5) + "\n")
		case "toolong": // no newline within the buffer size
			n := lineBuf
			if g.pick("line:toolong", 1) < 0 {
				n = lineBuf + g.R.Intn(50000)
			}
			w.Bytes = []byte("NOP " + strings.Repeat("y", n-4))
		case "toolongnl":
			n := lineBuf + 1
			if g.pick("line:toolongnl", 1) < 0 {
				n = lineBuf + 1 + g.R.Intn(50000)
			}
			w.Bytes = []byte("NOP " + strings.Repeat("z", n-5) + "\n")
		}
	case "EOF":
		w.HalfClose = true
		if c.A == "partial" {
			m := []string{"NO", "NOP", "PUB t", "RDY 1", "MPUB", "FIN 0000000000000000", "\r"}
			w.Bytes = []byte(m[g.R.Intn(len(m))])
		}
	case "IDENTIFY":
		w = g.identify(c)
	case "AUTH":
		hdr := "AUTH"
		if c.B == "extra" {
			hdr = "AUTH " + g.chars(1+g.R.Intn(5))
		}
		var b []byte
		if c.A == "ok" {
			n := between(g.R, 1, min64(g.L.MaxBodySize, 64))
			b = append(be32(uint32(n)), []byte(g.chars(int(n)))...)
		} else {
			b, w.HalfClose = g.Sized(c.A, g.L.MaxBodySize)
		}
		w.Bytes = append([]byte(hdr+g.eol()), b...)
	case "SUB":
		switch {
		case c.A == "missing":
			w.Bytes = line("SUB")
		case c.B == "missing":
			t, _ := g.Name(c.A, "subt")
			w.Bytes = line("SUB", t)
		default:
			t, okT := g.Name(c.A, "subt")
			ch, okC := g.Name(c.B, "subc")
			if okT && okC {
				w.Topic, w.Channel = t, ch
			}
			w.Bytes = line("SUB", t, ch)
			if g.R.Intn(6) == 0 {
				w.Bytes = line("SUB", t, ch, "extra")
			}
		}
	case "RDY":
		if c.A == "absent" {
			w.Bytes = line("RDY")
			break
		}
		s, _ := g.Number(c.A, 2, g.L.MaxRdy, false)
		w.Bytes = line("RDY", s)
	case "FIN", "TOUCH":
		id, present := g.MsgID(c.A)
		if !present {
			w.Bytes = line(c.Op)
		} else {
			w.Bytes = line(c.Op, string(id))
		}
	case "REQ":
		id, present := g.MsgID(c.A)
		switch {
		case !present:
			w.Bytes = line("REQ")
		case c.B == "missing":
			w.Bytes = line("REQ", string(id))
		default:
			s, _ := g.Number(c.B, 60000, g.L.MaxReqTimeoutMs, true)
			w.Bytes = line("REQ", string(id), s)
		}
	case "CLS":
		if c.A == "params" {
			w.Bytes = line("CLS", g.chars(3))
		} else {
			w.Bytes = line("CLS")
		}
	case "PUB":
		if c.A == "missing" {
			w.Bytes = line("PUB")
			break
		}
		t, ok := g.Name(c.A, "pub")
		if ok {
			w.Topic = t
		}
		b, half := g.Sized(c.B, g.L.MaxMsgSize)
		w.Bytes, w.HalfClose, w.NMsgs = append(line("PUB", t), b...), half, 1
	case "MPUB":
		if c.A == "missing" {
			w.Bytes = line("MPUB")
			break
		}
		t, ok := g.Name(c.A, "pub")
		if ok {
			w.Topic = t
		}
		b, half, n := g.mpubBody(c.B)
		w.Bytes, w.HalfClose, w.NMsgs = append(line("MPUB", t), b...), half, n
	case "DPUB":
		switch {
		case c.A == "missing":
			w.Bytes = line("DPUB")
		case c.B == "missing":
			t, _ := g.Name(c.A, "pub")
			w.Bytes = line("DPUB", t)
		default:
			t, ok := g.Name(c.A, "pub")
			if ok {
				w.Topic = t
			}
			s, _ := g.Number(c.B, 60000, g.L.MaxReqTimeoutMs, true)
			b, half := g.Sized(c.C, g.L.MaxMsgSize)
			w.Bytes, w.HalfClose, w.NMsgs = append(line("DPUB", t, s), b...), half, 1
		}
	default:
		panic("unknown op " + c.Op)
	}
	w.Desc = describe(w.Bytes)
	return w
}

// describe renders the bytes for replay files (long runs elided).
func describe(b []byte) string {
	if len(b) <= 160 {
		return fmt.Sprintf("%q", b)
	}
	return fmt.Sprintf("%q...(%d bytes)...%q", b[:100], len(b), b[len(b)-30:])
}

func mustJSON(v interface{}) string {
	b, _ := json.Marshal(v)
	return string(b)
}
