package main

// A real nsqd, started in-process with seeded limits, plus what the checks observe from outside:
// GET /stats, /ping, and a well-behaved bystander client that publishes and consumes throughout.

import (
	"bytes"
	"encoding/binary"
	"encoding/json"
	"fmt"
	"io"
	"math/rand"
	"net"
	"net/http"
	"net/url"
	"os"
	"sync"
	"sync/atomic"
	"time"

	"github.com/nsqio/nsq/nsqd"
)

// Limits are the daemon's thresholds the argument classes are positioned against.
type Limits struct {
	MaxMsgSize       int64 `json:"max_msg_size"`
	MaxBodySize      int64 `json:"max_body_size"`
	MaxRdy           int64 `json:"max_rdy_count"`
	MaxReqTimeoutMs  int64 `json:"max_req_timeout_ms"`
	MaxHeartbeatMs   int64 `json:"max_heartbeat_ms"`
	MaxOutBufSize    int64 `json:"max_output_buffer_size"`
	MinOutBufTimeout int64 `json:"min_output_buffer_timeout_ms"`
	MaxOutBufTimeout int64 `json:"max_output_buffer_timeout_ms"`
	OutBufTimeout    int64 `json:"output_buffer_timeout_ms"`
	MsgTimeoutMs     int64 `json:"msg_timeout_ms"`
	MaxMsgTimeoutMs  int64 `json:"max_msg_timeout_ms"`
	MaxDeflateLevel  int   `json:"max_deflate_level"`
}

func (l Limits) MaxMpubCount() int64 { return (l.MaxBodySize - 4) / 5 }

func between(r *rand.Rand, lo, hi int64) int64 {
	if hi <= lo {
		return lo
	}
	return lo + r.Int63n(hi-lo+1)
}

// RandomLimits: kind "small" keeps bodies cheap (most replays), "big" is near the defaults' magnitude,
// "default" is nsqd's own defaults except a max-body-size that keeps the largest MPUB count feasible.
func RandomLimits(r *rand.Rand, kind string) Limits {
	l := Limits{
		MaxRdy:           between(r, 3, 3000),
		MaxReqTimeoutMs:  between(r, 300000, 7200000),
		MaxHeartbeatMs:   between(r, 2000, 120000),
		MaxOutBufSize:    between(r, 100, 200000),
		MinOutBufTimeout: between(r, 2, 50),
		MaxOutBufTimeout: between(r, 1000, 60000),
		MsgTimeoutMs:     between(r, 30000, 90000),
		MaxMsgTimeoutMs:  between(r, 100000, 1800000),
		MaxDeflateLevel:  int(between(r, 2, 9)),
	}
	l.OutBufTimeout = between(r, l.MinOutBufTimeout, 300)
	switch kind {
	case "small":
		l.MaxMsgSize = between(r, 8, 2000)
		l.MaxBodySize = between(r, 256, 5000)
	case "big":
		l.MaxMsgSize = between(r, 60000, 1100000)
		l.MaxBodySize = between(r, 20000, 100000)
	default:
		l = Limits{MaxMsgSize: 1024 * 1024, MaxBodySize: 100000, MaxRdy: 2500, MaxReqTimeoutMs: 3600000,
			MaxHeartbeatMs: 60000, MaxOutBufSize: 64 * 1024, MinOutBufTimeout: 25, MaxOutBufTimeout: 30000,
			OutBufTimeout: 250, MsgTimeoutMs: 60000, MaxMsgTimeoutMs: 900000, MaxDeflateLevel: 6}
	}
	return l
}

type discard struct{}

func (discard) Output(int, string) error { return nil }

type Env struct {
	L       Limits
	Kind    string
	D       *nsqd.NSQD
	TCP     string
	HTTP    string
	dir     string
	scratch string
	hc      *http.Client
	mainErr chan error
	by      *Bystander
}

func StartEnv(l Limits, kind, scratch string) (*Env, error) {
	dir, err := os.MkdirTemp(scratch, "nsqd-")
	if err != nil {
		return nil, err
	}
	o := nsqd.NewOptions()
	o.Logger = discard{}
	o.TCPAddress = "127.0.0.1:0"
	o.HTTPAddress = "127.0.0.1:0"
	o.HTTPSAddress = "127.0.0.1:0"
	o.BroadcastAddress = "127.0.0.1"
	o.DataPath = dir
	o.MaxMsgSize = l.MaxMsgSize
	o.MaxBodySize = l.MaxBodySize
	o.MaxRdyCount = l.MaxRdy
	o.MaxReqTimeout = time.Duration(l.MaxReqTimeoutMs) * time.Millisecond
	o.MaxHeartbeatInterval = time.Duration(l.MaxHeartbeatMs) * time.Millisecond
	o.MaxOutputBufferSize = l.MaxOutBufSize
	o.MinOutputBufferTimeout = time.Duration(l.MinOutBufTimeout) * time.Millisecond
	o.MaxOutputBufferTimeout = time.Duration(l.MaxOutBufTimeout) * time.Millisecond
	o.OutputBufferTimeout = time.Duration(l.OutBufTimeout) * time.Millisecond
	o.MsgTimeout = time.Duration(l.MsgTimeoutMs) * time.Millisecond
	o.MaxMsgTimeout = time.Duration(l.MaxMsgTimeoutMs) * time.Millisecond
	o.MaxDeflateLevel = l.MaxDeflateLevel
	o.ClientTimeout = 10 * time.Minute // default heartbeat 5 min: no heartbeat frames unless negotiated
	o.QueueScanInterval = 20 * time.Millisecond
	o.SyncTimeout = 10 * time.Second
	o.StatsdAddress = ""
	d, err := nsqd.New(o)
	if err != nil {
		os.RemoveAll(dir)
		return nil, err
	}
	e := &Env{L: l, Kind: kind, D: d, dir: dir, scratch: scratch, mainErr: make(chan error, 1)}
	go func() { e.mainErr <- d.Main() }()
	e.TCP = d.RealTCPAddr().String()
	e.HTTP = d.RealHTTPAddr().String()
	e.hc = &http.Client{Timeout: 60 * time.Second, Transport: &http.Transport{MaxIdleConnsPerHost: 64}}
	return e, nil
}

func (e *Env) Stop() {
	releaseDyingOf(e) // a topic deletion still parked by the gate (dying.go) would block Exit
	e.D.Exit()
	os.RemoveAll(e.dir)
}

// Alive: the daemon still answers /ping and its Main has not returned.
func (e *Env) Alive() error {
	select {
	case err := <-e.mainErr:
		return fmt.Errorf("nsqd.Main returned: %v", err)
	default:
	}
	resp, err := e.hc.Get("http://" + e.HTTP + "/ping")
	if err != nil {
		return fmt.Errorf("/ping: %v", err)
	}
	b, _ := io.ReadAll(resp.Body)
	resp.Body.Close()
	if resp.StatusCode != 200 {
		return fmt.Errorf("/ping: %d %s", resp.StatusCode, b)
	}
	return nil
}

type ChanStat struct {
	Name     string `json:"channel_name"`
	Depth    int64  `json:"depth"`
	InFlight int64  `json:"in_flight_count"`
	Deferred int64  `json:"deferred_count"`
	Clients  int    `json:"client_count"`
}
type TopicStat struct {
	Name     string     `json:"topic_name"`
	Depth    int64      `json:"depth"`
	Count    int64      `json:"message_count"`
	Channels []ChanStat `json:"channels"`
}

// Stats of one topic (nil when it does not exist) through GET /stats?format=json&topic=
func (e *Env) Topic(name string) (*TopicStat, error) {
	ts, err := e.stats("&topic=" + url.QueryEscape(name))
	if err != nil {
		return nil, err
	}
	for i := range ts {
		if ts[i].Name == name {
			return &ts[i], nil
		}
	}
	return nil, nil
}

func (e *Env) AllTopics() ([]TopicStat, error) { return e.stats("") }

func (e *Env) stats(q string) ([]TopicStat, error) {
	resp, err := e.hc.Get("http://" + e.HTTP + "/stats?format=json" + q)
	if err != nil {
		return nil, err
	}
	defer resp.Body.Close()
	if resp.StatusCode != 200 {
		return nil, fmt.Errorf("/stats: %d", resp.StatusCode)
	}
	var v struct {
		Topics []TopicStat `json:"topics"`
	}
	if err := json.NewDecoder(resp.Body).Decode(&v); err != nil {
		return nil, err
	}
	return v.Topics, nil
}

func (e *Env) post(path string, body []byte) error {
	resp, err := e.hc.Post("http://"+e.HTTP+path, "application/octet-stream", bytes.NewReader(body))
	if err != nil {
		return err
	}
	b, _ := io.ReadAll(resp.Body)
	resp.Body.Close()
	if resp.StatusCode != 200 {
		return fmt.Errorf("%s: %d %s", path, resp.StatusCode, b)
	}
	return nil
}

// HTTPPublish n one-byte-ish messages to a topic (the backlog a subscribed test connection consumes).
func (e *Env) HTTPPublish(topic string, n int) error {
	for i := 0; i < n; i++ {
		if err := e.post("/pub?topic="+url.QueryEscape(topic), []byte(fmt.Sprintf("backlog-%d", i))); err != nil {
			return err
		}
	}
	return nil
}
func (e *Env) EmptyTopic(topic string) error { return e.post("/topic/empty?topic="+url.QueryEscape(topic), nil) }
func (e *Env) DeleteTopic(topic string) error {
	return e.post("/topic/delete?topic="+url.QueryEscape(topic), nil)
}
func (e *Env) DeleteChannel(topic, ch string) error {
	return e.post("/channel/delete?topic="+url.QueryEscape(topic)+"&channel="+url.QueryEscape(ch), nil)
}

// ---------------------------------------------------------------------------------------------
// Bystander: one publisher connection and one consumer connection on their own topic.  Every message
// published must be answered OK and must come back exactly once; neither connection may see an error
// frame or be closed, whatever the connections under test send.

type Bystander struct {
	e         *Env
	topic     string
	stop      chan struct{}
	wg, cwg   sync.WaitGroup
	cons      net.Conn
	done      int32
	Published int64
	Consumed  int64
	problems  []string
	mu        sync.Mutex
	seen      map[string]int
}

func (b *Bystander) problem(f string, a ...interface{}) {
	b.mu.Lock()
	if len(b.problems) < 20 {
		b.problems = append(b.problems, fmt.Sprintf(f, a...))
	}
	b.mu.Unlock()
}

func dialV2(addr string) (net.Conn, error) {
	c, err := net.DialTimeout("tcp", addr, 30*time.Second)
	if err != nil {
		return nil, err
	}
	_, err = c.Write([]byte("  V2"))
	return c, err
}

func rawFrame(c net.Conn, d time.Duration) (int32, []byte, error) {
	c.SetReadDeadline(time.Now().Add(d))
	var h [8]byte
	if _, err := io.ReadFull(c, h[:]); err != nil {
		return 0, nil, err
	}
	sz := int32(binary.BigEndian.Uint32(h[:4]))
	ft := int32(binary.BigEndian.Uint32(h[4:]))
	if sz < 4 || sz > 64<<20 {
		return 0, nil, fmt.Errorf("bad frame size %d", sz)
	}
	data := make([]byte, sz-4)
	if _, err := io.ReadFull(c, data); err != nil {
		return 0, nil, err
	}
	return ft, data, nil
}

func pubBytes(topic string, body []byte) []byte {
	var b bytes.Buffer
	b.WriteString("PUB " + topic + "\n")
	binary.Write(&b, binary.BigEndian, int32(len(body)))
	b.Write(body)
	return b.Bytes()
}

func StartBystander(e *Env) (*Bystander, error) {
	b := &Bystander{e: e, topic: "bystander", stop: make(chan struct{}), seen: map[string]int{}}
	cons, err := dialV2(e.TCP)
	if err != nil {
		return nil, err
	}
	cons.Write([]byte("SUB " + b.topic + " watch\n"))
	if ft, d, err := rawFrame(cons, 60*time.Second); err != nil || ft != 0 || string(d) != "OK" {
		return nil, fmt.Errorf("bystander SUB: %v %d %q", err, ft, d)
	}
	cons.Write([]byte(fmt.Sprintf("RDY %d\n", min64(20, e.L.MaxRdy))))
	prod, err := dialV2(e.TCP)
	if err != nil {
		return nil, err
	}
	b.wg.Add(1)
	b.cwg.Add(1)
	go func() { // publisher
		defer b.wg.Done()
		defer prod.Close()
		for i := 0; ; i++ {
			select {
			case <-b.stop:
				return
			default:
			}
			prod.Write(pubBytes(b.topic, []byte(fmt.Sprintf("by-%d", i))))
			ft, d, err := rawFrame(prod, 120*time.Second)
			if err != nil {
				b.problem("publisher connection failed after %d messages: %v", i, err)
				return
			}
			if ft == 0 && string(d) == "_heartbeat_" {
				prod.Write([]byte("NOP\n"))
				ft, d, err = rawFrame(prod, 120*time.Second)
			}
			if err != nil || ft != 0 || string(d) != "OK" {
				b.problem("publisher got frame type %d %q err %v for message %d", ft, d, err, i)
				return
			}
			atomic.AddInt64(&b.Published, 1)
			time.Sleep(3 * time.Millisecond)
		}
	}()
	go func() { // consumer
		defer b.cwg.Done()
		defer cons.Close()
		for {
			ft, d, err := rawFrame(cons, 10*time.Minute)
			if err != nil {
				if atomic.LoadInt32(&b.done) == 1 {
					return
				}
				b.problem("consumer connection failed after %d messages: %v", atomic.LoadInt64(&b.Consumed), err)
				return
			}
			switch {
			case ft == 0 && string(d) == "_heartbeat_":
				cons.Write([]byte("NOP\n"))
			case ft == 2 && len(d) >= 26:
				id := string(d[10:26])
				body := string(d[26:])
				b.mu.Lock()
				b.seen[body]++
				b.mu.Unlock()
				cons.Write([]byte("FIN " + id + "\n"))
				atomic.AddInt64(&b.Consumed, 1)
			default:
				b.problem("consumer got frame type %d %q", ft, d)
				return
			}
		}
	}()
	b.cons = cons
	e.by = b
	return b, nil
}

// Finish stops publishing, waits until everything published came back, and returns what went wrong.
func (b *Bystander) Finish() (problems []string, late bool) {
	close(b.stop)
	b.wg.Wait() // publisher done: Published is final
	deadline := time.Now().Add(120 * time.Second)
	for atomic.LoadInt64(&b.Consumed) < atomic.LoadInt64(&b.Published) && time.Now().Before(deadline) {
		b.mu.Lock()
		bad := len(b.problems) > 0
		b.mu.Unlock()
		if bad {
			break
		}
		time.Sleep(5 * time.Millisecond)
	}
	time.Sleep(50 * time.Millisecond) // anything delivered twice would show up now
	atomic.StoreInt32(&b.done, 1)
	b.cons.SetReadDeadline(time.Now())
	b.cwg.Wait()
	b.mu.Lock()
	defer b.mu.Unlock()
	p, c := atomic.LoadInt64(&b.Published), atomic.LoadInt64(&b.Consumed)
	if len(b.problems) == 0 {
		if c < p {
			return nil, true // not everything came back before the (generous) deadline: inconclusive
		}
		if c > p {
			b.problems = append(b.problems, fmt.Sprintf("published %d, consumed %d", p, c))
		}
		for body, n := range b.seen {
			if n != 1 {
				b.problems = append(b.problems, fmt.Sprintf("message %q delivered %d times", body, n))
				break
			}
		}
	}
	return b.problems, false
}
