SPECIFICATION Spec
CONSTANTS
  Topics = {"t1", "t2"}
  Chans = {"c1"}
  PersistAfterDelete = TRUE
  MaxKills = 2
  BackupFirst = FALSE
  MaxOps = 5
INVARIANTS RestartSetWasVisited LoadedWasVisited IdleFileEqualsLive AckedPausePersisted
PROPERTY FileNeverVanishes
CHECK_DEADLOCK FALSE
