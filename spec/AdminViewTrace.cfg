SPECIFICATION TraceSpec
CONSTANTS
  MaxL = 2
  MaxN = 3
  Profiles = {"empty"}
  LPatterns = {"full"}
  PlainFail = {"reset", "e500", "garbage", "wrongtype", "slow"}
  ShapeFail = {"tomblen", "nullprod", "nulltopic", "nullchan", "nullclient", "noe2e", "nulle2e"}
  Machine = FALSE
CONSTRAINT HW
POSTCONDITION TraceAccepted
CHECK_DEADLOCK FALSE
