----------------------------- MODULE NsqdPolicy -----------------------------
(***************************************************************************)
(* C11 -- TLS-required and AUTH policies of nsqd cannot be bypassed.       *)
(*                                                                         *)
(* One client connection of nsqd (nsqd/protocol_v2.go Exec, IDENTIFY,      *)
(* AUTH, CheckAuth, PUB/MPUB/DPUB/SUB; nsqd/client_v2.go UpgradeTLS, Auth, *)
(* IsAuthorized, QueryAuthd; internal/auth/authorizations.go IsAllowed,    *)
(* IsExpired, QueryAuthd) plus the two HTTP listeners (nsqd/http.go        *)
(* ServeHTTP, nsqd/nsqd.go Main) under a policy configuration.             *)
(*                                                                         *)
(* The auth server is an ADVERSARIAL ENVIRONMENT: whenever nsqd queries it *)
(* it answers with any element of a domain of answers (any grant set, any  *)
(* TTL, an error), independently of what it answered before.               *)
(*                                                                         *)
(* Time: the clock `now' counts quarter seconds.  The client acts on a     *)
(* lattice of TickUnits = 3 quarter seconds, TTLs are whole seconds        *)
(* (SecondUnits = 4), so `expiry = now' never happens and real jitter      *)
(* below a quarter second cannot move a comparison across an expiry.       *)
(*                                                                         *)
(* Every command is ONE atomic action: a connection's IOLoop executes its  *)
(* commands sequentially and nothing else writes the connection's policy   *)
(* state.  Out(c, a, n) is the total table: for every state, policy,       *)
(* command c, adversary answer a and execution time n exactly one outcome. *)
(***************************************************************************)
EXTENDS Integers, FiniteSets, Sequences, TLC

CONSTANTS
  Policies,   \* set of [tlsreq: "no"|"http"|"yes", tlscfg: BOOLEAN, auth: BOOLEAN, certpol: "none"|"require"|"verify"]
  Cmds,       \* set of command records [op, t, c, body, cert] the client may send
  AnswersA,   \* what the auth server may answer to the query made by AUTH
  AnswersR,   \* what it may answer to a re-fetch (query made by a gated command)
  Waits,      \* numbers of ticks the client may let pass before a command (only matters once authorized)
  MaxDepth,   \* commands per connection
  MaxNow,     \* clock bound (quarter seconds)
  HttpReqs    \* set of HTTP requests [port: "http"|"https", cert, route, see OkStatus]; {} switches HTTP off

TickUnits   == 3
SecondUnits == 4

Topics   == {"t1", "t2"}
Channels == {"c1", "c2"}
Perms    == {"publish", "subscribe"}

VARIABLES
  policy,   \* the daemon's configuration (never changes)
  st,       \* connection state: "init" | "subscribed" | "closing" | "closed"
  tls,      \* client.TLS: set only by a completed server-side handshake
  peer,     \* client certificate the server saw in that handshake: "none" | "unsigned" | "signed"
  authed,   \* client.HasAuthorizations(): an answer with >= 1 authorization is cached
  grants,   \* client.AuthState.Authorizations: set of [tp, ch, perms]
  exp,      \* client.AuthState.Expires
  now,
  topics, chans, enq,   \* the daemon's registry as /stats shows it: topics, <<topic, channel>> pairs, messages per topic
  nq,       \* number of queries the auth server has received
  last,     \* the last step: command/request, answer used, pre-state, outcome
  hist      \* sequence of steps (for behaviour enumeration; hidden by VIEW otherwise)

svars == <<policy, st, tls, peer, authed, grants, exp, now, topics, chans, enq, nq>>
vars  == <<svars, last, hist>>

---------------------------------------------------------------------------
(* policy *)
ValidPolicy(p) == /\ (p.tlsreq # "no" => p.tlscfg)
                  /\ (p.certpol # "none" => p.tlscfg)
\* nsqd.New: a client-certificate policy implies --tls-required unless tcp-https was asked for
EffTLS(p) == IF p.certpol # "none" /\ p.tlsreq = "no" THEN "yes" ELSE p.tlsreq
\* crypto/tls ClientAuth: NoClientCert | RequireAnyClientCert | RequireAndVerifyClientCert
CertOK(p, cert) == CASE p.certpol = "none"    -> TRUE
                     [] p.certpol = "require" -> cert # "none"
                     [] p.certpol = "verify"  -> cert = "signed"
\* what the server learns about the client certificate (it does not ask for one without a policy)
Seen(p, cert) == IF p.certpol = "none" THEN "none" ELSE cert

---------------------------------------------------------------------------
(* grants *)
NoAns  == [kind |-> "none", auths |-> {}, ttl |-> 0]
ErrAns == [kind |-> "err",  auths |-> {}, ttl |-> 0]

TopMatch(p, t)  == p = "any" \/ p = t
\* the channel handed to IsAllowed is "" for the publishing commands
ChanMatch(p, c) == p = "any" \/ (c # "" /\ p = c)        \* "none": the authorization lists no channel

PermFor(c) == IF c = "" THEN "publish" ELSE "subscribe"

\* internal/auth Authorization.IsAllowed as the code evaluates it: a publish needs, besides the permission
\* and the topic, a channel pattern that matches the empty string
CodeAllows(auths, t, c) ==
  \E a \in auths : PermFor(c) \in a.perms /\ TopMatch(a.tp, t) /\ ChanMatch(a.ch, c)

\* the property's reading: the answer grants that permission for that topic (and, for SUB, that channel)
Granted(auths, t, c) ==
  \E a \in auths : PermFor(c) \in a.perms /\ TopMatch(a.tp, t) /\ (c # "" => ChanMatch(a.ch, c))

---------------------------------------------------------------------------
(* commands *)
Gated(op)    == op \in {"PUB", "MPUB", "DPUB", "SUB"}
Identify(op) == op \in {"IDENTIFY", "IDENTIFY_TLS"}
ChanOf(c)    == IF c.op = "SUB" THEN c.c ELSE ""

Base == [frame |-> "none", code |-> "", fatal |-> FALSE, st |-> st, tls |-> tls, peer |-> peer,
         authed |-> authed, grants |-> grants, exp |-> exp, topics |-> topics, chans |-> chans, enq |-> enq,
         queried |-> FALSE, check |-> "n/a", gate |-> FALSE]
Fatal(b, code) == [b EXCEPT !.frame = "error", !.code = code, !.fatal = TRUE, !.st = "closed"]
Soft(b, code)  == [b EXCEPT !.frame = "error", !.code = code]
Resp(b, code)  == [b EXCEPT !.frame = "response", !.code = code]

\* protocolV2.CheckAuth / clientV2.IsAuthorized at time n with adversary answer a
AuthCheck(t, c, a, n) ==
  IF ~policy.auth THEN [pass |-> TRUE, b |-> Base]
  ELSE IF ~authed THEN [pass |-> FALSE, b |-> Fatal([Base EXCEPT !.check = "first"], "E_AUTH_FIRST")]
  ELSE IF exp < n
       THEN IF a.kind # "ok"
            THEN [pass |-> FALSE, b |-> Fatal([Base EXCEPT !.check = "expired", !.queried = TRUE], "E_AUTH_FAILED")]
            ELSE LET b2 == [Base EXCEPT !.check = "expired", !.queried = TRUE, !.grants = a.auths,
                                        !.authed = (a.auths # {}), !.exp = n + a.ttl * SecondUnits] IN
                 IF CodeAllows(a.auths, t, c) THEN [pass |-> TRUE, b |-> b2]
                                              ELSE [pass |-> FALSE, b |-> Fatal(b2, "E_UNAUTHORIZED")]
       ELSE LET b2 == [Base EXCEPT !.check = "fresh"] IN
            IF CodeAllows(grants, t, c) THEN [pass |-> TRUE, b |-> b2]
                                        ELSE [pass |-> FALSE, b |-> Fatal(b2, "E_UNAUTHORIZED")]

AddTopic(b, t)     == [b EXCEPT !.topics = @ \cup {t}]
AddChan(b, t, c)   == [b EXCEPT !.topics = @ \cup {t}, !.chans = @ \cup {<<t, c>>}]
Enqueue(b, t, k)   == [b EXCEPT !.topics = @ \cup {t}, !.enq = [@ EXCEPT ![t] = @ + k]]

\* protocolV2.Exec: the outcome of command c executed at time n when the auth server (if asked) answers a
Out(c, a, n) ==
  CASE c.op = "IDENTIFY" ->
         IF st # "init" THEN Fatal(Base, "E_INVALID") ELSE Resp(Base, "JSON")
    [] c.op = "IDENTIFY_TLS" ->
         IF st # "init" THEN Fatal(Base, "E_INVALID")
         ELSE IF ~policy.tlscfg THEN Resp(Base, "JSON")             \* answers tls_v1=false, stays plaintext
         ELSE IF CertOK(policy, c.cert)
              THEN [Resp(Base, "JSON+OK") EXCEPT !.tls = TRUE, !.peer = Seen(policy, c.cert)]
              ELSE [Base EXCEPT !.frame = "tlsfail", !.code = "JSON", !.fatal = TRUE, !.st = "closed"]
    [] OTHER ->
       IF EffTLS(policy) # "no" /\ ~tls
       THEN Fatal([Base EXCEPT !.gate = TRUE], "E_INVALID")          \* enforceTLSPolicy
       ELSE
       CASE c.op = "NOP" -> Base
         [] c.op = "AUTH" ->
              IF st # "init" THEN Fatal(Base, "E_INVALID")
              ELSE IF authed THEN Fatal(Base, "E_INVALID")           \* "AUTH already set"
              ELSE IF ~policy.auth THEN Fatal(Base, "E_AUTH_DISABLED")
              ELSE IF a.kind # "ok" THEN Fatal([Base EXCEPT !.queried = TRUE], "E_AUTH_FAILED")
              ELSE LET b2 == [Base EXCEPT !.queried = TRUE, !.grants = a.auths, !.authed = (a.auths # {}),
                                          !.exp = n + a.ttl * SecondUnits] IN
                   IF a.auths = {} THEN Fatal(b2, "E_UNAUTHORIZED") ELSE Resp(b2, "AUTHJSON")
         [] c.op \in {"PUB", "DPUB"} ->
              IF c.body = "bad" THEN Fatal(Base, "E_BAD_MESSAGE")    \* the body is read and checked BEFORE CheckAuth
              ELSE LET k == AuthCheck(c.t, "", a, n) IN
                   IF k.pass THEN Resp(Enqueue(k.b, c.t, 1), "OK") ELSE k.b
         [] c.op = "MPUB" ->
              LET k == AuthCheck(c.t, "", a, n) IN                   \* CheckAuth, then GetTopic, THEN the body
              IF ~k.pass THEN k.b
              ELSE IF c.body = "bad" THEN Fatal(AddTopic(k.b, c.t), "E_BAD_BODY")
              ELSE Resp(Enqueue(k.b, c.t, 2), "OK")
         [] c.op = "SUB" ->
              IF st # "init" THEN Fatal(Base, "E_INVALID")
              ELSE LET k == AuthCheck(c.t, c.c, a, n) IN
                   IF k.pass THEN [Resp(AddChan(k.b, c.t, c.c), "OK") EXCEPT !.st = "subscribed"] ELSE k.b
         [] c.op = "RDY" ->
              IF st \in {"subscribed", "closing"} THEN Base ELSE Fatal(Base, "E_INVALID")
         [] c.op = "FIN" ->
              IF st \in {"subscribed", "closing"} THEN Soft(Base, "E_FIN_FAILED") ELSE Fatal(Base, "E_INVALID")
         [] c.op = "REQ" ->
              IF st \in {"subscribed", "closing"} THEN Soft(Base, "E_REQ_FAILED") ELSE Fatal(Base, "E_INVALID")
         [] c.op = "TOUCH" ->
              IF st \in {"subscribed", "closing"} THEN Soft(Base, "E_TOUCH_FAILED") ELSE Fatal(Base, "E_INVALID")
         [] c.op = "CLS" ->
              IF st = "subscribed" THEN [Resp(Base, "CLOSE_WAIT") EXCEPT !.st = "closing"] ELSE Fatal(Base, "E_INVALID")
         [] OTHER -> Fatal(Base, "E_INVALID")                        \* unknown command

\* does executing c at time n make nsqd query the auth server?  (independent of the answer)
WillQuery(c, n) == Out(c, ErrAns, n).queried

PreOf(n) == [st |-> st, tls |-> tls, authed |-> authed, grants |-> grants, exp |-> exp, now |-> n,
             topics |-> topics, chans |-> chans, enq |-> enq, nq |-> nq]

Apply(o) == /\ st' = o.st /\ tls' = o.tls /\ peer' = o.peer
            /\ authed' = o.authed /\ grants' = o.grants /\ exp' = o.exp
            /\ topics' = o.topics /\ chans' = o.chans /\ enq' = o.enq
            /\ nq' = nq + (IF o.queried THEN 1 ELSE 0)

\* what an observer sees of the state after a step
PostView == [st |-> st, tls |-> tls, peer |-> peer, authed |-> authed, topics |-> topics, chans |-> chans,
             enq |-> enq, nq |-> nq]

OutView(o) == [frame |-> o.frame, code |-> o.code, fatal |-> o.fatal, queried |-> o.queried,
               check |-> o.check, gate |-> o.gate]

\* command c is executed at time n (w: the ticks the client waited, recorded only); the auth server (if asked) answers a
StepAt(c, a, n, w) ==
  LET o == Out(c, a, n) IN
  /\ now' = n
  /\ Apply(o)
  /\ last' = [kind |-> "cmd", c |-> c, a |-> a, w |-> w, pre |-> PreOf(n), o |-> OutView(o), status |-> 0]
  /\ UNCHANGED policy

\* the client lets w ticks pass, sends c
Step(c, a, w) == StepAt(c, a, now + w * TickUnits, w)

Cmd(c) ==
  /\ st # "closed"
  /\ Len(hist) < MaxDepth
  /\ (c.op = "IDENTIFY_TLS" => ~tls)        \* a second upgrade on one connection is C09's subject, not C11's
  /\ \E w \in Waits :
       /\ (w > 0 => authed)                  \* time only matters to an answer's expiry
       /\ now + w * TickUnits <= MaxNow
       /\ LET n == now + w * TickUnits IN
          \E a \in (IF ~WillQuery(c, n) THEN {NoAns} ELSE IF c.op = "AUTH" THEN AnswersA ELSE AnswersR) :
            /\ Step(c, a, w)
            /\ hist' = Append(hist, [s |-> last', post |-> PostView'])

---------------------------------------------------------------------------
(* HTTP listeners: nsqd.Main wires newHTTPServer(n, false, TLSRequired == TLSRequired) on the plaintext port *)
(* and newHTTPServer(n, true, true) on the TLS port; httpServer.ServeHTTP refuses with 403 when             *)
(* !tlsEnabled && tlsRequired.  The HTTP API never consults the auth server.                                *)
(* routes: "ping" GET /ping, "pub" POST /pub, "pprof" GET /debug/pprof/cmdline (registered as a plain net/http      *)
(* handler, not through the API decorator), "unknown" a path no route matches (the router's NotFound handler),       *)
(* "badmethod" GET /pub (the router's MethodNotAllowed handler).  The refusal is the LISTENER's: it comes before      *)
(* any routing, so all five are refused alike.                                                                       *)
OkStatus(route) == CASE route = "unknown" -> 404 [] route = "badmethod" -> 405 [] OTHER -> 200
HttpOut(h) ==
  LET okeff == IF h.route = "pub" THEN Enqueue(Base, "t1", 1) ELSE Base IN
  IF h.port = "http"
  THEN IF EffTLS(policy) = "yes" THEN [b |-> Base, status |-> 403] ELSE [b |-> okeff, status |-> OkStatus(h.route)]
  ELSE IF ~policy.tlscfg THEN [b |-> Base, status |-> -1]            \* no TLS listener
  ELSE IF ~CertOK(policy, h.cert) THEN [b |-> Base, status |-> -2]   \* handshake refused
  ELSE [b |-> okeff, status |-> OkStatus(h.route)]

HttpAt(h) ==
  LET r == HttpOut(h) IN
  /\ Apply(r.b)
  /\ last' = [kind |-> "http", c |-> [op |-> "HTTP", t |-> h.port, c |-> h.route, body |-> "-", cert |-> h.cert],
              a |-> NoAns, w |-> 0, pre |-> PreOf(now), o |-> OutView(r.b), status |-> r.status]
  /\ UNCHANGED <<policy, now>>

Http(h) ==
  /\ hist = <<>>                              \* the listeners do not depend on any connection's state
  /\ HttpAt(h)
  /\ hist' = Append(hist, [s |-> last', post |-> PostView'])

---------------------------------------------------------------------------
NoCmd == [op |-> "-", t |-> "-", c |-> "-", body |-> "-", cert |-> "-"]

Init == /\ policy \in Policies
        /\ st = "init" /\ tls = FALSE /\ peer = "none"
        /\ authed = FALSE /\ grants = {} /\ exp = 0 /\ now = 0
        /\ topics = {} /\ chans = {} /\ enq = [t \in Topics |-> 0] /\ nq = 0
        /\ last = [kind |-> "init", c |-> NoCmd, a |-> NoAns, w |-> 0, pre |-> PreOf(0),
                   o |-> OutView(Base), status |-> 0]
        /\ hist = <<>>

Next == (\E c \in Cmds : Cmd(c)) \/ (\E h \in HttpReqs : Http(h))
Spec == Init /\ [][Next]_vars

---------------------------------------------------------------------------
(* C11.  Everything below is a predicate over the last step (command, pre-state, outcome) and the   *)
(* state it led to.  The PROPERTY-LEVEL predicates use only what a client / the auth server / GET    *)
(* /stats can observe; NsqdPolicyTrace evaluates them on recorded executions of the real daemon.     *)
IsCmd       == last.kind = "cmd"
Op          == last.c.op
EffectsSame == topics = last.pre.topics /\ chans = last.pre.chans /\ enq = last.pre.enq
\* the command was executed: it changed the registry or was answered with a success frame
Took        == ~EffectsSame \/ last.o.frame = "response"
\* TLS is required and this connection had not completed a handshake when the command arrived
TlsGated    == IsCmd /\ EffTLS(policy) # "no" /\ ~last.pre.tls /\ ~Identify(Op)
WellFormed  == last.c.body # "bad" /\ (Op = "SUB" => last.pre.st = "init")
DenialCodes == {"E_AUTH_FIRST", "E_UNAUTHORIZED", "E_AUTH_FAILED"}

\* When TLS is required, no command other than IDENTIFY is executed on a plaintext connection
NoCmdBeforeTLS ==
  TlsGated => /\ last.o.frame = "error" /\ last.o.code = "E_INVALID" /\ last.o.fatal /\ st = "closed"
              /\ EffectsSame /\ nq = last.pre.nq /\ authed = last.pre.authed /\ ~tls

\* the TLS flag is set only by a completed handshake that satisfies the client-certificate policy
TlsOnlyByHandshake ==
  (IsCmd /\ tls /\ ~last.pre.tls) => Op = "IDENTIFY_TLS" /\ policy.tlscfg /\ CertOK(policy, last.c.cert)

\* when TLS is required plaintext HTTP is refused with 403 -- except in tcp-https mode, where it is served;
\* a refusal has no effect
PlainHttpRefused ==
  (last.kind = "http" /\ last.c.t = "http") =>
     /\ (EffTLS(policy) = "yes" => last.status = 403)
     /\ (EffTLS(policy) = "http" => last.status # 403)
     /\ (last.status = 403 => EffectsSame)
HttpsNeedsCert ==
  (last.kind = "http" /\ last.c.t = "https" /\ last.status > 0) => policy.tlscfg /\ CertOK(policy, last.c.cert)

\* with an auth server configured no PUB/MPUB/DPUB/SUB is executed before a successful AUTH
NoPubSubBeforeAuth ==
  (IsCmd /\ policy.auth /\ Gated(Op) /\ ~last.pre.authed) =>
     /\ ~Took /\ last.o.frame = "error" /\ last.o.fatal /\ st = "closed" /\ nq = last.pre.nq
     /\ ((~TlsGated /\ WellFormed) => last.o.code = "E_AUTH_FIRST")

\* ... and each is executed only if the auth server's CURRENT answer (unexpired when the command is
\* executed, i.e. re-fetched if the cached one had expired) grants that permission for that topic/channel
OnlyIfGranted ==
  (IsCmd /\ policy.auth /\ Gated(Op) /\ Took) =>
     /\ authed /\ last.pre.now < exp
     /\ Granted(grants, last.c.t, ChanOf(last.c))

\* a denial is answered with the documented fatal error and leaves no trace
DenialLeavesNoTrace ==
  (IsCmd /\ (TlsGated \/ last.o.code \in DenialCodes \cup {"E_AUTH_DISABLED"})) =>
     /\ EffectsSame /\ last.o.frame = "error" /\ last.o.fatal /\ st = "closed"
DenialIsDocumented ==
  (IsCmd /\ policy.auth /\ Gated(Op) /\ ~TlsGated /\ WellFormed /\ last.o.frame = "error") =>
     last.o.code \in DenialCodes

\* without an auth server / once TLS is up the policies refuse nothing (no false denial of a plain setup)
NoPolicyNoDenial ==
  (IsCmd /\ ~policy.auth /\ Gated(Op)) => last.o.code \notin DenialCodes

PropertyLevel == /\ NoCmdBeforeTLS /\ TlsOnlyByHandshake /\ PlainHttpRefused /\ HttpsNeedsCert
                 /\ NoPubSubBeforeAuth /\ OnlyIfGranted /\ DenialLeavesNoTrace /\ DenialIsDocumented
                 /\ NoPolicyNoDenial

---------------------------------------------------------------------------
(* MODEL-LEVEL: statements about the table itself *)
\* the answer is re-fetched exactly when a gated command reaches the auth check with an expired answer
RefetchIffExpired ==
  IsCmd => /\ (last.o.check = "expired" <=>
                 (last.o.check # "n/a" /\ last.pre.authed /\ last.pre.exp < last.pre.now))
           /\ nq - last.pre.nq =
                IF \/ last.o.check = "expired"
                   \/ (Op = "AUTH" /\ last.o.code \in {"AUTHJSON", "E_AUTH_FAILED", "E_UNAUTHORIZED"} /\ ~TlsGated
                       /\ last.pre.st = "init" /\ ~last.pre.authed)
                THEN 1 ELSE 0
\* number of queries = AUTH queries + gated commands that met an expired answer
QueryCountLaw ==
  nq = Cardinality({i \in 1..Len(hist) : hist[i].s.c.op = "AUTH" /\ hist[i].s.o.queried})
     + Cardinality({i \in 1..Len(hist) : /\ Gated(hist[i].s.c.op) /\ hist[i].s.o.check # "n/a"
                                          /\ hist[i].s.pre.authed /\ hist[i].s.pre.exp < hist[i].s.pre.now})
\* nothing is refused on the plaintext port when TLS is not required at all
PlainHttpServed == (last.kind = "http" /\ last.c.t = "http" /\ EffTLS(policy) = "no") => last.status = OkStatus(last.c.c)
\* the code's evaluation of an answer never allows what the answer does not grant
CodeStricter == \A t \in Topics, c \in Channels \cup {""} : CodeAllows(grants, t, c) => Granted(grants, t, c)
\* the lattice keeps every comparison away from the expiry instant
NeverOnExpiry == authed => exp # now
\* (a closed connection takes no further step: Cmd is guarded by st # "closed")
PolicyFixed   == [][policy' = policy]_vars

TypeOK == /\ ValidPolicy(policy)
          /\ st \in {"init", "subscribed", "closing", "closed"}
          /\ tls \in BOOLEAN /\ authed \in BOOLEAN
          /\ peer \in {"none", "unsigned", "signed"}
          /\ topics \subseteq Topics /\ chans \subseteq Topics \X Channels
          /\ \A tc \in chans : tc[1] \in topics
          /\ nq \in 0..Len(hist) /\ now \in 0..MaxNow
          /\ (authed => policy.auth /\ grants # {})
          /\ (tls => policy.tlscfg)
          /\ (st \in {"subscribed", "closing"} => chans # {})

\* exhaustive configs hide the history's content (states, not behaviours, are what matters there) but keep its
\* length: Cmd is guarded by it, and a view must not merge states with different futures
View == <<svars, last, Len(hist)>>
===========================================================================
