----------------------------- MODULE RelayTrace -----------------------------
(* Property-level trace validation for C20 (nsq_to_nsq / nsq_to_http): what the logging proxy in front of   *)
(* the source nsqd and the fake destinations recorded while the REAL binary ran must be a behaviour of      *)
(* RelayAbs -- each Fin preceded by an acceptance of that body, no body that is not a source body, and at   *)
(* the End line (everything settled) every message arrived and every definite refusal was requeued.        *)
EXTENDS RelayAbs, Json, Sequences, TLC

Trace == ndJsonDeserialize("trace.ndjson")
VARIABLE l
tvars == <<avars, l>>

TraceInit == AInit /\ l = 1 /\ TLCSet(1, 1) /\ TLCSet(2, <<>>)
IsEvent(e) == l <= Len(Trace) /\ Trace[l].ev = e /\ l' = l + 1

TReset   == /\ IsEvent("Reset")
            /\ delivered' = [m \in Msgs |-> 0] /\ acc' = [m \in Msgs |-> {}] /\ dfail' = [m \in Msgs |-> 0]
            /\ reqs' = [m \in Msgs |-> 0] /\ fins' = [m \in Msgs |-> 0] /\ ifail' = 0 /\ unknown' = 0 /\ ended' = FALSE
TDeliver == IsEvent("Deliver") /\ ADeliver(Trace[l].m)
TAccept  == IsEvent("Accept")  /\ AAccept(Trace[l].m, Trace[l].d)
TRefuse  == IsEvent("Refuse")  /\ ARefuse(Trace[l].m, Trace[l].d)
TFail    == IsEvent("Fail")    /\ AFail
TUnknown == IsEvent("Unknown") /\ AUnknown
TFin     == IsEvent("Fin")     /\ AFin(Trace[l].m)
TReq     == IsEvent("Req")     /\ AReq(Trace[l].m)
TEnd     == IsEvent("End")     /\ AEnd

TraceNext == TReset \/ TDeliver \/ TAccept \/ TRefuse \/ TFail \/ TUnknown \/ TFin \/ TReq \/ TEnd
TraceSpec == TraceInit /\ [][TraceNext]_tvars

HW == IF l > TLCGet(1) THEN TLCSet(1, l) /\ TLCSet(2, <<delivered, acc, dfail, ifail, reqs, fins>>) ELSE TRUE
TraceAccepted ==
  LET hw == TLCGet(1) IN
  IF hw = Len(Trace) + 1 THEN PrintT(<<"TRACE_OK", Len(Trace)>>)
  ELSE PrintT(<<"TRACE_REJECTED", hw, Trace[hw], TLCGet(2)>>) /\ FALSE
=============================================================================
