package main

import (
	"sort"
)

// ---- the vocabulary of spec/NsqdPolicy.tla -------------------------------------------------------

type Policy struct {
	TLSReq  string `json:"tlsreq"`  // "no" | "http" (tcp-https) | "yes"
	TLSCfg  bool   `json:"tlscfg"`  // certificate and key configured
	Auth    bool   `json:"auth"`    // --auth-http-address configured
	CertPol string `json:"certpol"` // "none" | "require" | "verify"
}

func (p Policy) EffTLS() string {
	if p.CertPol != "none" && p.TLSReq == "no" {
		return "yes"
	}
	return p.TLSReq
}

func (p Policy) CertOK(cert string) bool {
	switch p.CertPol {
	case "require":
		return cert != "none"
	case "verify":
		return cert == "signed"
	}
	return true
}

func (p Policy) Key() string {
	a := "noauth"
	if p.Auth {
		a = "auth"
	}
	t := "notls"
	if p.TLSCfg {
		t = "tls"
	}
	return p.TLSReq + "/" + t + "/" + a + "/" + p.CertPol
}

type Cmd struct {
	Op   string `json:"op"`
	T    string `json:"t"`
	C    string `json:"c"`
	Body string `json:"body"`
	Cert string `json:"cert"`
}

func gated(op string) bool { return op == "PUB" || op == "MPUB" || op == "DPUB" || op == "SUB" }
func isIdentify(op string) bool {
	return op == "IDENTIFY" || op == "IDENTIFY_TLS"
}

type Authz struct {
	Tp    string   `json:"tp"` // "t1" | "t2" | "any"
	Ch    string   `json:"ch"` // "c1" | "c2" | "any" | "none"
	Perms []string `json:"perms"`
}

type Answer struct {
	Kind  string  `json:"kind"` // "ok" | "err" | "none"
	Auths []Authz `json:"auths"`
	TTL   int     `json:"ttl"` // seconds
}

var noAns = Answer{Kind: "none", Auths: []Authz{}}

func hasPerm(a Authz, p string) bool {
	for _, x := range a.Perms {
		if x == p {
			return true
		}
	}
	return false
}

// Granted: the property's reading of "the answer grants that permission for that topic and channel"
// (NsqdPolicy!Granted).  ch == "" for the publishing commands.
func Granted(auths []Authz, t, ch string) bool {
	perm := "subscribe"
	if ch == "" {
		perm = "publish"
	}
	for _, a := range auths {
		if !hasPerm(a, perm) {
			continue
		}
		if a.Tp != "any" && a.Tp != t {
			continue
		}
		if ch != "" && !(a.Ch == "any" || a.Ch == ch) {
			continue
		}
		return true
	}
	return false
}

type Out struct {
	Frame   string `json:"frame"`
	Code    string `json:"code"`
	Fatal   bool   `json:"fatal"`
	Queried bool   `json:"queried"`
	Check   string `json:"check"`
	Gate    bool   `json:"gate"`
}

type Post struct {
	St     string         `json:"st"`
	TLS    bool           `json:"tls"`
	Peer   string         `json:"peer"`
	Authed bool           `json:"authed"`
	Topics []string       `json:"topics"`
	Chans  [][]string     `json:"chans"`
	Enq    map[string]int `json:"enq"`
	Nq     int            `json:"nq"`
}

type Step struct {
	C      Cmd    `json:"c"`
	A      Answer `json:"a"`
	W      int    `json:"w"`
	Kind   string `json:"kind"` // "cmd" | "http"
	O      *Out   `json:"o,omitempty"`
	Status int    `json:"status"`
	N      int    `json:"n"` // model time of execution, quarter seconds
	Post   *Post  `json:"post,omitempty"`
}

type Behaviour struct {
	Family string `json:"family"`
	Policy Policy `json:"policy"`
	Steps  []Step `json:"steps"`
	id     int
}

// Effects: what GET /stats shows of this behaviour's two topics
type Effects struct {
	Topics []string       `json:"topics"`
	Chans  [][]string     `json:"chans"`
	Enq    map[string]int `json:"enq"`
}

func (e Effects) Equal(o Effects) bool {
	if len(e.Topics) != len(o.Topics) || len(e.Chans) != len(o.Chans) {
		return false
	}
	for i := range e.Topics {
		if e.Topics[i] != o.Topics[i] {
			return false
		}
	}
	for i := range e.Chans {
		if e.Chans[i][0] != o.Chans[i][0] || e.Chans[i][1] != o.Chans[i][1] {
			return false
		}
	}
	for _, t := range []string{"t1", "t2"} {
		if e.Enq[t] != o.Enq[t] {
			return false
		}
	}
	return true
}

func emptyEffects() Effects {
	return Effects{Topics: []string{}, Chans: [][]string{}, Enq: map[string]int{"t1": 0, "t2": 0}}
}

func normPost(p *Post) Effects {
	e := emptyEffects()
	e.Topics = append(e.Topics, p.Topics...)
	sort.Strings(e.Topics)
	for _, c := range p.Chans {
		e.Chans = append(e.Chans, []string{c[0], c[1]})
	}
	sort.Slice(e.Chans, func(i, j int) bool {
		if e.Chans[i][0] != e.Chans[j][0] {
			return e.Chans[i][0] < e.Chans[j][0]
		}
		return e.Chans[i][1] < e.Chans[j][1]
	})
	for k, v := range p.Enq {
		e.Enq[k] = v
	}
	return e
}
