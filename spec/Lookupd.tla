------------------------------ MODULE Lookupd ------------------------------
(***************************************************************************)
(* nsqlookupd's registry (C14, and the OthersUntouched clause of C15).     *)
(*                                                                         *)
(* The registry is a map  (category, key, subkey) -> producers by peer id  *)
(* (nsqlookupd/registration_db.go).  Only the categories "topic"           *)
(* <<"topic", t, "">> and "channel" <<"channel", t, c>> are kept as keys   *)
(* here; the third category, "client", holds exactly the identified        *)
(* connections and is represented by conn[p] = "identified".               *)
(*                                                                         *)
(* The low-level operators (AddReg, AddProd, RemProd, RemReg, SetTomb) are *)
(* the four mutators of RegistrationDB plus Producer.Tombstone - each one  *)
(* critical section of the code.  The protocol / admin actions compose     *)
(* them exactly as lookup_protocol_v1.go / http.go do; executed            *)
(* sequentially (binding A) a whole command is one atomic action, in the   *)
(* concurrent trace spec (LookupdTrace) the same operators are applied one *)
(* critical section at a time.                                             *)
(*                                                                         *)
(* The four query results are OPERATORS on the state: Lookup(t), TopicsQ,  *)
(* ChannelsQ(t), NodesQ (and DebugQ): the "plain registry model" of the    *)
(* property statement.                                                     *)
(*                                                                         *)
(* Time: integer ticks.  The code hides a producer when                    *)
(*   now - lastUpdate > InactiveProducerTimeout                            *)
(* and a tombstone is in force while  now - tombstonedAt < TombstoneLife-  *)
(* time.  When replayed, real thresholds are (InactiveK + 1/2) and         *)
(* (TombK + 1/2) ticks and every step happens mid-tick, so with integer    *)
(* readings: hidden iff now - lu > InactiveK, in force iff now - at <=     *)
(* TombK.                                                                  *)
(***************************************************************************)
EXTENDS Integers, FiniteSets, TLC

CONSTANTS Producers,    \* producer slots (each: at most one connection at a time)
          Topics,       \* topic names
          Channels,     \* channel names
          EphTopics,    \* the topic names ending in #ephemeral
          EphChannels,  \* the channel names ending in #ephemeral
          SharedNode,   \* producers that identify with one and the same broadcast_address:http_port ("nX");
                        \*   every other producer's node name is its own name
          InactiveK,    \* see above
          TombK,
          MaxNow        \* clock values explored: 0..MaxNow

ASSUME EphTopics \subseteq Topics /\ EphChannels \subseteq Channels /\ SharedNode \subseteq Producers
ASSUME "" \notin Channels /\ "" \notin Topics

VARIABLES regs,   \* set of registration keys present in the map
          prods,  \* [AllKeys -> SUBSET Producers]   producers under each key ({} when the key is absent)
          tomb,   \* [Topics -> [Producers -> Int]]  tombstonedAt of p's Producer object under topic t, -1: not tombstoned
          conn,   \* [Producers -> {"none","connected","identified"}]
          lu,     \* [Producers -> Int]              PeerInfo.lastUpdate
          now,    \* the clock
          act     \* last action and its response (history; hidden by VIEW)

dbvars == <<regs, prods, tomb>>
vars   == <<regs, prods, tomb, conn, lu, now, act>>
view   == <<regs, prods, tomb, conn, lu, now>>

TopicKey(t)   == <<"topic", t, "">>
ChanKey(t, c) == <<"channel", t, c>>
TopicKeys == {TopicKey(t) : t \in Topics}
ChanKeys  == {ChanKey(t, c) : t \in Topics, c \in Channels}
AllKeys   == TopicKeys \cup ChanKeys
\* the node name "broadcast_address:http_port" that POST /topic/tombstone names
NodeOf(p) == IF p \in SharedNode THEN "nX" ELSE p
NodeNames == {NodeOf(p) : p \in Producers}
NoTomb    == -1

---------------------------------------------------------------------------
(* RegistrationDB: each operator is one critical section (r.Lock).        *)
(* They map a db record [regs, prods, tomb] to a db record.               *)
DB == [regs |-> regs, prods |-> prods, tomb |-> tomb]

ClearTomb(d, k, P) ==      \* the Producer objects of P under key k are dropped; their tombstone marks go with them
  IF k[1] = "topic"
  THEN [d.tomb EXCEPT ![k[2]] = [p \in Producers |-> IF p \in P THEN NoTomb ELSE @[p]]]
  ELSE d.tomb

AddReg(d, k) == [d EXCEPT !.regs = @ \cup {k}]                        \* AddRegistration
AddProd(d, k, p) ==                                                   \* AddProducer: an existing Producer object is kept
  [d EXCEPT !.regs = @ \cup {k}, !.prods[k] = @ \cup {p}]             \*   (with its tombstone mark)
RemProd(d, k, p) ==                                                   \* RemoveProducer: key stays, even if now empty
  [d EXCEPT !.prods[k] = @ \ {p}, !.tomb = ClearTomb(d, k, {p})]
RemReg(d, k) ==                                                       \* RemoveRegistration: key and all its producers
  [d EXCEPT !.regs = @ \ {k}, !.prods[k] = {}, !.tomb = ClearTomb(d, k, Producers)]
SetTomb(d, t, p, at) == [d EXCEPT !.tomb[t][p] = at]                  \* Producer.Tombstone (p \in d.prods[TopicKey(t)])

Commit(d) == regs' = d.regs /\ prods' = d.prods /\ tomb' = d.tomb

---------------------------------------------------------------------------
(* the commands, as compositions of critical sections *)

\* REGISTER t [c]  (lookup_protocol_v1.go REGISTER)
RegisterDB(d, p, t, c) ==
  LET d1 == IF c # "" THEN AddProd(d, ChanKey(t, c), p) ELSE d
  IN  AddProd(d1, TopicKey(t), p)

\* the peer leaves every key in K (RemoveProducer for each; keys stay)
RemProdAll(d, K, p) ==
  [d EXCEPT !.prods = [k \in AllKeys |-> IF k \in K THEN @[k] \ {p} ELSE @[k]],
            !.tomb  = [t \in Topics |-> [q \in Producers |->
                          IF q = p /\ TopicKey(t) \in K THEN NoTomb ELSE @[t][q]]]]
\* RemoveRegistration for each key in K
RemRegAll(d, K) ==
  [d EXCEPT !.regs  = @ \ K,
            !.prods = [k \in AllKeys |-> IF k \in K THEN {} ELSE @[k]],
            !.tomb  = [t \in Topics |-> [q \in Producers |-> IF TopicKey(t) \in K THEN NoTomb ELSE @[t][q]]]]

\* UNREGISTER t c : ephemeral channel key dropped when it has no producer left (also when it never had one)
\* UNREGISTER t   : the peer leaves every channel of t (keys stay, ephemeral ones too), then the topic;
\*                  ephemeral topic key dropped when empty (its channel keys stay)
UnregisterDB(d, p, t, c) ==
  IF c # ""
  THEN LET k  == ChanKey(t, c)
           d1 == RemProd(d, k, p)
       IN  IF d1.prods[k] = {} /\ c \in EphChannels THEN RemReg(d1, k) ELSE d1
  ELSE LET d1 == RemProdAll(d, {k \in ChanKeys : k[2] = t /\ k \in d.regs}, p)
           k  == TopicKey(t)
           d2 == RemProd(d1, k, p)
       IN  IF d2.prods[k] = {} /\ t \in EphTopics THEN RemReg(d2, k) ELSE d2

\* connection ends (IOLoop exit path): the peer leaves every key it is under; keys stay
DisconnectDB(d, p) == RemProdAll(d, {k \in AllKeys : p \in d.prods[k]}, p)

\* POST /topic/delete: all channel keys of the topic, then the topic key
DeleteTopicDB(d, t) == RemRegAll(d, {k \in ChanKeys : k[2] = t /\ k \in d.regs} \cup {TopicKey(t)})

\* POST /topic/tombstone?topic=t&node=n : every producer of t whose broadcast:http is n
TombstoneDB(d, t, n, at) ==
  [d EXCEPT !.tomb[t] = [p \in Producers |-> IF p \in d.prods[TopicKey(t)] /\ NodeOf(p) = n THEN at ELSE @[p]]]

---------------------------------------------------------------------------
(* queries: functions of the state *)
Active(p)        == now - lu[p] <= InactiveK
Tombstoned(t, p) == tomb[t][p] # NoTomb /\ now - tomb[t][p] <= TombK

ChannelsQ(t) == {c \in Channels : ChanKey(t, c) \in regs}
TopicsQ      == {t \in Topics : TopicKey(t) \in regs}
Lookup(t) ==
  IF TopicKey(t) \notin regs
  THEN [found |-> FALSE, channels |-> {}, producers |-> {}]
  ELSE [found |-> TRUE, channels |-> ChannelsQ(t),
        producers |-> {p \in prods[TopicKey(t)] : Active(p) /\ ~Tombstoned(t, p)}]
NodesQ ==
  {[p |-> p,
    topics |-> {t \in Topics : p \in prods[TopicKey(t)]},
    tombstoned |-> {t \in Topics : p \in prods[TopicKey(t)] /\ Tombstoned(t, p)}]
     : p \in {q \in Producers : conn[q] = "identified" /\ Active(q)}}
\* /debug: every key that has producers, with the raw tombstone flag
DebugQ ==
  {[k |-> x[1], p |-> x[2], tombstoned |-> (x[1][1] = "topic" /\ tomb[x[1][2]][x[2]] # NoTomb)]
     : x \in {y \in AllKeys \X Producers : y[2] \in prods[y[1]]}}
ClientsQ == {p \in Producers : conn[p] = "identified"}

---------------------------------------------------------------------------
Act(name, p, t, c, resp) == [name |-> name, p |-> p, t |-> t, c |-> c, resp |-> resp]

Init == /\ regs = {}
        /\ prods = [k \in AllKeys |-> {}]
        /\ tomb = [t \in Topics |-> [p \in Producers |-> NoTomb]]
        /\ conn = [p \in Producers |-> "none"]
        /\ lu = [p \in Producers |-> 0]
        /\ now = 0
        /\ act = Act("Init", "", "", "", "")

Connect(p) == /\ conn[p] = "none"
              /\ conn' = [conn EXCEPT ![p] = "connected"]
              /\ act' = Act("Connect", p, "", "", "")
              /\ UNCHANGED <<dbvars, lu, now>>

Identify(p) == /\ conn[p] = "connected"
               /\ conn' = [conn EXCEPT ![p] = "identified"]
               /\ lu' = [lu EXCEPT ![p] = now]
               /\ act' = Act("Identify", p, "", "", "OK")
               /\ UNCHANGED <<dbvars, now>>

Register(p, t, c) == /\ conn[p] = "identified"
                     /\ Commit(RegisterDB(DB, p, t, c))
                     /\ act' = Act("Register", p, t, c, "OK")
                     /\ UNCHANGED <<conn, lu, now>>

Unregister(p, t, c) == /\ conn[p] = "identified"
                       /\ Commit(UnregisterDB(DB, p, t, c))
                       /\ act' = Act("Unregister", p, t, c, "OK")
                       /\ UNCHANGED <<conn, lu, now>>

\* PING is legal before IDENTIFY (no effect then)
Ping(p) == /\ conn[p] # "none"
           /\ lu' = IF conn[p] = "identified" THEN [lu EXCEPT ![p] = now] ELSE lu
           /\ act' = Act("Ping", p, "", "", "OK")
           /\ UNCHANGED <<dbvars, conn, now>>

Disconnect(p) == /\ conn[p] # "none"
                 /\ Commit(DisconnectDB(DB, p))
                 /\ conn' = [conn EXCEPT ![p] = "none"]
                 /\ act' = Act("Disconnect", p, "", "", "")
                 /\ UNCHANGED <<lu, now>>

CreateTopic(t) == /\ Commit(AddReg(DB, TopicKey(t)))
                  /\ act' = Act("CreateTopic", "", t, "", "200")
                  /\ UNCHANGED <<conn, lu, now>>

CreateChannel(t, c) == /\ Commit(AddReg(AddReg(DB, ChanKey(t, c)), TopicKey(t)))
                       /\ act' = Act("CreateChannel", "", t, c, "200")
                       /\ UNCHANGED <<conn, lu, now>>

DeleteTopic(t) == /\ Commit(DeleteTopicDB(DB, t))
                  /\ act' = Act("DeleteTopic", "", t, "", "200")
                  /\ UNCHANGED <<conn, lu, now>>

DeleteChannel(t, c) == /\ IF ChanKey(t, c) \in regs
                          THEN Commit(RemReg(DB, ChanKey(t, c))) /\ act' = Act("DeleteChannel", "", t, c, "200")
                          ELSE UNCHANGED dbvars /\ act' = Act("DeleteChannel", "", t, c, "404")
                       /\ UNCHANGED <<conn, lu, now>>

\* node is passed in the p field of act
Tombstone(t, n) == /\ Commit(TombstoneDB(DB, t, n, now))
                   /\ act' = Act("Tombstone", n, t, "", "200")
                   /\ UNCHANGED <<conn, lu, now>>

Tick == /\ now < MaxNow
        /\ now' = now + 1
        /\ act' = Act("Tick", "", "", "", "")
        /\ UNCHANGED <<dbvars, conn, lu>>

ChanOrNone == Channels \cup {""}

PeerStep(p) == \/ Connect(p) \/ Identify(p) \/ Ping(p) \/ Disconnect(p)
               \/ \E t \in Topics, c \in ChanOrNone : Register(p, t, c) \/ Unregister(p, t, c)
AdminStep == \/ \E t \in Topics : CreateTopic(t) \/ DeleteTopic(t)
             \/ \E t \in Topics, c \in Channels : CreateChannel(t, c) \/ DeleteChannel(t, c)
             \/ \E t \in Topics, n \in NodeNames : Tombstone(t, n)

Next == Tick \/ AdminStep \/ \E p \in Producers : PeerStep(p)
Spec == Init /\ [][Next]_vars
\* the untimed regime (thresholds out of reach, the clock stands still)
NextUntimed == AdminStep \/ \E p \in Producers : PeerStep(p)
SpecUntimed == Init /\ [][NextUntimed]_vars

---------------------------------------------------------------------------
(* structure *)
TypeOK == /\ regs \subseteq AllKeys
          /\ prods \in [AllKeys -> SUBSET Producers]
          /\ \A t \in Topics, p \in Producers : tomb[t][p] \in (-1)..MaxNow
          /\ conn \in [Producers -> {"none", "connected", "identified"}]
          /\ \A p \in Producers : lu[p] \in 0..MaxNow
          /\ now \in 0..MaxNow
ProdsOnlyUnderKeys == \A k \in AllKeys : prods[k] # {} => k \in regs
TombOnlyForProds   == \A t \in Topics, p \in Producers : tomb[t][p] # NoTomb => p \in prods[TopicKey(t)]
\* only connected, identified peers are ever listed: a peer that is gone is gone everywhere
NoGhosts == \A k \in AllKeys, p \in Producers : p \in prods[k] => conn[p] = "identified"

(* C14, clause by clause *)
\* "a topic's producers are the connected, recently-pinged nsqds that registered it and are not tombstoned for it"
ProducersAreLive ==
  \A t \in Topics : \A p \in Lookup(t).producers :
      conn[p] = "identified" /\ now - lu[p] <= InactiveK /\ p \in prods[TopicKey(t)] /\ ~Tombstoned(t, p)
InactiveHidden ==
  \A t \in Topics, p \in Producers : now - lu[p] > InactiveK =>
      p \notin Lookup(t).producers /\ \A x \in NodesQ : x.p # p
\* "an nsqd that disconnects is at once gone from every producer list"
GoneAtOnce ==
  [][\A p \in Producers : (conn[p] # "none" /\ conn'[p] = "none") =>
        /\ \A k \in AllKeys : p \notin prods'[k]
        /\ regs' = regs
        /\ \A q \in Producers \ {p}, k \in AllKeys : (q \in prods'[k]) = (q \in prods[k])]_vars
\* "a tombstone hides only the named producer for the named topic"
TombstoneHidesOnlyNamed ==
  [][act'.name = "Tombstone" =>
       LET t == act'.t  n == act'.p IN
       /\ \A p \in prods[TopicKey(t)] : NodeOf(p) = n => tomb'[t][p] = now
       /\ \A t2 \in Topics, p \in Producers : (t2 # t \/ NodeOf(p) # n) => tomb'[t2][p] = tomb[t2][p]
       /\ regs' = regs /\ prods' = prods]_vars
\* "... and lapses after the tombstone lifetime or when that producer unregisters the topic"
TombstoneLapses ==
  /\ \A t \in Topics, p \in Producers : (tomb[t][p] # NoTomb /\ now - tomb[t][p] > TombK) => ~Tombstoned(t, p)
TombstoneLapsesOnUnregister ==
  [][(act'.name = "Unregister" /\ act'.c = "") => tomb'[act'.t][act'.p] = NoTomb]_vars
\* a fresh registration (after unregister / reconnect) is visible at once when the peer is active
FreshRegisterVisible ==
  [][\A t \in Topics, p \in Producers :
       (act'.name = "Register" /\ act'.t = t /\ act'.p = p /\ p \notin prods[TopicKey(t)] /\ now - lu[p] <= InactiveK)
          => p \in Lookup(t)'.producers]_vars

(* C15: a step taken by one connection never changes what belongs to another *)
OthersUntouched ==
  [][\A p \in Producers :
       (act'.name \in {"Connect", "Identify", "Register", "Unregister", "Ping", "Disconnect"} /\ act'.p = p) =>
          \A q \in Producers \ {p} :
             /\ \A k \in AllKeys : (q \in prods'[k]) = (q \in prods[k])
             /\ \A t \in Topics : tomb'[t][q] = tomb[t][q]
             /\ conn'[q] = conn[q] /\ lu'[q] = lu[q]]_vars
=============================================================================
