package main

import (
	"fmt"
	"math/rand"
	"sort"
	"strings"
	"sync"
	"sync/atomic"
	"time"

	"github.com/nsqio/nsq/internal/verif"
	"github.com/nsqio/nsq/nsqd"
	"github.com/nsqio/nsq/verifharness/hlib"
)

// C05, binding B: an arbitrary publish/consume history, a graceful shutdown (nsqd.Exit) at a random moment,
// a restart on the same data path, a full drain -- then a ledger over both lifetimes.
const guidEpoch = int64(1288834974288) // nsqd/guid.go twepoch

func restartScenario(sc Scenario, dir string) ([]verif.Event, *RunResult) {
	res := &RunResult{Scenario: "restart " + sc.String()}

	r := &Run{sc: sc, rng: rand.New(rand.NewSource(sc.Seed)), byKey: map[string]*pubRec{}, emptied: map[string]bool{}}
	rec := &countingRecorder{}
	rec.Install()
	finish := func() []verif.Event { rec.Uninstall(); return rec.Take() }
	hlib.Emit("Reset", "scenario", res.Scenario, "now", time.Now().UnixNano())
	var lkd *lookupdInst
	if r.rng.Intn(2) == 0 {
		// with an nsqlookupd configured the lookup loop handles every notification with a network round trip
		if li, err := startLookupd(); err == nil {
			lkd = li
			defer li.l.Exit()
		}
	}
	drainedRun := forcedVariant == "" && rand.New(rand.NewSource(sc.Seed*11+7)).Intn(4) == 0
	if drainedRun && r.sc.MemQ > 3 {
		r.sc.MemQ = 2 // so that the channels' disk queues are involved
	}
	syncEvery := int64(2 + rand.New(rand.NewSource(sc.Seed*19+3)).Intn(9))
	opts := func(o *nsqd.Options) {
		r.nodeOpts(o)
		if drainedRun {
			// the disk queues write their positions down every few operations and not on a timer: at the shutdown the
			// last note is, as a rule, a few reads old
			o.SyncEvery = syncEvery
			o.SyncTimeout = 10 * time.Second
		}
		if lkd != nil {
			o.NSQLookupdTCPAddresses = []string{lkd.tcp}
		}
	}
	nd, err := startNode(dir, opts)
	if err != nil {
		res.Inconclusive = "start nsqd: " + err.Error()
		return finish(), res
	}
	r.nd = nd
	pausedT := map[string]bool{}
	pausedC := map[string]bool{}
	// in half of the runs the first topic stays paused while everything is published (its queue fills up) and is
	// unpaused a few hundred microseconds before the shutdown: the topic pump is then in the middle of copying a
	// backlog to the channels when Exit arrives
	fanoutRun := r.rng.Intn(2) == 0
	// in a third of the other runs the shutdown arrives while the deletion of a side channel is half done (exit flag
	// set, files gone, still linked in the topic's channel map) and the topic -- paused all along -- holds its whole
	// backlog in memory: closing that channel fails ("exiting"), everything else must be flushed all the same
	delpark := !fanoutRun && rand.New(rand.NewSource(sc.Seed*7+3)).Intn(3) != 0
	// ... or while the id generator is refusing and publishers are waiting inside it (shutdown mid-publish only)
	genstall := !fanoutRun && !delpark
	if forcedVariant == "genstall" {
		fanoutRun, delpark, genstall = false, false, true
	}
	// ... or (a quarter of all runs) only after everything has been consumed and finished: prompt consumers, nothing paused, the
	// shutdown comes right after the last FIN -- whatever went through a channel's disk queue has just been read from it,
	// and none of it may come back after the restart
	if drainedRun {
		fanoutRun, delpark, genstall = false, false, false
		res.Scenario += " drained-before-exit"
	}
	// the channel-less topic is paused in a third of the runs: it comes back paused, with its backlog
	lonelyPaused := rand.New(rand.NewSource(sc.Seed*17+1)).Intn(3) == 0
	if genstall {
		res.Scenario += " generator-stalled"
	}
	if delpark {
		res.Scenario += " delete-parked"
	}
	if fanoutRun {
		sc.NMsg *= 3
		r.sc.NMsg = sc.NMsg
	}
	for _, t := range sc.Topics {
		r.httpAdmin("/topic/create?topic=" + t)
		for _, c := range sc.Channels[t] {
			r.httpAdmin("/channel/create?topic=" + t + "&channel=" + c)
			if r.rng.Intn(4) == 0 && !drainedRun {
				r.httpAdmin("/channel/pause?topic=" + t + "&channel=" + c)
				pausedC[t+"/"+c] = true
			}
		}
		if (r.rng.Intn(5) == 0 && !drainedRun) || ((fanoutRun || delpark) && t == sc.Topics[0]) {
			r.httpAdmin("/topic/pause?topic=" + t)
			pausedT[t] = true
		}
	}
	if delpark {
		r.httpAdmin("/channel/create?topic=" + sc.Topics[0] + "&channel=dying")
	}
	// a topic with zero channels keeps its backlog too
	r.httpAdmin("/topic/create?topic=lonely")
	for i := 0; i < 3; i++ {
		key, body := fmt.Sprintf("p99-%05d", i), []byte(fmt.Sprintf("p99-%05d|lonely", i))
		rec := r.record(key, "lonely", body, 0, "HTTP")
		if st, _, err := nd.post("/pub?topic=lonely", body); err == nil && st == 200 {
			r.markAcked([]*pubRec{rec})
		}
	}
	if lonelyPaused {
		r.httpAdmin("/topic/pause?topic=lonely")
		pausedT["lonely"] = true
	}
	for _, t := range sc.Topics {
		for _, c := range sc.Channels[t] {
			for i := 0; i < sc.ConsPerChan; i++ {
				pers := personalities("core", r.rng)
				if drainedRun {
					pers = 0
				}
				if _, err := r.newConsumer(t, c, pers, int64(1+r.rng.Intn(3))); err != nil {
					res.Inconclusive = "consumer: " + err.Error()
					nd.stop(30 * time.Second)
					return finish(), res
				}
			}
		}
	}
	r.startConsumerLoops()
	pubDone := make(chan struct{})
	go func() {
		done := make(chan struct{}, sc.NPub)
		for p := 0; p < sc.NPub; p++ {
			r.wg.Add(1)
			go func(p int) {
				r.publisher(p, sc.Seed*1000+int64(p), sc.NMsg, 0)
				done <- struct{}{}
			}(p)
		}
		for p := 0; p < sc.NPub; p++ {
			<-done
		}
		close(pubDone)
	}()
	// channels keep being created while the shutdown is requested (each creation spawns a notify goroutine that
	// persists the metadata); what was acknowledged before the request must exist after the restart
	var createdBefore []string
	var cmu sync.Mutex
	churnStop := make(chan struct{})
	churnDone := make(chan struct{})
	burst := r.rng.Intn(2) == 0 && !drainedRun
	go func() {
		defer close(churnDone)
		if !burst {
			return
		}
		for i := 0; ; i++ {
			select {
			case <-churnStop:
				return
			default:
			}
			t := sc.Topics[i%len(sc.Topics)]
			name := fmt.Sprintf("late%d", i)
			st, _, err := nd.post("/channel/create?topic="+t+"&channel="+name, nil)
			if err != nil || st != 200 {
				return
			}
			if atomic.LoadInt32(&r.exiting) == 0 {
				cmu.Lock()
				createdBefore = append(createdBefore, t+"/"+name)
				cmu.Unlock()
			}
			if i > 400 {
				return
			}
		}
	}()
	// a paused topic that has accumulated a backlog is unpaused just before the shutdown: its pump is busy
	// copying messages to the channels when Exit arrives
	fanout := ""
	if fanoutRun {
		fanout = sc.Topics[0]
	}
	// shutdown either in the middle of publishing or some time after it
	if drainedRun {
		select {
		case <-pubDone:
		case <-time.After(60 * time.Second):
		}
		for i := 0; i < 1500; i++ {
			st, _, err := nd.stats("")
			if err != nil {
				break
			}
			left := int64(0)
			for _, ts := range st.Topics {
				for _, cs := range ts.Channels {
					left += ts.Depth + cs.Depth + cs.InFlightCount + cs.DeferredCount
				}
			}
			if left == 0 {
				break
			}
			time.Sleep(20 * time.Millisecond)
		}
	} else if r.rng.Intn(2) == 0 || genstall {
		time.Sleep(time.Duration(5+r.rng.Intn(60)) * time.Millisecond)
	} else {
		select {
		case <-pubDone:
		case <-time.After(60 * time.Second):
		}
		time.Sleep(time.Duration(r.rng.Intn(150)) * time.Millisecond)
	}
	if fanout != "" {
		select {
		case <-pubDone:
		case <-time.After(60 * time.Second):
		}
		r.httpAdmin("/topic/unpause?topic=" + fanout)
		delete(pausedT, fanout)
		time.Sleep(time.Duration(r.rng.Intn(300)) * time.Microsecond)
	}
	var gate *gateCtl
	if delpark {
		select {
		case <-pubDone:
		case <-time.After(60 * time.Second):
		}
		if tp, err := nd.N.GetExistingTopic(sc.Topics[0]); err == nil {
			if ch, err := tp.GetExistingChannel("dying"); err == nil {
				gate = newGateCtl()
				verif.SetGate(gate.fn)
				gate.arm("chandelete.afterDelete|" + nsqd.VerifName(ch))
				go nd.post("/channel/delete?topic="+sc.Topics[0]+"&channel=dying", nil)
				select {
				case <-gate.arrived:
				case <-time.After(10 * time.Second):
					gate.releaseAll()
					verif.SetGate(nil)
					res.Inconclusive = "the channel deletion did not reach its yield point"
					nd.stop(30 * time.Second)
					return finish(), res
				}
			}
		}
	}
	if genstall {
		// the id generator of every topic refuses for the next ~300 ms (as after a small backward clock step): the
		// publishers wait inside GenerateID -- and the shutdown request arrives while they do
		for _, t := range sc.Topics {
			if tp, err := nd.N.GetExistingTopic(t); err == nil {
				f := nsqd.VerifTopicGUID(tp)
				_, _, lastID := f.State()
				node := (lastID >> 12) & 1023
				ts := (time.Now().UnixNano() >> 20) + 300
				f.Inject(ts, 0, ((ts-guidEpoch)<<22)|(node<<12))
			}
		}
		time.Sleep(time.Duration(5+r.rng.Intn(40)) * time.Millisecond)
	}
	atomic.StoreInt32(&r.exiting, 1)
	hlib.Emit("HExitReq")
	if err := nd.stop(60 * time.Second); err != nil {
		if gate != nil {
			gate.releaseAll()
			verif.SetGate(nil)
		}
		r.failf("[C05] %v", err)
		return finish(), res
	}
	if gate != nil {
		gate.releaseAll()
		verif.SetGate(nil)
		time.Sleep(20 * time.Millisecond)
	}
	hlib.Emit("HExitDone")
	close(churnStop)
	<-churnDone
	atomic.StoreInt32(&r.stop, 1)
	select {
	case <-pubDone:
	case <-time.After(60 * time.Second):
		res.Inconclusive = "publishers did not stop after shutdown"
		return finish(), res
	}
	r.consMu.Lock()
	for _, c := range r.cons {
		c.cn.close()
	}
	r.consMu.Unlock()
	r.wg.Wait()
	// ---- in a third of the runs: one or two more restart cycles in between, with nobody publishing or consuming. Every one
	// must come up, keep every topic / channel, and hold exactly as many messages per channel as the one before
	// (topic backlog + channel backlog; what was in flight or deferred at a shutdown is queued after it)
	var prevTotals map[string]int64
	if cyc := rand.New(rand.NewSource(sc.Seed*13 + 5)).Intn(6); cyc < 2 && forcedVariant == "" {
		res.Scenario += fmt.Sprintf(" +%d idle cycles", cyc+1)
		for k := 0; k <= cyc; k++ {
			hlib.Emit("HMidRestart", "k", k)
			ndm, err := startNode(dir, opts)
			if err != nil {
				r.failf("[C05] nsqd does not start again on the data path after graceful shutdown number %d: %v", k+1, err)
				res.Fails = r.fails
				return finish(), res
			}
			tot, ok := settledTotals(ndm)
			if ok {
				if prevTotals != nil {
					for key, v := range prevTotals {
						if w, have := tot[key]; !have {
							r.failf("[C05] %s is gone after restart cycle %d (nothing was deleted)", key, k+1)
						} else if w != v {
							r.failf("[C05] %s holds %d messages after restart cycle %d and held %d after the cycle before; nobody published or consumed in between", key, w, k+1, v)
						}
					}
				}
				prevTotals = tot
			}
			if err := ndm.stop(60 * time.Second); err != nil {
				r.failf("[C05] graceful shutdown of an idle restart cycle: %v", err)
				res.Fails = r.fails
				return finish(), res
			}
		}
	}
	// ---- second lifetime
	nd2, err := startNode(dir, opts)
	if err != nil {
		r.failf("[C05] nsqd does not start again on the data path after a graceful shutdown: %v", err)
		res.Fails = r.fails
		return finish(), res
	}
	defer nd2.stop(30 * time.Second)
	hlib.Emit("HRestarted")
	st, _, err := nd2.stats("")
	if err != nil {
		res.Inconclusive = "stats after restart: " + err.Error()
		return finish(), res
	}
	gotT := map[string]TopicStat{}
	for _, ts := range st.Topics {
		gotT[ts.Name] = ts
	}
	for _, t := range append(append([]string{}, sc.Topics...), "lonely") {
		ts, ok := gotT[t]
		if !ok {
			r.failf("[C05] topic %s is missing after restart", t)
			continue
		}
		if ts.Paused != pausedT[t] {
			r.failf("[C05] topic %s paused=%v after restart, was %v", t, ts.Paused, pausedT[t])
		}
		gotC := map[string]ChannelStat{}
		for _, cs := range ts.Channels {
			gotC[cs.Name] = cs
		}
		cmu.Lock()
		for _, tc := range createdBefore {
			if strings.HasPrefix(tc, t+"/") {
				if _, ok := gotC[strings.TrimPrefix(tc, t+"/")]; !ok {
					r.failf("[C05] channel %s, whose creation was acknowledged before the shutdown request, is missing after restart", tc)
				}
			}
		}
		cmu.Unlock()
		for _, c := range sc.Channels[t] {
			cs, ok := gotC[c]
			if !ok {
				r.failf("[C05] channel %s/%s is missing after restart", t, c)
				continue
			}
			if cs.Paused != pausedC[t+"/"+c] {
				r.failf("[C05] channel %s/%s paused=%v after restart, was %v", t, c, cs.Paused, pausedC[t+"/"+c])
			}
		}
	}
	if prevTotals != nil {
		if tot, ok := settledTotals(nd2); ok {
			for key, v := range prevTotals {
				if w, have := tot[key]; have && w != v {
					r.failf("[C05] %s holds %d messages after the last restart and held %d after the cycle before; nobody published or consumed in between", key, w, v)
				}
			}
		}
	}
	// drain: unpause everything, one prompt consumer per channel; the lonely topic gets a channel now
	r.nd = nd2
	atomic.StoreInt32(&r.draining, 1)
	r.cons = nil
	r.httpAdmin("/channel/create?topic=lonely&channel=late")
	st2, _, err := nd2.stats("")
	if err != nil {
		res.Inconclusive = "stats after restart: " + err.Error()
		return finish(), res
	}
	for _, ts := range st2.Topics {
		r.httpAdmin("/topic/unpause?topic=" + ts.Name)
		for _, cs := range ts.Channels {
			r.httpAdmin("/channel/unpause?topic=" + ts.Name + "&channel=" + q(cs.Name))
			if _, err := r.newConsumer(ts.Name, cs.Name, 0, 5); err != nil {
				res.Inconclusive = "drain consumer: " + err.Error()
				return finish(), res
			}
		}
	}
	atomic.StoreInt32(&r.stop, 0)
	r.startConsumerLoops()
	drained := false
	empties := 0
	deadline := time.Now().Add(90 * time.Second)
	lastChange, lastCount := time.Now(), atomic.LoadInt64(&evCount)
	for time.Now().Before(deadline) {
		time.Sleep(40 * time.Millisecond)
		st, _, err := nd2.stats("")
		if err != nil {
			break
		}
		left := int64(0)
		for _, ts := range st.Topics {
			left += ts.Depth
			for _, cs := range ts.Channels {
				left += cs.Depth + cs.InFlightCount + cs.DeferredCount
			}
		}
		if left == 0 {
			empties++
			if empties >= 4 {
				drained = true
				break
			}
		} else {
			empties = 0
		}
		if c := atomic.LoadInt64(&evCount); c != lastCount {
			lastCount, lastChange = c, time.Now()
		} else if time.Since(lastChange) > 15*time.Second {
			r.failf("[C05] STUCK after restart: no hook event for 15s while %d messages are queued with ready consumers", left)
			break
		}
	}
	atomic.StoreInt32(&r.stop, 1)
	r.wg.Wait()
	if !drained && len(r.fails) == 0 {
		res.Inconclusive = "drain after restart did not complete"
	}
	hlib.Emit("HEnd")
	evs := finish()
	if drained {
		r.restartLedger(evs)
	}
	r.consMu.Lock()
	for _, c := range r.cons {
		c.cn.close()
	}
	r.consMu.Unlock()
	res.Published = len(r.pubs)
	for _, p := range r.pubs {
		if p.Acked {
			res.Acked++
		}
	}
	res.Fails = r.fails
	if res.Inconclusive == "" {
		res.Inconclusive = r.incon
	}
	res.Events = len(evs)
	return evs, res
}

// settledTotals: messages held per channel ("t/c": topic backlog + channel backlog, in flight, deferred) and per
// channel-less topic ("t/"), read until two successive /stats agree (the topic pump may still be handing its backlog on)
func settledTotals(nd *Node) (map[string]int64, bool) {
	// POST /topic/pause is answered once the topic's pump has taken notice -- at its select, with no message in its hands:
	// with every topic paused the numbers below are exact, not a reading taken while something is on its way
	st0, _, err := nd.stats("")
	if err != nil {
		return nil, false
	}
	var paused []string
	for _, ts := range st0.Topics {
		if !ts.Paused {
			if st, _, err := nd.post("/topic/pause?topic="+ts.Name, nil); err != nil || st != 200 {
				return nil, false
			}
			paused = append(paused, ts.Name)
		}
	}
	defer func() {
		for _, t := range paused {
			nd.post("/topic/unpause?topic="+t, nil)
		}
	}()
	var last map[string]int64
	for i := 0; i < 50; i++ {
		st, _, err := nd.stats("")
		if err != nil {
			return nil, false
		}
		cur := map[string]int64{}
		for _, ts := range st.Topics {
			if len(ts.Channels) == 0 {
				cur[ts.Name+"/"] = ts.Depth
			}
			for _, cs := range ts.Channels {
				cur[ts.Name+"/"+cs.Name] = ts.Depth + cs.Depth + cs.InFlightCount + cs.DeferredCount
			}
		}
		if last != nil && len(last) == len(cur) {
			same := true
			for k, v := range cur {
				if last[k] != v {
					same = false
				}
			}
			if same {
				return cur, true
			}
		}
		last = cur
		time.Sleep(20 * time.Millisecond)
	}
	return nil, false
}

// restartLedger: what was acknowledged and not finished at the shutdown request must be delivered after the
// restart on each of its channels, byte-identical, attempts continuing; what was finished must not reappear.
func (r *Run) restartLedger(evs []verif.Event) {
	type ck struct{ c, id string } // channel "t/c" (without instance), id
	exitAt, restartAt := -1, -1
	for i, e := range evs {
		if e.Ev == "HExitReq" && exitAt < 0 {
			exitAt = i
		}
		if e.Ev == "HRestarted" {
			restartAt = i
		}
	}
	if exitAt < 0 || restartAt < 0 {
		return
	}
	idOf := map[string]string{}      // key -> id
	keyOf_ := map[string]string{}    // topic:id -> key
	ackedBefore := map[string]bool{} // key
	finBefore := map[ck]bool{}
	finMaybe := map[ck]bool{}
	lastAtt := map[ck]int64{}
	pumpHeld := map[ck]bool{} // taken by a delivery pump and not registered when the channel closed
	tsOf := map[string]string{}
	for i, e := range evs[:restartAt] {
		switch e.Ev {
		case "TPutBegin":
			d, _ := hlib.KVGet(e, "body").(verif.BodyDigest)
			k := keyOf([]byte(d.Pre))
			idOf[k] = hlib.KVStr(e, "id")
			tk := trimGen(hlib.KVStr(e, "t")) + ":" + hlib.KVStr(e, "id")
			if prev, ok := keyOf_[tk]; ok && prev != k {
				r.failf("[C12] id %q was handed out for two messages (%s and %s)", tk, prev, k)
			}
			keyOf_[tk] = k
			tsOf[k] = fmt.Sprint(hlib.KVInt(e, "ts"))
		case "HPubAck":
			if i < exitAt {
				ks, _ := hlib.KVGet(e, "keys").([]string)
				for _, k := range ks {
					ackedBefore[k] = true
				}
			}
		case "FinDone":
			x := ck{trimGen(hlib.KVStr(e, "c")), hlib.KVStr(e, "id")}
			if i < exitAt {
				finBefore[x] = true
			} else {
				finMaybe[x] = true
			}
		case "Send":
			x := ck{trimGen(hlib.KVStr(e, "c")), hlib.KVStr(e, "id")}
			if a := hlib.KVInt(e, "att"); a > lastAtt[x] {
				lastAtt[x] = a
			}
		case "KRecv":
			pumpHeld[ck{trimGen(hlib.KVStr(e, "c")), hlib.KVStr(e, "id")}] = true
		case "IFPush", "KSample":
			delete(pumpHeld, ck{trimGen(hlib.KVStr(e, "c")), hlib.KVStr(e, "id")})
		}
	}
	// second lifetime: what the drain consumers received
	kName := map[int64]string{} // k -> channel
	back := map[ck][]verif.Event{}
	for _, e := range evs[restartAt:] {
		switch e.Ev {
		case "KSub":
			kName[hlib.KVInt(e, "k")] = trimGen(hlib.KVStr(e, "c"))
		case "Send":
			x := ck{trimGen(hlib.KVStr(e, "c")), hlib.KVStr(e, "id")}
			back[x] = append(back[x], e)
		}
	}
	chansOf := func(t string) []string {
		if t == "lonely" {
			return []string{"lonely/late"}
		}
		var out []string
		for _, c := range r.sc.Channels[t] {
			out = append(out, t+"/"+c)
		}
		return out
	}
	keys := make([]string, 0, len(ackedBefore))
	for k := range ackedBefore {
		keys = append(keys, k)
	}
	sort.Strings(keys)
	for _, k := range keys {
		rec := r.byKey[k]
		id := idOf[k]
		if rec == nil || id == "" {
			continue
		}
		for _, c := range chansOf(rec.Topic) {
			x := ck{c, id}
			if finBefore[x] {
				if len(back[x]) > 0 {
					r.failf("[C05] %s on %s was finished before the shutdown and is delivered again after the restart", k, c)
				}
				continue
			}
			if len(back[x]) == 0 {
				if finMaybe[x] {
					continue // FIN processed while shutting down: may or may not reappear
				}
				if pumpHeld[x] {
					r.failf("[C05/KNOWN pair:DELIVER|EXIT:lost] %s on %s was held by a delivery pump (taken from the queue, not yet in flight) when the channel closed and did not come back", k, c)
				} else {
					r.failf("[C05] %s on %s was acknowledged, not finished at the shutdown request, and is not delivered after the restart", k, c)
				}
				continue
			}
			first := back[x][0]
			if want := lastAtt[x] + 1; hlib.KVInt(first, "att") != want && !strings.HasPrefix(c, "lonely/") {
				r.failf("[C05] %s on %s comes back with attempts %d, expected %d (last delivery before the shutdown had %d)", k, c, hlib.KVInt(first, "att"), want, lastAtt[x])
			}
			d, _ := hlib.KVGet(first, "body").(verif.BodyDigest)
			if d.Len != len(rec.Body) || d.CRC != verif.Digest(rec.Body).CRC {
				r.failf("[C05] %s on %s comes back with a different body", k, c)
				r.failf("[C07] %s on %s comes back after the restart with a different body", k, c)
			}
			if ts := fmt.Sprint(hlib.KVInt(first, "ts")); ts != tsOf[k] {
				r.failf("[C05] %s on %s comes back with timestamp %s, was %s", k, c, ts, tsOf[k])
				r.failf("[C07] %s on %s is redelivered after the restart with timestamp %s, it was published (and delivered before) with %s", k, c, ts, tsOf[k])
			}
		}
	}
}
