--------------------------- MODULE FileLoggerAbs ---------------------------
(***************************************************************************)
(* C19 at the level a user of nsq_to_file relies on.                       *)
(*                                                                         *)
(* What can be told apart from outside: the directory entries of the       *)
(* output / work directories, the READABLE RECORDS each file holds (plain  *)
(* file: complete lines; gzip file: lines inside closed, decompressible    *)
(* members), how much of each file was covered by its last fsync, and      *)
(* which messages have been acknowledged (FIN) to nsqd.                    *)
(*                                                                         *)
(* The file-system operations are the actions; ANY program issuing them is *)
(* a behaviour of this spec (FIN has no precondition, truncation and       *)
(* rename-over-existing exist as operations) -- the PROPERTY is what the   *)
(* invariants / action properties below say about such a behaviour.        *)
(* FileLogger.tla (the router loop of apps/nsq_to_file/file_logger.go)     *)
(* performs its steps through these operations; recorded syscall traces of *)
(* the real binary are mapped to these operations (FileLoggerTrace.tla).   *)
(*                                                                         *)
(* Records are tokens: a positive integer m is "body of message m + \n";   *)
(* a non-positive integer is content that was in a file before the tool    *)
(* started.  Inodes are numbered in order of creation and never reused.    *)
(* Directory entries are not themselves made durable by nsq_to_file (it    *)
(* never fsyncs a directory); the property statement speaks of the file    *)
(* only, and so does this spec.                                            *)
(***************************************************************************)
EXTENDS Integers, Sequences, FiniteSets, TLC

VARIABLES dir,    \* function: existing directory entry (name) -> inode
          data,   \* function: inode -> sequence of readable records
          dur,    \* function: inode -> length of the prefix of data covered by the last fsync
          tail,   \* function: inode -> "clean" | "open" | "torn": what follows the readable records in the file.
                  \*   "open": an unterminated gzip member (header / partial deflate data) written by the running
                  \*   process, which can still terminate it; "torn": such a member left behind by a process that is
                  \*   gone.  A reader (gzip -dc, compress/gzip) stops with an error at a torn member: NOTHING written
                  \*   after it is readable, however complete.
          fin,    \* set of messages acknowledged to nsqd
          epoch   \* number of power losses so far (a power-loss step is the only one allowed to shorten files)

avars == <<dir, data, dur, tail, fin, epoch>>

Range(s)       == {s[k] : k \in DOMAIN s}
IsPrefix(s, t) == Len(s) <= Len(t) /\ \A k \in 1..Len(s) : s[k] = t[k]
Named(d, i)    == \E n \in DOMAIN d : d[n] = i
NewIno         == Cardinality(DOMAIN data) + 1

(* initial state: `pre` is a set of names that exist before the tool starts, each with *)
(* `sz` records of foreign content, all of it durable                                  *)
PreSeq(pre)  == CHOOSE s \in [1..Cardinality(pre) -> pre] : \A a, b \in 1..Cardinality(pre) : a # b => s[a] # s[b]
AInit(pre, sz) ==
  LET ps == PreSeq(pre) IN
  /\ dir  = [n \in pre |-> CHOOSE k \in 1..Cardinality(pre) : ps[k] = n]
  /\ data = [i \in 1..Cardinality(pre) |-> [k \in 1..sz |-> 0 - i]]
  /\ dur  = [i \in 1..Cardinality(pre) |-> sz]
  /\ tail = [i \in 1..Cardinality(pre) |-> "clean"]
  /\ fin = {} /\ epoch = 0

----------------------------------------------------------------------------
(* operations a correct tool may use *)

\* open(O_CREAT) of a name that does not exist: a new, empty inode
FsCreate(n) == /\ n \notin DOMAIN dir
               /\ LET i == NewIno IN
                  /\ dir'  = dir  @@ (n :> i)
                  /\ data' = data @@ (i :> <<>>)
                  /\ dur'  = dur  @@ (i :> 0)
                  /\ tail' = tail @@ (i :> "clean")
               /\ UNCHANGED <<fin, epoch>>

\* write(2) at the end of the file that completes `recs` (newline written / gzip member terminated).  They are
\* readable -- unless the file already ends in a torn member: then they are in the file and no reader gets to them.
FsAppend(i, recs) == /\ i \in DOMAIN data
                     /\ data' = [data EXCEPT ![i] = IF tail[i] = "torn" THEN @ ELSE @ \o recs]
                     /\ tail' = [tail EXCEPT ![i] = IF @ = "torn" THEN "torn" ELSE "clean"]
                     /\ UNCHANGED <<dir, dur, fin, epoch>>

\* write(2) of the first bytes of a gzip member (gzip.Writer emits the 10-byte header on the first Write)
FsOpenMember(i) == /\ i \in DOMAIN data
                   /\ tail' = [tail EXCEPT ![i] = IF @ = "torn" THEN "torn" ELSE "open"]
                   /\ UNCHANGED <<dir, data, dur, fin, epoch>>

\* the writing process is gone (exit, SIGKILL): members it left open will never be terminated
Torn == [i \in DOMAIN tail |-> IF tail[i] = "open" THEN "torn" ELSE tail[i]]
ProcessDeath == tail' = Torn /\ UNCHANGED <<dir, data, dur, fin, epoch>>

FsFsync(i) == /\ i \in DOMAIN data
              /\ dur' = [dur EXCEPT ![i] = Len(data[i])]
              /\ UNCHANGED <<dir, data, tail, fin, epoch>>

\* link(2): fails with EEXIST when d exists, so it is only a step when d is free
FsLink(s, d) == /\ s \in DOMAIN dir /\ d \notin DOMAIN dir
                /\ dir' = dir @@ (d :> dir[s])
                /\ UNCHANGED <<data, dur, tail, fin, epoch>>

FsUnlink(n) == /\ n \in DOMAIN dir
               /\ dir' = [m \in DOMAIN dir \ {n} |-> dir[m]]
               /\ UNCHANGED <<data, dur, tail, fin, epoch>>

\* "FIN <id>" leaves for nsqd
Fin(m) == /\ fin' = fin \cup {m}
          /\ UNCHANGED <<dir, data, dur, tail, epoch>>

(* operations that exist in the world and that the property forbids or restricts: *)
(* they are here so that an execution which uses them is a behaviour that the     *)
(* properties then judge (instead of being merely "not a behaviour")              *)

\* open(O_TRUNC) / truncate / write below the end: everything from record k+1 on is replaced
FsRewrite(i, k, recs) == /\ i \in DOMAIN data /\ k \in 0..Len(data[i])
                         /\ data' = [data EXCEPT ![i] = SubSeq(@, 1, k) \o recs]
                         /\ dur'  = [dur EXCEPT ![i] = IF @ > k THEN k ELSE @]
                         /\ UNCHANGED <<dir, tail, fin, epoch>>

\* rename(2): replaces d when it exists
FsRename(s, d) == /\ s \in DOMAIN dir /\ s # d
                  /\ dir' = [m \in (DOMAIN dir \ {s}) \cup {d} |-> IF m = d THEN dir[s] ELSE dir[m]]
                  /\ UNCHANGED <<data, dur, tail, fin, epoch>>

(* power loss: every file keeps some length between what was fsynced and what was   *)
(* written (record granularity: a torn record / torn gzip member is not readable)   *)
MaxLen == LET S == {Len(data[i]) : i \in DOMAIN data} \cup {0} IN CHOOSE x \in S : \A y \in S : y <= x
PowerLoss == /\ \E cut \in [DOMAIN data -> 0..MaxLen] :
                  /\ \A i \in DOMAIN data : cut[i] >= dur[i] /\ cut[i] <= Len(data[i])
                  /\ data' = [i \in DOMAIN data |-> SubSeq(data[i], 1, cut[i])]
                  /\ dur'  = cut
             /\ tail' = Torn
             /\ epoch' = epoch + 1
             /\ UNCHANGED <<dir, fin>>

----------------------------------------------------------------------------
(* THE PROPERTY *)

\* a finished message's record lies inside the fsynced prefix of a file that still has a name
DurablyIn(m, i)     == \E k \in 1..dur[i] : k <= Len(data[i]) /\ data[i][k] = m
FinOnlyAfterDurable == \A m \in fin : \E n \in DOMAIN dir : DurablyIn(m, dir[n])

\* whatever happened (power loss included): what nsqd no longer owes can be read back
NothingOwedIsMissing == \A m \in fin : \E n \in DOMAIN dir : m \in Range(data[dir[n]])

\* no step other than a power loss shortens or rewrites a file, re-points an existing name
\* to another file, or leaves a file that holds records without any name
NoOverwriteStep ==
  \/ epoch' # epoch
  \/ /\ \A i \in DOMAIN data : IsPrefix(data[i], data'[i])
     /\ \A n \in DOMAIN dir : n \in DOMAIN dir' => dir'[n] = dir[n]
     /\ \A i \in DOMAIN data : (Named(dir, i) /\ data[i] # <<>>) => Named(dir', i)
NeverOverwrite == [][NoOverwriteStep]_avars

DurSane == \A i \in DOMAIN data : dur[i] <= Len(data[i])
=============================================================================
