SPECIFICATION Spec
CONSTANTS
  Handlers = {h1, h2, h3}
  SkipWhenSame = FALSE
INVARIANT AckedIsOnDisk
CHECK_DEADLOCK FALSE
