SPECIFICATION Spec
CONSTANTS
  Topics = {"t1"}
  Chans = {"c1"}
  PersistAfterDelete = TRUE
  MaxKills = 1
  BackupFirst = TRUE
  MaxOps = 4
INVARIANTS RestartSetWasVisited LoadedWasVisited IdleFileEqualsLive AckedPausePersisted
PROPERTY FileNeverVanishes
CHECK_DEADLOCK FALSE
