SPECIFICATION Spec
CONSTANTS
  Handlers = {h1, h2, h3}
  SkipWhenSame = TRUE
INVARIANT AckedIsOnDisk
CHECK_DEADLOCK FALSE
