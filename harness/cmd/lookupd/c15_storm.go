package main

// C15, concurrency: "no byte sequence on the TCP port and no HTTP request can ... stop it answering others" --
// also when they arrive AT THE SAME TIME as other clients' traffic. Every read route of the HTTP API is polled by
// several clients in tight loops while producers register / unregister / reconnect and the bystander pings; the
// liveness and bystander oracles run throughout and at the end. The daemon is a child process: one that is stuck
// can still be diagnosed (and killed).

import (
	"flag"
	"fmt"
	"math/rand"
	"net/url"
	"os"
	"sync"
	"sync/atomic"
	"time"
)

func init() { subcmds["c15-storm"] = c15Storm }

func c15Storm(args []string) int {
	fs := flag.NewFlagSet("c15-storm", flag.ExitOnError)
	bin := fs.String("bin", "", "nsqlookupd binary")
	seed := fs.Int64("seed", 1, "seed")
	dur := fs.Duration("dur", 4*time.Second, "storm duration")
	rep := fs.String("report", "storm.json", "report")
	fs.Parse(args)
	report := c15NewReport()
	w := &c15World{bin: *bin, id: 900}
	defer w.shutdown()
	if err := w.ensure(); err != nil {
		report.Inconclusive = "daemon could not be started: " + err.Error()
		report.write(*rep)
		return 2
	}
	var stop int32
	var wg sync.WaitGroup
	var reqs, cmds int64
	routes := []string{"/nodes", "/topics", "/debug", "/lookup?topic=" + url.QueryEscape(c15ByTopic), "/channels?topic=" + url.QueryEscape(c15ByTopic),
		"/lookup?topic=storm_t0", "/ping", "/info"}
	for p := 0; p < 6; p++ {
		wg.Add(1)
		go func(p int) {
			defer wg.Done()
			for i := p; atomic.LoadInt32(&stop) == 0; i++ {
				w.d.get(routes[i%len(routes)])
				atomic.AddInt64(&reqs, 1)
			}
		}(p)
	}
	for p := 0; p < 6; p++ {
		wg.Add(1)
		go func(p int) {
			defer wg.Done()
			rng := rand.New(rand.NewSource(*seed*100 + int64(p)))
			for atomic.LoadInt32(&stop) == 0 {
				c, err := c15Dial(w.d.tcp)
				if err != nil {
					time.Sleep(5 * time.Millisecond)
					continue
				}
				c.send(append([]byte("  V1"), c15IdentifyBytes(c15PeerBody(fmt.Sprintf("storm-%d", p), 4150+p, 4151+p, "storm"))...))
				c.readFrame(c15Deadline)
				n := 5 + rng.Intn(40)
				for i := 0; i < n && atomic.LoadInt32(&stop) == 0; i++ {
					t := fmt.Sprintf("storm_t%d", rng.Intn(3))
					switch rng.Intn(4) {
					case 0:
						c.send([]byte("REGISTER " + t + " c" + fmt.Sprint(rng.Intn(2)) + "\n"))
					case 1:
						c.send([]byte("UNREGISTER " + t + " c" + fmt.Sprint(rng.Intn(2)) + "\n"))
					case 2:
						c.send([]byte("REGISTER " + t + "#ephemeral\n"))
					default:
						c.send([]byte("PING\n"))
					}
					if _, st := c.readFrame(c15Deadline); st != "frame" {
						break
					}
					atomic.AddInt64(&cmds, 1)
				}
				c.close()
			}
		}(p)
	}
	// the oracles, while it is going on
	end := time.Now().Add(*dur)
	gaveUp := false
	for time.Now().Before(end) && !gaveUp {
		time.Sleep(300 * time.Millisecond)
		gaveUp = w.postStep(report, "storm", "concurrent-storm", fmt.Sprintf("%d HTTP reads and %d producer commands so far, concurrently", atomic.LoadInt64(&reqs), atomic.LoadInt64(&cmds)),
			"", c15ByIntact, "", "")
	}
	atomic.StoreInt32(&stop, 1)
	done := make(chan struct{})
	go func() { wg.Wait(); close(done) }()
	select {
	case <-done:
	case <-time.After(3 * c15Deadline):
		// clients still waiting for answers: the final oracle below says what is wrong
	}
	if !gaveUp {
		w.postStep(report, "storm", "concurrent-storm", fmt.Sprintf("after %d HTTP reads and %d producer commands, concurrently", atomic.LoadInt64(&reqs), atomic.LoadInt64(&cmds)),
			"", c15ByIntact, "", "")
	}
	report.mu.Lock()
	report.Evaluations += int(atomic.LoadInt64(&reqs) + atomic.LoadInt64(&cmds))
	report.mu.Unlock()
	if err := report.write(*rep); err != nil {
		fmt.Fprintln(os.Stderr, err)
		return 2
	}
	return 0
}
