SPECIFICATION TraceSpec
CONSTANTS
  AsImplemented = {}
  MaxOwn = 0
CONSTRAINT HW
INVARIANTS TypeOK StillServing SizesRefused ClosedLeavesNothing
POSTCONDITION TraceAccepted
CHECK_DEADLOCK FALSE
