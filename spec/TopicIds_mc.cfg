SPECIFICATION Spec
CONSTANTS
  Pubs = {p1, p2}
  Ids <- MCIds
  MaxId = 6
  Zero = 0
  Less <- IntLess
  MaxBatch = 3
  MaxCmds = 3
  Reuse = FALSE
INVARIANTS TypeOK PruneExact Unique BatchIncreasing RealTimeOrder
PROPERTIES EndAboveFloor EndRefinesObs SourceMonotone
CHECK_DEADLOCK FALSE
