SPECIFICATION TraceSpec
CONSTANTS
  Msgs = {1, 2, 3, 4, 5, 6, 7, 8}
  Dests = {1, 2}
  Kind = "async"
  Mode = "any"
  Handlers = 8
  Items = {"A", "R", "L", "D"}
  MaxSched = 0
  MaxBad = 0
  MaxTimeouts = 6
  MaxConnLost = 1000
  MaxAttempts = 0
  Filter = FALSE
CONSTRAINT HW
POSTCONDITION TraceAccepted
CHECK_DEADLOCK FALSE
