SPECIFICATION TraceSpec
CONSTANTS
  Nodes = {0, 1, 511, 1023}
CONSTRAINT HW
POSTCONDITION TraceAccepted
CHECK_DEADLOCK FALSE
