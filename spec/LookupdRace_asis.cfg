SPECIFICATION RSpec
CONSTANTS
  Producers = {"p1", "p2"}
  Topics = {"t1", "t2#ephemeral"}
  Channels = {"c2#ephemeral"}
  EphTopics = {"t2#ephemeral"}
  EphChannels = {"c2#ephemeral"}
  SharedNode = {}
  InactiveK = 1000
  TombK = 1000
  MaxNow = 0
  Fixed = FALSE
VIEW rview
INVARIANTS TypeOK ProdsOnlyUnderKeys RegistrationsKept
CHECK_DEADLOCK FALSE
