\* binding A: one ROW per input (length <= 7 over {x,y,d}) with Records(input) and what the
\* implementation-shaped reader (Trim = "ifdelim") publishes; replayed on the real to_nsq binary
SPECIFICATION Spec
CONSTANTS
  Sym = {"x", "y"}
  D = "d"
  MaxLen = 7
  NDest = 1
  Trim = "ifdelim"
  CanFail = FALSE
CONSTRAINT RowOut
CHECK_DEADLOCK FALSE
