\* replay family refetch (thorough): 15 answers to AUTH x 77 answers to the re-fetch
SPECIFICATION Spec
CONSTANTS
  Policies <- AuthPlain
  Cmds <- GrantCmds
  AnswersA <- MidAnswers
  AnswersR <- FullAnswers
  Waits = {0, 2, 3}
  MaxDepth = 2
  MaxNow = 9
  HttpReqs <- NoHttp
INVARIANTS TypeOK PropertyLevel PlainHttpServed RefetchIffExpired QueryCountLaw CodeStricter NeverOnExpiry EmitBehaviour
CHECK_DEADLOCK FALSE
