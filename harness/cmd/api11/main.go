// Command api11: binding of spec/NsqdPolicy.tla (C11: TLS-required and AUTH policies cannot be bypassed)
// to the real nsqd.
//
//	replay : behaviours enumerated by TLC (NsqdPolicy_r_*.cfg) are replayed against real in-process nsqd
//	         daemons configured with the behaviour's policy and a stub auth server that gives exactly the
//	         answers TLC chose; responses, closure, stub queries, /stats and HTTP status are compared.
//	random : seeded random longer command sequences with random answers from the full domain.
//
// Both write every executed step as a trace event (ndjson) for NsqdPolicyTrace.tla and evaluate the
// property-level predicates of NsqdPolicy.tla on what was observed.
package main

import (
	"fmt"
	"os"
)

type subcmd func(args []string) int

var subcmds = map[string]subcmd{}

func main() {
	if len(os.Args) < 2 {
		fmt.Fprintln(os.Stderr, "usage: api11 <replay|random> [flags]")
		os.Exit(2)
	}
	f, ok := subcmds[os.Args[1]]
	if !ok {
		fmt.Fprintf(os.Stderr, "unknown subcommand %q\n", os.Args[1])
		os.Exit(2)
	}
	os.Exit(f(os.Args[2:]))
}
